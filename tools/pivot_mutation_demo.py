#!/usr/bin/env python3
"""pivot_mutation_demo.py <workdir> -- demonstration for coq/PivotTie.v: edits of SRC/p?gstrf_pivotL.c (all four precisions),
   regeneration with tools/gen_trans.py, compilation of PivotGen.v + PivotTie.v in a second copy of coq/.
     <workdir>/srcmut/SRC   copy of /repo/SRC with one edit applied
     <workdir>/coqmut       copy of <workdir>/coq (compiled); PivotGen.v is regenerated there for every edit
   Expected: harmless rewrites (H*) still compile, semantic changes (S*) fail (in PivotTie.v, or the piece is refused by the
   translator and PivotGen.v lacks the definition)."""
import os, shutil, subprocess, sys, re

WORK = sys.argv[1] if len(sys.argv) > 1 else "/tmp/trA"
ONLY = sys.argv[2:]
SRCMUT = os.path.join(WORK, "srcmut")
COQMUT = os.path.join(WORK, "coqmut")
TOOLS = os.path.join(WORK, "tools")
FILES = ["p%sgstrf_pivotL.c" % p for p in "sdcz"]


def sub(pat, rep, count=None, flags=0):
    def f(txt):
        new, n = re.subn(pat, rep, txt, flags=flags)
        if n == 0 or (count is not None and n != count):
            raise SystemExit("edit %r matched %d times" % (pat, n))
        return new
    return f


def seq(*fs):
    def f(txt):
        for g in fs:
            txt = g(txt)
        return txt
    return f


ABS = r"(fabs \(|[cz]_abs1 \(&)"
MUTANTS = [
    # ---- harmless rewrites
    ("H0 unchanged source", lambda t: t),
    ("H1 operands of && swapped in both threshold tests", sub(r"rtemp != 0\.0 && rtemp >= thresh", "rtemp >= thresh && rtemp != 0.0", 2)),
    ("H2 locals renamed (old_pivptr -> oldp, rtemp -> t1, pivmax -> big)",
     seq(sub(r"\bold_pivptr\b", "oldp"), sub(r"\brtemp\b", "t1"), sub(r"\bpivmax\b", "big"))),
    ("H3 comparisons mirrored (thresh <= rtemp, pivmax < rtemp, 0 <= diag, EMPTY == old_pivptr)",
     seq(sub(r"rtemp >= thresh", "thresh <= rtemp", 2), sub(r"rtemp > pivmax", "pivmax < rtemp", 1), sub(r"diag >= 0", "0 <= diag", 1),
         sub(r"old_pivptr == EMPTY", "EMPTY == old_pivptr", 1))),
    ("H4 statements of the loop body reordered (diagonal test first, maximum last)",
     sub(r"(        rtemp = " + ABS + r"lu_col_ptr\[isub\]\);\n)(\tif \( rtemp > pivmax \) \{\n.*?\n\t\}\n)(\tif \( \*usepr == YES && lsub_ptr\[isub\] == \*pivrow \) old_pivptr = isub;\n)(\tif \( lsub_ptr\[isub\] == diagind \) diag = isub;\n)",
         r"\1\5\4\3", 1, re.S)),
    ("H5 `diag >= 0` written as `diag != EMPTY`, nested ifs instead of && in the reuse guard",
     seq(sub(r"diag >= 0", "diag != EMPTY", 1),
         sub(r"if \( \*usepr == YES && old_pivptr == EMPTY \) \{", "if ( *usepr == YES ) if ( old_pivptr == EMPTY ) {", 1))),
    ("H6 singular branch with ?: instead of if/else",
     sub(r"\tif \( pivptr < nsupr \) \{\n\t    \*pivrow = lsub_ptr\[pivptr\];\n\t\} else \{.*?\*pivrow = diagind;\n\t\}\n",
         "\t*pivrow = ( pivptr < nsupr ) ? lsub_ptr[pivptr] : diagind;\n", 1, re.S)),
    ("H7 initialisations reordered, `*usepr = NO` moved before the stores in the singular branch",
     seq(sub(r"    pivmax = 0\.0;\n    pivptr = nsupc;\n    diag = EMPTY;\n    old_pivptr = EMPTY;\n",
             "    old_pivptr = EMPTY;\n    diag = EMPTY;\n    pivptr = nsupc;\n    pivmax = 0.0;\n", 1),
         sub(r"(\tperm_r\[\*pivrow\] = jcol;\n\tinv_perm_r\[jcol\] = \*pivrow;\n)(\t\*usepr = NO;\n)", r"\2\1", 1))),
    # ---- semantic changes
    ("S1 `>=` became `>` in the threshold test of the old pivot", sub(r"(lu_col_ptr\[old_pivptr\]\);\n\tif \( rtemp != 0\.0 && rtemp) >= thresh", r"\1 > thresh", 1)),
    ("S2 guard `old_pivptr == EMPTY` dropped", sub(r"    if \( \*usepr == YES && old_pivptr == EMPTY \) \{\n.*?\n\t\*usepr = NO;\n    \}\n", "", 1, re.S)),
    ("S3 `>` became `>=` in the search for the maximum (last instead of first maximum)", sub(r"rtemp > pivmax", "rtemp >= pivmax", 1)),
    ("S4 nonzero test dropped from the diagonal test", sub(r"(lu_col_ptr\[diag\]\);\n\s*if \( )rtemp != 0\.0 && (rtemp >= thresh \) pivptr = diag;)", r"\1\2", 1)),
    ("S5 singular branch returns jcol instead of jcol+1", sub(r"return \(jcol\+1\);", "return (jcol);", 1)),
    ("S6 `diag >= 0` became `diag > 0`", sub(r"diag >= 0", "diag > 0", 1)),
    ("S7 search starts at nsupc+1", sub(r"for \(isub = nsupc; isub < nsupr; \+\+isub\)", "for (isub = nsupc+1; isub < nsupr; ++isub)", 1)),
    ("S8 reuse kept without a test: `else *usepr = NO;` dropped", sub(r"(\t    pivptr = old_pivptr;\n)\telse\n\t    \*usepr = NO;\n", r"\1", 1)),
    ("S9 diagonal preferred even with reuse: `if ( *usepr == NO )` became `if ( 1 )`", sub(r"if \( \*usepr == NO \) \{", "if ( 1 ) {", 1)),
    ("S10 singular branch forgets `*usepr = NO`", sub(r"(inv_perm_r\[jcol\] = \*pivrow;\n)\t\*usepr = NO;\n", r"\1", 1)),
    ("S11 inv_perm_r[jcol] read again after it was stored (dropped store would be unsound)",
     sub(r"(inv_perm_r\[jcol\] = \*pivrow;\n)(\t\*usepr = NO;\n)", r"\1\t*pivrow = inv_perm_r[jcol];\n\2", 1)),
]


def run(cmd, cwd=None, timeout=900):
    p = subprocess.run(["timeout", str(timeout)] + cmd, cwd=cwd, stdout=subprocess.PIPE, stderr=subprocess.STDOUT, universal_newlines=True)
    return p.returncode, p.stdout


def main():
    if not os.path.isdir(COQMUT):
        shutil.copytree(os.path.join(WORK, "coq"), COQMUT)
    results = []
    for name, edit in MUTANTS:
        if ONLY and name.split()[0] not in ONLY:
            continue
        shutil.rmtree(SRCMUT, ignore_errors=True)
        shutil.copytree("/repo/SRC", os.path.join(SRCMUT, "SRC"))
        for f in FILES:
            path = os.path.join(SRCMUT, "SRC", f)
            txt = edit(open(path).read())
            open(path, "w").write(txt)
        rc0, out0 = run(["python3", os.path.join(TOOLS, "gen_trans.py"), SRCMUT, COQMUT])
        gen = open(os.path.join(COQMUT, "PivotGen.v")).read()
        refused = re.findall(r"\(\* (gen_\w+) NOT TRANSLATED: (.*?) \*\)", gen)
        rc, out = run(["make", "PivotTie.vo"], cwd=COQMUT)
        err = ""
        if rc != 0:
            m = re.search(r'File "\./(\w+\.v)", line (\d+)[^\n]*\n(Error:[^\n]*(?:\n[^\n]*)?)', out)
            err = "%s line %s: %s" % (m.group(1), m.group(2), " ".join(m.group(3).split())[:160]) if m else out[-300:]
        verdict = "COMPILES" if rc == 0 else "FAILS"
        line = "%-8s %s | gen_trans: %s%s%s" % (verdict, name, out0.strip().splitlines()[-1] if out0.strip() else "?",
                                               (" | refused: " + "; ".join("%s (%s)" % r for r in refused[:1])) if refused else "",
                                               (" | " + err) if err else "")
        print(line, flush=True)
        results.append((name, rc))
    bad = [n for n, rc in results if (n.startswith("H") and rc != 0) or (n.startswith("S") and rc == 0)]
    print("UNEXPECTED: %s" % bad if bad else "all %d edits behave as expected (H* compile, S* fail)" % len(results))
    # leave coqmut regenerated from the unchanged source and compiled
    shutil.rmtree(SRCMUT, ignore_errors=True)
    shutil.copytree("/repo/SRC", os.path.join(SRCMUT, "SRC"))
    run(["python3", os.path.join(TOOLS, "gen_trans.py"), SRCMUT, COQMUT])
    run(["make", "PivotTie.vo"], cwd=COQMUT)


if __name__ == "__main__":
    main()
