#!/bin/sh
# usage: tools/rebase_patch.sh <patch.diff>  -- re-create a seeded patch against the current /repo HEAD (3-way), in place
p=$(readlink -f $1)
wt=$(mktemp -d /tmp/mutrb.XXXXXX); rmdir $wt
git -C /repo worktree add -q --detach $wt HEAD || exit 2
if git -C $wt apply -3 $p 2>/dev/null && [ -z "$(git -C $wt diff --name-only --diff-filter=U)" ]; then
  git -C $wt reset -q; git -C $wt diff -- SRC CBLAS > $p.new && mv $p.new $p && echo "rebased $p"
else echo "CONFLICT rebasing $p"; fi
git -C /repo worktree remove --force $wt
