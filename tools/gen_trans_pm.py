#!/usr/bin/env python3
"""usage: gen_trans_pm.py <repo> <coqdir>  -- the ?PresetMap part of the translator driver (tools/gen_trans.py calls gen_pm()):
     coq/PresetMapGen.v   ifill of SRC/util.c and dPresetMap / sPresetMap / cPresetMap / zPresetMap of SRC/p[dscz]memory.c: the routine
                          that lays out the storage of the L supernodes (map_in_sup[], Glu->nextlu) from the predicted column counts,
                          the predicted supernode partition and the relaxed supernodes (static and dynamic scheme)
   re-translated from the current source on every run with tools/c2gal_pm.py (an extension of tools/c2gal_sched.py: pointer locals
   assigned at the top level, comma statements, free of a locally allocated array).  The tie theorems (generated definition =
   AllocModel.preset_map / preset_map_dyn) are in the hand-written coq/PresetMapTie.v.  A function that cannot be translated is left
   out with the reason in a comment: its tie theorem then fails to compile."""
import sys, os
sys.path.insert(0, os.path.dirname(os.path.abspath(__file__)))
import c2gal_pm as c2gal
from c2gal_pm import Unsupported, strip

REPO = sys.argv[1] if len(sys.argv) > 1 else "/repo"
COQ = sys.argv[2] if len(sys.argv) > 2 else os.path.join(os.path.dirname(os.path.dirname(os.path.abspath(__file__))), "coq")
SRC = os.path.join(REPO, "SRC")


def write_if_changed(path, txt):
    if os.path.exists(path) and open(path).read() == txt:
        return
    open(path, "w").write(txt)


GLU, OPT, RLX, AST = "Glu", "superlumt_options", "pxgstrf_relax", "A.Store"
# (path, gallina binder, kind, read-only, input)
PM_MEM = [
    (AST + ".colbeg[]",         "colbeg",       "array", True,  True),
    (AST + ".colend[]",         "colend",       "array", True,  True),
    (AST + ".rowind[]",         "rowind",       "array", True,  True),
    (RLX + "[].fcol",           "rfcol",        "array", True,  True),
    (RLX + "[].size",           "rsize",        "array", True,  True),
    (OPT + ".colcnt_h[]",       "colcnt",       "array", True,  True),
    (OPT + ".part_super_h[]",   "part_super_h", "array", False, True),
    (GLU + ".nextlu",           "nextlu",       "cell",  False, True),
    (GLU + ".dynamic_snode_bound", "dynamic_snode_bound", "cell", False, False),   # assigned from getenv() before it is read
    (GLU + ".map_in_sup[]",     "map_in_sup",   "array", False, False),             # intCalloc(n+1) in the routine
    ("marker[]",                "marker",       "array", False, False),             # intMalloc(n) in the routine, freed at its end
]
PM_IGNORE = {"printf", "fflush"}                                   # only under PRNTlevel (not compiled)
PM_ALLOC = {"intCalloc": ("count", "0"), "intMalloc": ("count", "junk")}
PM_FREE = {"free", "superlu_free"}
PM_ENV = "SuperLU_DYNAMIC_SNODE_STORE"


def h_getenv(tr, args, env):
    """getenv("SuperLU_DYNAMIC_SNODE_STORE") ==> the parameter snode_env : cptr (None = the variable is not set)"""
    a = strip(args[0]) if len(args) == 1 else {}
    if a.get("kind") != "StringLiteral" or a.get("value") != '"%s"' % PM_ENV:
        raise Unsupported("getenv of something that is not \"%s\"" % PM_ENV)
    return ("snode_env", "P")


def h_sp_ienv(tr, args, env):
    """sp_ienv(3) ==> the parameter maxsuper (sp_ienv(2) ==> relax)"""
    a = strip(args[0]) if len(args) == 1 else {}
    names = {"2": "relax", "3": "maxsuper"}
    if a.get("kind") != "IntegerLiteral" or a.get("value") not in names:
        raise Unsupported("sp_ienv of something that is not the literal 2 or 3")
    if names[a["value"]] not in [b for (b, _) in tr.cfg["params"]]:
        raise Unsupported("sp_ienv(%s): '%s' is not a parameter of the generated definition" % (a["value"], names[a["value"]]))
    return (names[a["value"]], "Z")


def translate(fn, cfg, final):
    body = [c for c in fn["inner"] if c.get("kind") == "CompoundStmt"][0]
    tr = c2gal.Tr(cfg)
    tr.number(body)
    tr.mark_toplevel(body)
    term = tr.seq(body.get("inner", []), dict(cfg["inputs"]), lambda e: final(tr, e))
    return tr, term


def emit(out, tr, header, term):
    for l in tr.lifted:
        out.append("(* state %s *)" % ", ".join(l[2]))
        out.append(l[1])
    out.append("%s :=\n%s.\n" % (header, term))


def gen_pm():
    out = ["(* GENERATED on every run by tools/gen_trans.py (tools/gen_trans_pm.py, translator tools/c2gal_pm.py, clang AST, pthread build,",
           "   built WITHOUT -DSLU_MT_VERIF, PRNTlevel 0) from ifill of %s/util.c and ?PresetMap of %s/p[dscz]memory.c -- do not edit." % (SRC, SRC),
           "   Arrays are lists read with nthZ and written with updZ (SchedModel.v: total, default 0 / no effect out of range); int_t",
           "   arithmetic is arithmetic in Z (% is Z.rem); enums are compared as integers.  Distinct arrays / fields do not overlap.",
           "   colbeg / colend / rowind = the NCPformat store of the column-permuted A; rfcol / rsize = the fields fcol / size of",
           "   pxgstrf_relax[]; colcnt = superlumt_options->colcnt_h; part_super_h = superlumt_options->part_super_h (split in place);",
           "   nextlu = Glu->nextlu on entry; maxsuper = sp_ienv(3); snode_env = getenv(\"%s\") (pnull = not set: the" % PM_ENV,
           "   static scheme, Glu->dynamic_snode_bound = NO).  map_in_sup = Glu->map_in_sup = intCalloc(n+1) is `repeat 0 (Z.to_nat (n+1))`;",
           "   marker = intMalloc(n) is `repeat junk (Z.to_nat n)` (contents indeterminate in C: the parameter junk), filled by the call",
           "   gen_ifill (translated from its own C definition) and freed at the end.  Loops that are not of the shape",
           "   `for (i = a; i < b; ++i)` are Fixpoints over fuel (an inner loop takes the fuel left to the outer one); None = the fuel ran",
           "   out.  gen_?PresetMap .. = Some (Glu->map_in_sup[], Glu->nextlu, part_super_h[], Glu->dynamic_snode_bound, return value). *)",
           "Require Import ZArith List Bool.", "From SLU Require Import Consts C2GalLib SchedModel.", "Local Open Scope Z_scope.", "Local Open Scope bool_scope.", ""]
    ok = 0
    # ---------------------------------------------------------------- ifill
    gname = "gen_ifill"
    ifill_ok = False
    try:
        cfile = os.path.join(SRC, "util.c")
        fn = c2gal.load_function(cfile, "ifill", incdir=SRC)
        pnames = [c.get("name") for c in fn.get("inner", []) if c.get("kind") == "ParmVarDecl"]
        if pnames != ["a", "alen", "ival"]:
            raise Unsupported("unexpected parameter list %s" % pnames)
        params = [("alen", "Z"), ("ival", "Z"), ("a", "list Z")]
        inputs = {"alen": ("alen", "Z"), "ival": ("ival", "Z"), "a[]": ("a", "L")}

        def result(tr, env):
            return env["a[]"][0]

        def on_return(tr, env, val):
            if val is not None:
                raise Unsupported("ifill returns a value")
            return result(tr, env)
        cfg = {"inputs": inputs, "pointers": {"a": "a"}, "mem": {"a[]": ("a", "array", False)}, "on_return": on_return,
               "local_temps": True, "lift_loops": gname, "dedupe_loops": True, "params": params,
               "state_order": c2gal.decl_order(fn) + ["a[]"]}
        tr, term = translate(fn, cfg, result)
        out.append("(* util.c : ifill *)")
        emit(out, tr, "Definition %s %s : list Z" % (gname, " ".join("(%s : %s)" % b for b in params)), term)
        ifill_ok = True
        ok += 1
    except Unsupported as e:
        out.append("(* %s NOT TRANSLATED: %s *)\n" % (gname, str(e).replace("*)", "* )")))

    # ---------------------------------------------------------------- ?PresetMap
    for prec in "dscz":
        fname = prec + "PresetMap"
        gname = "gen_" + fname
        cfile = os.path.join(SRC, "p%smemory.c" % prec)
        try:
            if not ifill_ok:
                raise Unsupported("ifill was not translated")
            fn = c2gal.load_function(cfile, fname, incdir=SRC)
            pnames = [c.get("name") for c in fn.get("inner", []) if c.get("kind") == "ParmVarDecl"]
            if pnames != ["n", "A", RLX, OPT, GLU]:
                raise Unsupported("unexpected parameter list %s" % pnames)
            mem = {p: (g, kind, ro) for (p, g, kind, ro, inp) in PM_MEM}
            inputs = {p: (g, "L" if kind == "array" else "Z") for (p, g, kind, ro, inp) in PM_MEM if inp}
            inputs["n"] = ("n", "Z")
            # the register variable k is read after loops that need not assign it (`colcnt[k]` after the search loop): its
            # indeterminate value at the declaration is the parameter k0
            inputs["k"] = ("k0", "Z")
            params = [("n", "Z")] + [(g, "list Z" if kind == "array" else "Z") for (p, g, kind, ro, inp) in PM_MEM if inp] + \
                     [("maxsuper", "Z"), ("snode_env", "cptr"), ("junk", "Z"), ("k0", "Z"), ("fuel", "nat")]
            outs = [GLU + ".map_in_sup[]", GLU + ".nextlu", OPT + ".part_super_h[]", GLU + ".dynamic_snode_bound"]

            def on_return(tr, env, val):
                if val is None or val[1] not in ("Z", "B"):
                    raise Unsupported("the routine returns no integer value")
                if "marker[]" in env:
                    raise Unsupported("the routine returns without freeing marker[]")
                for o in outs:
                    if o not in env:
                        raise Unsupported("'%s' has no value at the return" % o)
                return "Some (%s, %s)" % (", ".join(env[o][0] for o in outs), tr.toZ(val))

            def final(tr, env, fname=fname):
                raise Unsupported("%s can reach its end without a return" % fname)
            cfg = {"inputs": inputs, "pointers": {GLU: GLU, OPT: OPT, RLX: RLX, "A": "A"}, "mem": mem,
                   "calls": {"getenv": h_getenv, "sp_ienv": h_sp_ienv},
                   "ignore_calls": PM_IGNORE, "alloc": PM_ALLOC, "free_calls": PM_FREE, "ptr_assign": True, "comma_stmt": True, "join_both": True,
                   "general_for": True, "chained_assign": True, "local_temps": True, "dedupe_loops": True,
                   "fuel": "fuel", "on_fuel": lambda tr, env: "None", "on_return": on_return, "lift_loops": gname, "params": params,
                   "fun_calls": {"ifill": {"gname": "gen_ifill", "args": [("ptr", "marker"), ("val",), ("val",)],
                                           "reads": ["marker[]"], "writes": ["marker[]"]}},
                   "state_order": c2gal.decl_order(fn) + [p for (p, _, _, _, _) in PM_MEM]}
            tr, term = translate(fn, cfg, final)
            out.append("(* p%smemory.c : %s *)" % (prec, fname))
            emit(out, tr, "Definition %s %s : option (list Z * Z * list Z * Z * Z)" % (gname, " ".join("(%s : %s)" % b for b in params)), term)
            ok += 1
        except Unsupported as e:
            out.append("(* %s NOT TRANSLATED: %s *)\n" % (gname, str(e).replace("*)", "* )")))
    write_if_changed(os.path.join(COQ, "PresetMapGen.v"), "\n".join(out) + "\n")
    return ok


if __name__ == "__main__":
    n = gen_pm()
    print("gen_trans: PresetMapGen.v %s/5 functions translated" % n)
