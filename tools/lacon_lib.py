"""Shared python side of the C12 (Lacon) and C13 (Refine) checks:
   * building the 4 precision variants of harness/lacon_harness.c (ld --wrap logging, /repo untouched),
   * case files / result parsing,
   * Coq `Eval vm_compute` batches for the PrimFloat instance of the models (bit-exact side),
   * exact rational reference computations (inverse, norms, residuals) with python Fractions,
   * structured matrix generators (graded singular values, bad scaling, sparse patterns).
"""
import os, re, math, struct, json, time
from fractions import Fraction as Fr
import vf

PRECS = {"s": 0, "d": 1, "c": 2, "z": 3}
WRAPS = ["langs", "gscon", "PivotGrowth", "gstrs", "gsrfs", "gsequ", "laqgs"]


def build_harness(ctx, lib, fl, p):
    w = ",".join("--wrap=%s%s" % (p, x) for x in WRAPS)
    w += ",--wrap=%slacon_" % p
    if p == "d":
        w += ",--wrap=sp_dtrsv"
    return ctx.cc_harness("lacon_" + p, ["lacon_harness.c", "sp_ienv_verif.c"], lib,
                          fl + ["-DVP_PREC=%d" % PRECS[p]], extra_link=["-Wl," + w])


# ---------------------------------------------------------------------------------- floats
def bits(x):
    return struct.unpack("<Q", struct.pack("<d", x))[0]


def same(x, y):
    """bitwise equality of doubles, all NaNs identified"""
    if x != x and y != y:
        return True
    return bits(x) == bits(y)


def same_vec(a, b):
    return len(a) == len(b) and all(same(x, y) for x, y in zip(a, b))


def to_single(x):
    return struct.unpack("<f", struct.pack("<f", x))[0]


def coqf(x):
    if x != x:
        return "nan"
    if x == math.inf:
        return "infinity"
    if x == -math.inf:
        return "neg_infinity"
    h = float(x).hex()
    return "(%s)" % h if h[0] == "-" else h


def coql(xs, f=coqf):
    return "[" + "; ".join(f(x) for x in xs) + "]"


def coqz(z):
    return "(%d)%%Z" % z


def coqzl(xs):
    return "[" + "; ".join(coqz(x) for x in xs) + "]"


# ---------------------------------------------------------------------------------- Coq batches
_EVALENV = {"nan": math.nan, "infinity": math.inf, "neg_infinity": -math.inf, "true": True, "false": False,
            "tr_LN": "LN", "tr_UN": "UN", "tr_UT": "UT", "tr_LT": "LT", "__builtins__": {}}


def coq_batch(ctx, name, imports, exprs, timeout=900):
    """evaluate Coq expressions (strings, float_scope/Z_scope/list notations open) with vm_compute in one coqc run;
    returns the list of python values (tuples/lists/floats/ints/bools)"""
    d = ctx.bdir
    src = "Require Import ZArith List Floats.\nFrom SLU Require Import %s.\nImport ListNotations.\n" % " ".join(imports)
    src += "Open Scope Z_scope.\nOpen Scope float_scope.\nSet Printing Depth 1000000.\nSet Printing Width 200.\n"
    for i, e in enumerate(exprs):
        src += "Eval vm_compute in (%d%%Z, (%s)).\n" % (i, e)
    key = vf.sha(src)[:12]
    base = "%s_%s" % (name, key)
    vfile = os.path.join(d, base + ".v")
    with open(vfile, "w") as f:
        f.write(src)
    t = time.time()
    rc, out, err = vf.sh2(["coqc", "-Q", vf.COQ, "SLU", "-w", "-all", base + ".v"], cwd=d, timeout=timeout)
    ctx.log("coq batch %s: %d expressions, rc=%d, %.1fs" % (name, len(exprs), rc, time.time() - t))
    for ext in (".vo", ".vok", ".vos", ".glob"):
        try:
            os.unlink(os.path.join(d, base + ext))
        except OSError:
            pass
    try:
        os.unlink(os.path.join(d, "." + base + ".aux"))
    except OSError:
        pass
    if rc != 0:
        raise vf.CheckError("coq batch %s failed: %s" % (name, (out + err)[-1500:]))
    blocks = re.split(r"^\s*= ", out, flags=re.M)[1:]
    res = []
    for i, b in enumerate(blocks):
        b = re.split(r"^\s*: ", b, flags=re.M)[0]
        py = b.replace(";", ",").replace("%float", "").replace("%Z", "").replace("%nat", "")
        py = re.sub(r"(?<![\w.])-0(?![\w.])", "(-0.0)", py)      # negative zero is printed as -0
        try:
            v = eval(py, dict(_EVALENV))
        except Exception as e:
            raise vf.CheckError("cannot parse coq output block %d of %s: %s ... (%s)" % (i, name, py[:300], e))
        if v[0] != i:
            raise vf.CheckError("coq batch %s: block %d carries index %s" % (name, i, v[0]))
        res.append(v[1])
    if len(res) != len(exprs):
        raise vf.CheckError("coq batch %s: %d results for %d expressions\n%s" % (name, len(res), len(exprs), (out + err)[-800:]))
    return res


# ---------------------------------------------------------------------------------- harness I/O
def fmt_case(c):
    """c: dict with id, mode and the fields of read_case() in harness/lacon_harness.c"""
    s = ["case %s mode %s n %d" % (c["id"], c.get("mode", "ssvx"), c["n"])]
    if c.get("mode", "ssvx") == "lacon":
        s.append("dirty %d" % c.get("dirty", 0))
        s.append("M " + " ".join(float(x).hex() for row in c["M"] for x in row))
    else:
        s.append("nnz %d nrhs %d stype %d trans %d fact %d u %s nprocs %d permc %d" % (
            len(c["ind"]), c.get("nrhs", 1), c["stype"], c["trans"], c["fact"], float(c.get("u", 1.0)).hex(),
            c.get("nprocs", 1), c.get("permc", 0)))
        s.append("ptr " + " ".join(map(str, c["ptr"])))
        s.append("ind " + " ".join(map(str, c["ind"])))
        s.append("val " + " ".join(float(x).hex() for x in c["val"]))
        s.append("b " + " ".join(float(x).hex() for x in c["b"]))
        if c.get("ldb"):
            s.append("ldb %d" % c["ldb"])
        if c.get("ldx"):
            s.append("ldx %d" % c["ldx"])
        if c.get("stale"):
            s.append("stale %d" % c["stale"])
        if c.get("xpert"):
            s.append("xpert " + " ".join(float(x).hex() for x in c["xpert"]))
        if c.get("apert"):
            s.append("apert " + " ".join(float(x).hex() for x in c["apert"]))
    s.append("go")
    return "\n".join(s) + "\n"


def run_harness(ctx, exe, cases, tag, timeout=600, env=None):
    """returns (rc, list of result dicts).  One process for the whole batch."""
    outp = os.path.join(ctx.bdir, "out_%s_%d.txt" % (tag, os.getpid()))
    inp = "".join(fmt_case(c) for c in cases)
    e = dict(os.environ)
    if env:
        e.update(env)
    rc, so, se = vf.sh2([exe, outp], inp=inp, timeout=timeout, env=e)
    res = parse_out(outp) if os.path.exists(outp) else []
    try:
        os.unlink(outp)
    except OSError:
        pass
    return rc, res, se[-2000:]


def _fl(tok):
    return float.fromhex(tok) if ("x" in tok or "X" in tok) else float(tok)


def parse_out(path):
    res, cur = [], None
    for ln in open(path):
        if not ln.startswith("#R "):
            continue
        t = ln.split()
        k = t[1]
        if k == "case":
            cur = {"id": t[2], "ev": [], "direct": {}, "isgn_log": []}
            res.append(cur)
        elif cur is None:
            continue
        elif k == "mode":
            cur["mode"] = t[2]
        elif k == "end":
            cur["complete"] = True
        elif k == "ev":
            name = t[2]
            if name in ("lacon_in", "lacon_out"):
                cur["ev"].append((name, int(t[3]), _fl(t[4]), [_fl(x) for x in t[5:]]))
            elif name in ("ge_in", "ge_out", "fe_in", "fe_out", "fs_in", "fs_out"):
                cur["ev"].append((name, int(t[3]), [_fl(x) for x in t[4:]]))
            elif name == "lacon_v":
                cur["ev"].append((name, [_fl(x) for x in t[3:]]))
            elif name == "trsv_in":
                cur["ev"].append((name, t[3] + t[4] + t[5], [_fl(x) for x in t[6:]]))
            elif name == "trsv_out":
                cur["ev"].append((name, int(t[3]), [_fl(x) for x in t[4:]]))
            elif name == "gstrs_in":
                cur["ev"].append((name, int(t[3]), int(t[4]), [_fl(x) for x in t[5:]]))
            elif name == "gstrs_out":
                cur["ev"].append((name, int(t[3]), [_fl(x) for x in t[4:]]))
            elif name in ("langs", "gscon_in"):
                cur["ev"].append((name, int(t[3]), _fl(t[4])))
            elif name == "gscon_out":
                cur["ev"].append((name, _fl(t[3]), int(t[4])))
            elif name == "pivotgrowth":
                cur["ev"].append((name, int(t[3]), _fl(t[4])))
            elif name == "direct_rfs":
                cur["ev"].append((name, int(t[3]), int(t[4])))
            elif name in ("gsrfs_X0", "gsrfs_B", "gsrfs_X1", "gsrfs_ferr", "gsrfs_berr"):
                cur["ev"].append((name, [_fl(x) for x in t[3:]]))
            else:
                cur["ev"].append(tuple([name] + [int(x) for x in t[3:]]))
        elif k == "direct":
            cur["direct"][chr(int(t[2]))] = (_fl(t[3]), _fl(t[4]), int(t[5]))
        elif k in ("info", "equed", "nsuper", "padbad"):
            cur[k] = int(t[2])
        elif k in ("rcond", "rpg", "direct_rpg", "direct_maxabs"):
            cur[k] = _fl(t[2])
        elif k == "factored2":
            cur["factored2"] = (int(t[2]), _fl(t[3]), int(t[4]))
        elif k == "lacon_final":
            cur["lacon_final"] = (int(t[2]), _fl(t[3]), int(t[4]))
        elif k == "lacon_isgn":
            cur["isgn_log"].append([int(x) for x in t[2:]])
        elif k in ("perm_c", "perm_r", "L_sup_beg", "L_sup_end", "L_ri_beg", "L_ri_end", "L_nz_beg", "L_nz_end",
                   "L_rowind", "U_beg", "U_end", "U_rowind"):
            cur[k] = [int(x) for x in t[2:]]
        else:
            cur[k] = [_fl(x) for x in t[2:]]
    return res


# ---------------------------------------------------------------------------------- exact linear algebra
def fr_inverse(A):
    """exact inverse of a square matrix of Fractions (Gauss-Jordan); None when singular"""
    n = len(A)
    M = [list(map(Fr, A[i])) + [Fr(int(i == j)) for j in range(n)] for i in range(n)]
    for c in range(n):
        p = None
        for r in range(c, n):
            if M[r][c] != 0:
                p = r
                break
        if p is None:
            return None
        M[c], M[p] = M[p], M[c]
        iv = 1 / M[c][c]
        M[c] = [x * iv for x in M[c]]
        for r in range(n):
            if r != c and M[r][c] != 0:
                f = M[r][c]
                rowc = M[c]
                M[r] = [x - f * y for x, y in zip(M[r], rowc)]
    return [row[n:] for row in M]


def cx_inverse(Are, Aim):
    """exact inverse of the complex matrix Are + i Aim through the real 2n x 2n embedding"""
    n = len(Are)
    big = [[Fr(0)] * (2 * n) for _ in range(2 * n)]
    for i in range(n):
        for j in range(n):
            big[i][j] = Fr(Are[i][j]); big[i][j + n] = -Fr(Aim[i][j])
            big[i + n][j] = Fr(Aim[i][j]); big[i + n][j + n] = Fr(Are[i][j])
    inv = fr_inverse(big)
    if inv is None:
        return None, None
    return [row[:n] for row in inv[:n]], [row[:n] for row in inv[n:]]


def norm1(A):
    n = len(A)
    return max(sum(abs(A[i][j]) for i in range(n)) for j in range(len(A[0])))


def norminf(A):
    return max(sum(abs(x) for x in row) for row in A)


def transpose(A):
    return [list(r) for r in zip(*A)]


def matmul(A, B):
    Bt = transpose(B)
    return [[sum(x * y for x, y in zip(r, c) if x != 0 and y != 0) for c in Bt] for r in A]


def dense_from_cols(n, ptr, ind, val, stype):
    """the user's matrix A (rows of python floats) from compressed storage: stype 0 = NC, 1 = NR"""
    A = [[0.0] * n for _ in range(n)]
    for k in range(n):
        for p in range(ptr[k], ptr[k + 1]):
            if stype == 0:
                A[ind[p]][k] += val[p]
            else:
                A[k][ind[p]] += val[p]
    return A


def factors_dense(r, n, nv=1):
    """dense L (unit lower) and U of the returned supernodal factors, in the numbering of Pr*A*Pc.
    Values are python floats (nv=1) or complex (nv=2)."""
    def val(arr, i):
        return arr[i] if nv == 1 else complex(arr[2 * i], arr[2 * i + 1])
    L = [[0.0] * n for _ in range(n)]
    U = [[0.0] * n for _ in range(n)]
    for i in range(n):
        L[i][i] = 1.0
    for k in range(r["nsuper"] + 1):
        f, l = r["L_sup_beg"][k], r["L_sup_end"][k]
        rows = r["L_rowind"][r["L_ri_beg"][f]:r["L_ri_end"][f]]
        for j in range(f, l):
            base = r["L_nz_beg"][j]
            for t, row in enumerate(rows):
                v = val(r["L_nzval"], base + t)
                if row <= j:
                    U[row][j] = v
                else:
                    L[row][j] = v
    for j in range(n):
        for p in range(r["U_beg"][j], r["U_end"][j]):
            U[r["U_rowind"][p]][j] = val(r["U_nzval"], p)
    return L, U


# ---------------------------------------------------------------------------------- generators
def rand_orthoish(rng, n, steps=None):
    """product of random Givens rotations (entries are doubles; only approximately orthogonal, which is all that
    is needed: the condition number actually used by the oracle is computed exactly from the final matrix)"""
    Q = [[float(i == j) for j in range(n)] for i in range(n)]
    for _ in range(steps if steps is not None else 3 * n):
        i, j = rng.sample(range(n), 2) if n > 1 else (0, 0)
        if i == j:
            continue
        th = rng.uniform(0, 2 * math.pi)
        c, s = math.cos(th), math.sin(th)
        for k in range(n):
            a, b = Q[k][i], Q[k][j]
            Q[k][i], Q[k][j] = c * a - s * b, s * a + c * b
    return Q


def graded(rng, n, cond, mode=None):
    """dense n x n matrix U diag(sigma) V^T with prescribed singular values (LAPACK xLATMS modes 1..4)"""
    mode = mode or rng.choice([1, 2, 3, 4])
    if n == 1:
        sig = [1.0]
    elif mode == 1:
        sig = [1.0] + [1.0 / cond] * (n - 1)
    elif mode == 2:
        sig = [1.0] * (n - 1) + [1.0 / cond]
    elif mode == 3:
        sig = [cond ** (-i / (n - 1.0)) for i in range(n)]
    else:
        sig = [1.0 - i / (n - 1.0) * (1.0 - 1.0 / cond) for i in range(n)]
    U, V = rand_orthoish(rng, n), rand_orthoish(rng, n)
    return [[sum(U[i][k] * sig[k] * V[j][k] for k in range(n)) for j in range(n)] for i in range(n)]


def sparsify(rng, A, density):
    """zero out off-diagonal entries (keeps the diagonal so that the matrix stays structurally nonsingular)"""
    n = len(A)
    return [[A[i][j] if (i == j or rng.random() < density) else 0.0 for j in range(n)] for i in range(n)]


def scale_rows_cols(rng, A, spread):
    n = len(A)
    r = [2.0 ** rng.randint(-spread, spread) for _ in range(n)]
    c = [2.0 ** rng.randint(-spread, spread) for _ in range(n)]
    return [[A[i][j] * r[i] * c[j] for j in range(n)] for i in range(n)]


def compress(A, stype, keep_zero=False):
    """compressed storage of the user's matrix A: NC (stype 0) by columns, NR (stype 1) by rows"""
    n = len(A)
    ptr, ind, val = [0], [], []
    for k in range(n):
        for i in range(n):
            v = A[i][k] if stype == 0 else A[k][i]
            if v != 0 or keep_zero:
                ind.append(i); val.append(v)
        ptr.append(len(ind))
    return ptr, ind, val


# ---------------------------------------------------------------------------------- exact oracle pieces
U_ROUND = {"s": 2.0 ** -24, "d": 2.0 ** -53, "c": 2.0 ** -24, "z": 2.0 ** -53}


def gamma(k, u):
    return k * u / (1.0 - k * u)


def is_cx(p):
    return p in "cz"


def to_entries(vals, p):
    """flat harness list -> python floats or complex"""
    if is_cx(p):
        return [complex(vals[2 * i], vals[2 * i + 1]) for i in range(len(vals) // 2)]
    return list(vals)


def abs_iv(v):
    """(lo, hi) exact rational bounds of |v| for a Fraction or a (re, im) pair of Fractions"""
    if not isinstance(v, tuple):
        a = abs(v)
        return a, a
    re, im = v
    if im == 0:
        a = abs(re); return a, a
    if re == 0:
        a = abs(im); return a, a
    s2 = re * re + im * im
    h = Fr(math.hypot(float(re), float(im)))
    if h == 0 or h == math.inf:
        # fall back to crude bounds
        a, b = abs(re), abs(im)
        return max(a, b), a + b
    lo, hi = h * (1 - Fr(1, 2 ** 40)), h * (1 + Fr(1, 2 ** 40))
    if not (lo * lo <= s2 <= hi * hi):
        a, b = abs(re), abs(im)
        return max(a, b), a + b
    return lo, hi


def norm_iv(A, p):
    """interval (lo, hi) of the 1-norm (p=1) or infinity-norm (p='inf') of a matrix of Fractions / pairs"""
    n = len(A)
    rows = A if p != 1 else [[A[i][j] for i in range(n)] for j in range(len(A[0]))]
    lo = hi = Fr(0)
    for r in rows:
        iv = [abs_iv(x) for x in r]
        lo = max(lo, sum(x[0] for x in iv)); hi = max(hi, sum(x[1] for x in iv))
    return lo, hi


def exact_matrix(A, cx):
    """python floats/complex -> Fractions / pairs"""
    if cx:
        return [[(Fr(x.real), Fr(x.imag)) for x in row] for row in A]
    return [[Fr(x) for x in row] for row in A]


def exact_inverse(Aex, cx):
    if not cx:
        return fr_inverse(Aex)
    re, im = cx_inverse([[x[0] for x in r] for r in Aex], [[x[1] for x in r] for r in Aex])
    if re is None:
        return None
    n = len(Aex)
    return [[(re[i][j], im[i][j]) for j in range(n)] for i in range(n)]


def vecsum_abs_iv(vs):
    iv = [abs_iv(x) for x in vs]
    return sum(x[0] for x in iv), sum(x[1] for x in iv)


def first_iterate_iv(Ainv, p, cx):
    """|| M e/n ||_1 with M = inv(A) (p=1) or inv(A)^T (p='inf')"""
    n = len(Ainv)
    def add(a, b):
        return (a[0] + b[0], a[1] + b[1]) if cx else a + b
    zero = (Fr(0), Fr(0)) if cx else Fr(0)
    vec = []
    for k in range(n):
        s = zero
        for t in range(n):
            s = add(s, Ainv[k][t] if p == 1 else Ainv[t][k])
        vec.append((s[0] / n, s[1] / n) if cx else s / n)
    return vecsum_abs_iv(vec)


def backward_E(r, n, AAd, p, u):
    """float upper bounds (||E||_1, ||E||_inf) of E = |L U - Pr AA Pc| + gamma(3n) |L||U| for the returned factors;
    AAd: dense NC-view matrix (python floats/complex) after equilibration"""
    nv = 2 if is_cx(p) else 1
    L, Um = factors_dense(r, n, nv)
    pr, pc = r["perm_r"], r["perm_c"]
    Ap = [[0.0] * n for _ in range(n)]
    for i in range(n):
        for k in range(n):
            Ap[pr[i]][pc[k]] = AAd[i][k]
    uu = u * (4 if is_cx(p) else 1)
    g = gamma(3 * n, uu) + (n + 2) * 2.0 ** -53
    E = [[0.0] * n for _ in range(n)]
    for i in range(n):
        Li = L[i]
        for j in range(n):
            s = 0.0; sa = 0.0
            for k in range(min(i, j) + 1):
                t = Li[k] * Um[k][j]
                s += t; sa += abs(t) if not isinstance(t, complex) else abs(Li[k]) * abs(Um[k][j])
            E[i][j] = (abs(s - Ap[i][j]) + g * sa) * (1 + 1e-9)
    e1 = max(sum(E[i][j] for i in range(n)) for j in range(n))
    einf = max(sum(row) for row in E)
    return e1, einf, L, Um


# ---------------------------------------------------------------------------------- generator aid: long estimator runs
def lacon_napp(M, n):
    """plain python walk through Higham's iteration for a dense operator: (operator applications, last iter).
    Only a SEARCH AID for the generator (finding operators that need many iterations); never used as an oracle."""
    def mv(x): return [sum(M[i][j] * x[j] for j in range(n)) for i in range(n)]
    def mtv(x): return [sum(M[j][i] * x[j] for j in range(n)) for i in range(n)]
    sgn = lambda v: 1.0 if v >= 0 else -1.0
    def idamax(x):
        b, m = 0, abs(x[0])
        for i in range(1, n):
            if not abs(x[i]) <= m:
                b, m = i, abs(x[i])
        return b
    x = mv([1.0 / n] * n); napp = 1
    if n == 1:
        return napp, 0
    est = sum(abs(v) for v in x); isgn = [sgn(v) for v in x]
    x = mtv(isgn); napp += 1
    j = idamax(x); it = 2
    while True:
        x = [0.0] * n; x[j] = 1.0; x = mv(x); napp += 1
        estold = est; est = sum(abs(v) for v in x)
        if all(sgn(v) == s for v, s in zip(x, isgn)) or est <= estold:
            break
        isgn = [sgn(v) for v in x]
        x = mtv(isgn); napp += 1
        jl = j; j = idamax(x)
        if x[jl] != abs(x[j]) and it < 5:
            it += 1
            continue
        break
    return napp + 1, it


def long_run_operator(rng, n, target, steps=4000):
    """hill-climb over matrices with entries +-2^k until the estimator needs >= target operator applications"""
    M = [[rng.choice([-1, 1]) * 2.0 ** rng.randint(-3, 3) for _ in range(n)] for _ in range(n)]
    cur = lacon_napp(M, n)
    for _ in range(steps):
        if cur[0] >= target:
            break
        i, j = rng.randrange(n), rng.randrange(n)
        old = M[i][j]
        M[i][j] = rng.choice([-1, 1]) * 2.0 ** rng.randint(-4, 4)
        r2 = lacon_napp(M, n)
        if r2 >= cur:
            cur = r2
        else:
            M[i][j] = old
    return M, cur
