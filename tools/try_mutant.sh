#!/bin/sh
# usage: tools/try_mutant.sh <tree-with-the-change> <id> [<id> ...]   -- run quick checks against a scratch tree (not /repo)
# evidence goes to a scratch directory; prints exit code and VIOLATION lines per check.
wt=$1; shift
ev=$(mktemp -d /tmp/mutev.XXXXXX)
for id in "$@"; do
  VERIF_REPO=$wt VERIF_EVIDENCE_DIR=$ev VERIF_NO_CORPUS_WRITE=1 timeout 3000 /verif/check $id --tier ${TIER:-quick} > $ev/$id.log 2>&1
  rc=$?
  echo "== $id exit $rc"; grep -h "^VIOLATION" $ev/$id.log | head -5; grep -h "violation\b" $ev/$id.log | head -0
  grep -h "BROKEN\|broken" $ev/$id.log | head -3
done
echo "logs: $ev"
