"""reader_gen.py -- generators and the INDEPENDENT Python writer for the C20 check.

Nothing here is shared with the Coq printer: matrices, descriptors, number formatting
(Fortran E/D/F/1P layouts, C printf layout), file assembly for Harwell-Boeing,
Rutherford-Boeing and the ?readmt column-list format, and the exact expected result
(dimensions, 0-based arrays, values as exact rationals).
Every random choice comes from the rng passed in (ctx.rng)."""
from fractions import Fraction
import math

# ------------------------------------------------------------------ exact binary rounding
def rn(q, p, emax, eminulp):
    """round-to-nearest-even of the rational q into the binary format (precision p, largest
    exponent emax, exponent of the smallest subnormal ulp eminulp); result as a Python float
    (exact: binary32 is a subset of binary64); overflow gives +-inf"""
    if q == 0:
        return 0.0
    sgn = -1.0 if q < 0 else 1.0
    a = -q if q < 0 else q
    num, den = a.numerator, a.denominator

    def ge_pow2(e):
        return num >= (den << e) if e >= 0 else (num << -e) >= den
    e = num.bit_length() - den.bit_length()
    if not ge_pow2(e):
        e -= 1
    elif ge_pow2(e + 1):
        e += 1
    u = max(e - p + 1, eminulp)
    if u >= 0:
        N, D = num, den << u
    else:
        N, D = num << -u, den
    n, r = divmod(N, D)
    if 2 * r > D or (2 * r == D and (n & 1)):
        n += 1
    if n.bit_length() + u >= emax + 2:
        return sgn * math.inf
    return sgn * math.ldexp(float(n), u)


def f64(q):
    return rn(q, 53, 1023, -1074)


def f32(q):
    return rn(q, 24, 127, -149)


def dec_q(neg, mant, ex):
    q = Fraction(mant) * (Fraction(10) ** ex)
    return -q if neg else q


# ------------------------------------------------------------------ matrices
def gen_pattern(rng, kind=None):
    """-> (kind, nrow, ncol, colptr, rowind) 0-based, rows sorted inside a column"""
    kinds = ["random", "random", "random", "random", "random", "random", "diag", "diag", "dense", "dense", "empty", "empty",
             "onecol", "onecol", "rect", "rect", "rect", "emptycols", "emptycols", "long", "bigindex", "bigindex"]
    kind = kind or rng.choice(kinds)
    if kind == "empty":
        n = rng.randint(0, 4); m = rng.randint(0, 4)
        return kind, m, n, [0] * (n + 1), []
    if kind == "diag":
        n = rng.randint(1, 40)
        return kind, n, n, list(range(n + 1)), list(range(n))
    if kind == "dense":
        m = rng.randint(1, 7); n = rng.randint(1, 7)
        return kind, m, n, [m * j for j in range(n + 1)], [i for j in range(n) for i in range(m)]
    if kind == "onecol":
        m = rng.randint(1, 60)
        rows = sorted(rng.sample(range(m), rng.randint(1, m)))
        return kind, m, 1, [0, len(rows)], rows
    if kind == "long":
        m = n = rng.randint(60, 200); dens = rng.uniform(0.01, 0.05)
    elif kind == "bigindex":
        # few entries, very large dimensions (wide integer fields)
        n = rng.randint(1, 6); m = rng.choice([99999, 1000000, 123456789, 2147483646])
        cp, ri = [0], []
        for j in range(n):
            rows = sorted(set(rng.randrange(m) for _ in range(rng.randint(0, 4))) | ({m - 1} if j == 0 else set()))
            ri += rows; cp.append(len(ri))
        return kind, m, n, cp, ri
    elif kind == "rect":
        m = rng.randint(1, 30); n = rng.randint(1, 30); dens = rng.uniform(0.05, 0.4)
    else:
        m = n = rng.randint(1, 30); dens = rng.uniform(0.03, 0.4)
    cp, ri = [0], []
    for j in range(n):
        if kind == "emptycols" and rng.random() < 0.5:
            cp.append(len(ri)); continue
        rows = [i for i in range(m) if rng.random() < dens]
        if kind in ("random", "long") and j < m and j not in rows and rng.random() < 0.8:
            rows = sorted(rows + [j])
        ri += rows; cp.append(len(ri))
    return kind, m, n, cp, ri


def gen_decimal(rng, nsig, exlo, exhi, allow_zero=True):
    """-> (neg, mant, ex): mant has at most nsig significant digits, no trailing-zero normalisation"""
    if allow_zero and rng.random() < 0.04:
        return (rng.random() < 0.3, 0, 0)
    nd = rng.randint(1, max(1, nsig))
    if rng.random() < 0.5:
        nd = max(1, nsig)
    r = rng.random()
    if r < 0.15 and nd > 1:
        mant = int(str(rng.randint(1, 9)) + rng.choice("09") * (nd - 1))
    else:
        mant = rng.randrange(10 ** (nd - 1), 10 ** nd)
    x = rng.randint(exlo, exhi)            # exponent of the leading digit
    return (rng.random() < 0.5, mant, x - (nd - 1))


def ndigits(n):
    return len(str(n))


# ------------------------------------------------------------------ number layouts (independent of the Coq printer)
def exp_str(letter, x, expw=2):
    return "%s%s%s" % (letter, "-" if x < 0 else "+", str(abs(x)).rjust(expw, "0"))


def fmt_E(v, d, scale, letter, style):
    """Fortran E/D output of the decimal v with d digits (scale 0) / d+1 digits (scale s>=1).
    style: 'std' 0.ddd ; 'nolead' .ddd ; 'plus' with explicit + sign"""
    neg, mant, ex = v
    digs = str(mant)
    total = d if scale == 0 else d + 1
    assert len(digs) <= total
    D = digs + "0" * (total - len(digs))
    if scale == 0:
        ip, fp = ("" if style == "nolead" else "0"), D
    else:
        ip, fp = D[:scale], D[scale:]
    x = 0 if mant == 0 else ex + len(digs) - scale
    sgn = "-" if neg else ("+" if style == "plus" else "")
    return sgn + ip + "." + fp + exp_str(letter, x)


def fmt_cprintf(v, d):
    """C printf("%.{d}e") layout: one digit, d fraction digits, lower-case e, at least 2 exponent digits"""
    neg, mant, ex = v
    digs = str(mant)
    assert len(digs) <= d + 1
    D = digs + "0" * (d + 1 - len(digs))
    x = 0 if mant == 0 else ex + len(digs) - 1
    return ("-" if neg else "") + D[0] + "." + D[1:] + exp_str("e", x)


def fmt_F(v, d, style="std"):
    """Fortran Fw.d layout; requires ex >= -d"""
    neg, mant, ex = v
    assert ex + d >= 0
    n = mant * 10 ** (ex + d)
    s = str(n).rjust(d + 1, "0")
    ip, fp = (s[:-d], s[-d:]) if d > 0 else (s, "")
    if style == "nolead" and ip == "0" and d > 0:
        ip = ""
    return ("-" if neg else "") + ip + "." + fp


# ------------------------------------------------------------------ descriptors
def gen_ifmt(rng, maxval):
    """-> dict(per, w, text, minw) with per*w <= 80 and w wide enough for maxval"""
    need = ndigits(max(1, maxval))
    w = rng.randint(need, min(20, need + rng.choice([0, 0, 1, 2, 5])))
    per = rng.randint(1, max(1, 80 // w))
    if rng.random() < 0.5:
        per = 80 // w
    style = rng.choice(["std", "std", "lower", "blank1", "blank2", "blank3", "Iwm"])
    m = None
    if style == "std":
        text = "(%dI%d)" % (per, w)
    elif style == "lower":
        text = "(%di%d)" % (per, w)
    elif style == "blank1":
        text = "( %dI%d)" % (per, w)
    elif style == "blank2":
        text = "(%d I%d )" % (per, w)
    elif style == "blank3":
        text = "(%dI %d)" % (per, w)
    else:
        m = rng.randint(1, need)
        text = "(%dI%d.%d)" % (per, w, m)
    if len(text) > 16:
        text = "(%dI%d)" % (per, w); style = "std"; m = None
    return {"per": per, "w": w, "text": text, "style": style, "m": m}


def put_int(x, f):
    s = str(x)
    if f.get("m"):
        s = s.rjust(f["m"], "0")
    return s.rjust(f["w"])


def gen_ffmt(rng, prec, want_digits=None):
    """-> dict(kind E|D|F|C, scale, per, w, d, text)"""
    kind = rng.choice(["E", "E", "E", "D", "F", "C"])      # C: written by C printf, declared as E
    scale = 0
    if kind in ("E", "D") and rng.random() < 0.4:
        scale = 1 if rng.random() < 0.8 else 2
    maxd = 9 if prec in "sc" else 17
    d = want_digits or rng.randint(1, maxd + 3)
    if scale > d + 1:
        scale = 1
    if kind == "F":
        d = rng.randint(0, 10)
        w = d + rng.randint(3, 12)
    else:
        # sign, int part, point, d digits, E+xxx
        w = d + 8 + (scale if scale else 0) + rng.choice([0, 0, 1, 3])
    w = min(w, 80)
    per = rng.randint(1, max(1, 80 // w))
    if rng.random() < 0.6:
        per = 80 // w
    letter = {"E": "E", "D": "D", "F": "F", "C": "E"}[kind]
    pre = ("%dP" % scale) if scale else ""
    if kind == "F" and rng.random() < 0.15:
        pre = "1P"            # scale prefix in front of F: the reader returns the printed decimal (see notes)
    style = rng.choice(["std", "std", "std", "lower", "blank", "expw"])
    text = "(%s%d%s%d.%d)" % (pre, per, letter, w, d)
    if style == "lower":
        text = text.lower()
    elif style == "blank":
        text = "( %s%d%s%d.%d )" % (pre, per, letter, w, d)
    elif style == "expw" and kind in ("E", "D", "C"):
        text = "(%s%d%s%d.%dE3)" % (pre, per, letter, w, d)
    if len(text) > 20:
        text = "(%s%d%s%d.%d)" % (pre, per, letter, w, d)
    assert len(text) <= 20, text
    return {"kind": kind, "scale": scale, "per": per, "w": w, "d": d, "text": text}


def put_val(rng, v, f):
    k = f["kind"]
    if k == "F":
        s = fmt_F(v, f["d"], rng.choice(["std", "std", "nolead"]))
    elif k == "C":
        s = fmt_cprintf(v, f["d"])
    else:
        st = rng.choice(["std", "std", "std", "nolead", "plus"]) if f["scale"] == 0 else rng.choice(["std", "std", "plus"])
        letter = k if rng.random() < 0.85 else k.lower()
        s = fmt_E(v, f["d"], f["scale"], letter, st)
    if len(s) > f["w"]:
        return None
    return s.rjust(f["w"])


def gen_value_for(rng, f, prec, extreme=False):
    """a decimal exactly representable in format f whose layout fits the field"""
    k = f["kind"]
    for _ in range(50):
        if k == "F":
            d = f["d"]
            room = max(1, f["w"] - d - 2)          # sign, point
            nint = rng.randint(0, min(room, 9))
            N = rng.randint(0, 10 ** (nint + d) - 1) if nint + d > 0 else 0
            if rng.random() < 0.05:
                N = 0
            ex = -d
            while N and N % 10 == 0 and rng.random() < 0.7:
                N //= 10; ex += 1
            v = (rng.random() < 0.5, N, ex if N else 0)
        else:
            nsig = f["d"] if f["scale"] == 0 and k != "C" else f["d"] + 1
            if prec in "sc":
                lo, hi = (-30, 30) if not extreme else (-44, 38)
            else:
                lo, hi = (-250, 250) if not extreme else (-322, 308)
            if rng.random() < 0.6:
                lo, hi = -6, 6
            v = gen_decimal(rng, nsig, lo, hi)
        s = put_val(rng, v, f)
        if s is not None:
            return v
    return (False, 0, 0)


# ------------------------------------------------------------------ vectors in fixed-width lines
def lines_of(fields, per):
    out = []
    for i in range(0, len(fields), per):
        out.append("".join(fields[i:i + per]))
    return out


def rand_text(rng, n, alphabet=None):
    alphabet = alphabet or "ABCDEFGHIJKLMNOPQRSTUVWXYZabcdefghijklmnopqrstuvwxyz0123456789 ,.;:-_()/+*"
    return "".join(rng.choice(alphabet) for _ in range(n))


def write_hb(rng, prec, pat, vals_dec, pf, inf, vf, opts):
    """Harwell-Boeing text.  vals_dec: list of decimals (2 per entry for c/z).
    opts: rhs (bool), pad80 (bool), mxtype, final_newline (bool), title_nl (bool)"""
    kind, m, n, cp, ri = pat
    ptr_lines = lines_of([put_int(x + 1, pf) for x in cp], pf["per"])
    ind_lines = lines_of([put_int(x + 1, inf) for x in ri], inf["per"])
    val_lines = lines_of([put_val(rng, v, vf) for v in vals_dec], vf["per"])
    rhs = opts.get("rhs", False)
    rhs_lines = []
    if rhs:
        rhs_lines = lines_of(["%16.8E" % rng.uniform(-5, 5) for _ in range(min(m, 40))], 5) or ["  0.00000000E+00"]
    pad = (lambda s: s.ljust(80)) if opts.get("pad80") else (lambda s: s)
    title = rand_text(rng, 72)
    if opts.get("title_nl"):
        # %72c reads the bytes whatever they are: a newline inside the title columns is still
        # consumed as title (not a Fortran-writable record; used in the model-defined stream only)
        title = title[:30] + "\n" + title[31:]
    key = rand_text(rng, 8)
    rhsfmt = "(5E16.8)".ljust(20) if rhs else rng.choice(["".ljust(20), "(5E16.8)".ljust(20)])
    L = []
    L.append(title + key)
    l2 = "%14d%14d%14d%14d%14d" % (len(ptr_lines) + len(ind_lines) + len(val_lines) + len(rhs_lines),
                                    len(ptr_lines), len(ind_lines), len(val_lines), len(rhs_lines))
    l3 = "%-3s%11s%14d%14d%14d%14d" % (opts.get("mxtype", "RUA"), "", m, n, len(ri), 0)
    if opts.get("blank_zero", rng.random() < 0.3):
        # Fortran I editing: a blank field IS zero; writers that have no right-hand sides / no elemental entries leave RHSCRD and
        # NELTVL blank (the line keeps its width)
        if not rhs_lines:
            l2 = l2[:56] + " " * 14
        l3 = l3[:56] + " " * 14
    L.append(l2)
    L.append(l3)
    L.append(pf["text"].ljust(16) + inf["text"].ljust(16) + vf["text"].ljust(20) + rhsfmt)
    if rhs:
        L.append("F%13s%14d%14d" % ("", 1, 0))
    L = [pad(x) for x in L]
    L += ptr_lines + ind_lines + val_lines + rhs_lines
    txt = "\n".join(L) + ("\n" if opts.get("final_newline", True) else "")
    return txt.encode("latin-1")


def write_rb(rng, prec, pat, vals_dec, pf, inf, vf, opts):
    kind, m, n, cp, ri = pat
    ptr_lines = lines_of([put_int(x + 1, pf) for x in cp], pf["per"])
    ind_lines = lines_of([put_int(x + 1, inf) for x in ri], inf["per"])
    val_lines = lines_of([put_val(rng, v, vf) for v in vals_dec], vf["per"])
    pad = (lambda s: s.ljust(80)) if opts.get("pad80") else (lambda s: s)
    tl = opts.get("title_len", 80)
    L = []
    L.append(rand_text(rng, tl))
    L.append(pad("%14d %13d %13d %13d" % (len(ptr_lines) + len(ind_lines) + len(val_lines),
                                          len(ptr_lines), len(ind_lines), len(val_lines))))
    L.append(pad("%-3s%11s %13d %13d %13d %13d" % (opts.get("mxtype", "rua"), "", m, n, len(ri), 0)))
    L.append(pad(pf["text"].ljust(16) + inf["text"].ljust(16) + vf["text"].ljust(20)))
    L += ptr_lines + ind_lines + val_lines
    txt = "\n".join(L) + ("\n" if opts.get("final_newline", True) else "")
    return txt.encode("latin-1")


def mt_val_text(rng, v):
    """free-format real for scanf: several layouts of the same decimal"""
    neg, mant, ex = v
    st = rng.choice(["e", "E", "plain", "cprintf"])
    sgn = "-" if neg else rng.choice(["", "", "+"])
    digs = str(mant)
    if st == "plain" and -12 <= ex <= 6:
        if ex >= 0:
            return sgn + digs + "0" * ex + rng.choice(["", ".", ".0"])
        s = digs.rjust(-ex + 1, "0")
        return sgn + s[:ex] + "." + s[ex:]
    if st == "cprintf":
        x = 0 if mant == 0 else ex + len(digs) - 1
        return sgn + digs[0] + "." + (digs[1:] or "0") + "e%s%02d" % ("-" if x < 0 else "+", abs(x))
    return sgn + digs + ("e" if st != "E" else "E") + ("%+d" % ex if rng.random() < 0.7 else "%d" % ex)


def write_mt(rng, prec, pat, vals_dec, opts):
    kind, m, n, cp, ri = pat
    cplx = prec in "cz"
    ws = opts.get("ws", "std")

    def sep():
        if ws == "std":
            return " "
        return rng.choice([" ", "  ", "\t", " \t ", "\n"] if ws == "wild" else [" ", "   "])

    def eol():
        if ws == "oneline":
            return " "
        return "\n" if ws != "wild" else rng.choice(["\n", " \n", "\n\n", "\t\n "])
    out = [rand_text(rng, opts.get("title_len", 40), "ABCDEFGHIJ klmnop0123456789-_") + "\n"]
    lead = "" if ws == "std" else rng.choice(["", " ", "\n", "   "])
    out.append(lead + str(m) + sep() + str(n) + sep() + str(len(ri)) + eol())
    for j in range(n):
        out.append(str(cp[j + 1] - cp[j]) + eol())
        for k in range(cp[j], cp[j + 1]):
            if cplx:
                out.append(str(ri[k] + 1) + sep() + mt_val_text(rng, vals_dec[2 * k]) + sep()
                           + mt_val_text(rng, vals_dec[2 * k + 1]) + eol())
            else:
                out.append(str(ri[k] + 1) + sep() + mt_val_text(rng, vals_dec[k]) + eol())
    txt = "".join(out)
    if not opts.get("final_newline", True):
        txt = txt.rstrip("\n\t ")
    return txt.encode("latin-1")


def gen_mt_value(rng, prec, extreme=False):
    if prec in "sc":
        lo, hi = (-30, 30) if not extreme else (-44, 38)
        nsig = rng.randint(1, 12)
    else:
        lo, hi = (-250, 250) if not extreme else (-322, 308)
        nsig = rng.randint(1, 22)
    if rng.random() < 0.6:
        lo, hi = -6, 6
    return gen_decimal(rng, nsig, lo, hi)


# ------------------------------------------------------------------ an obviously-simple HB reader (for the repository's sample files)
def simple_parse_hb(data, cplx):
    """fixed-column parse of a Harwell-Boeing file following the format description in the header
    comment of ?readhb.c; returns (m, n, nnz, colptr0, rowind0, [Fraction]) -- used only on files
    not produced by the generators (EXAMPLE/*), as a third opinion"""
    import re
    from decimal import Decimal
    lines = data.decode("latin-1").split("\n")
    l2, l3, l4 = lines[1], lines[2], lines[3]
    valcrd = int(l2[42:56]); rhscrd = int(l2[56:70] or 0)
    m, n, nnz = int(l3[14:28]), int(l3[28:42]), int(l3[42:56])
    mi = re.search(r"\(\s*(\d+)\s*[Ii]\s*(\d+)", l4[0:16]); pp, pw = int(mi.group(1)), int(mi.group(2))
    mi = re.search(r"\(\s*(\d+)\s*[Ii]\s*(\d+)", l4[16:32]); ip, iw = int(mi.group(1)), int(mi.group(2))
    mv = re.search(r"\(\s*(?:\d+\s*[Pp]\s*,?\s*)?(\d+)\s*[EeDdFf]\s*(\d+)", l4[32:52]); vp, vw = int(mv.group(1)), int(mv.group(2))
    pos = 4 + (1 if rhscrd else 0)

    def take(count, per, w, conv):
        nonlocal pos
        out = []
        while len(out) < count:
            ln = lines[pos]; pos += 1
            for j in range(per):
                if len(out) >= count:
                    break
                out.append(conv(ln[j * w:(j + 1) * w]))
        return out
    cp = take(n + 1, pp, pw, lambda s: int(s) - 1)
    ri = take(nnz, ip, iw, lambda s: int(s) - 1)
    vs = take(nnz * (2 if cplx else 1), vp, vw,
              lambda s: Fraction(Decimal(s.strip().replace("D", "E").replace("d", "e")))) if valcrd else []
    return m, n, nnz, cp, ri, vs
