#!/usr/bin/env python3
"""Translator (K-const): regenerate coq/Consts.v from the current /repo headers.

usage: gen_consts.py <repo> <out.v>
Every C enum in the listed headers becomes a block of `Definition c_<NAME> : Z := k.`; selected
#defines likewise.  The file is only rewritten when its content changes (so make stays incremental).
"""
import re, sys, os

HEADERS = ["SRC/slu_mt_util.h", "SRC/pxgstrf_synch.h", "SRC/supermatrix.h"]
DEFINES = {  # name -> (file, regex for the value)
    "EMPTY": "SRC/slu_mt_util.h", "NO_MARKER": "SRC/slu_mt_util.h",
    "ITMAX": "SRC/dgsrfs.c",
}


def strip_comments(s):
    s = re.sub(r"/\*.*?\*/", " ", s, flags=re.S)
    return re.sub(r"//[^\n]*", " ", s)


# ---------------------------------------------------------------------------------------------------
# Translator for the per-thread work-array layout (K-trans): the size formulas of p?gstrf_WorkInit, the NUM_TEMPV macro,
# the carving of the integer work array by pxgstrf_SetIWork, of the real one by p?gstrf_SetRWork, and the strides with which
# p?gstrf_bmod2D walks tempv[] are C integer expressions: they are parsed here and re-emitted as Gallina definitions over Z.
# The theorems of coq/WorkLayout.v (arrays suffice for the documented uses) are stated about THESE definitions, so they are
# re-proved against what the source says now on every run.
class CExprError(Exception):
    pass


def c_tokens(s):
    toks = re.findall(r"\s*(\d+|[A-Za-z_][A-Za-z_0-9]*|[-+*(),&\[\]])", s)
    if "".join(toks) != re.sub(r"\s+", "", s):
        raise CExprError("cannot tokenise %r" % s)
    return toks


def c_expr_to_gallina(s, env):
    """integer expression with + - * ( ) SUPERLU_MAX/MIN and macro calls listed in env (name -> Gallina function applied to
    its translated arguments); identifiers are mapped through env (name -> Gallina term)"""
    toks = c_tokens(s)
    pos = [0]

    def peek():
        return toks[pos[0]] if pos[0] < len(toks) else None

    def eat(t=None):
        x = peek()
        if x is None or (t is not None and x != t):
            raise CExprError("expected %r at token %d of %r" % (t, pos[0], s))
        pos[0] += 1
        return x

    def atom():
        x = eat()
        if x == "(":
            e = expr(); eat(")"); return "(" + e + ")"
        if x.isdigit():
            return x
        if x == "*" :                       # pointer dereference of a base pointer: *dense
            y = eat()
            if ("*" + y) in env:
                return env["*" + y]
            raise CExprError("dereference of %s" % y)
        if re.match(r"[A-Za-z_]", x):
            if peek() == "(":
                eat("(")
                args = [expr()]
                while peek() == ",":
                    eat(","); args.append(expr())
                eat(")")
                if x == "SUPERLU_MAX" and len(args) == 2:
                    return "(Z.max (%s) (%s))" % (args[0], args[1])
                if x == "SUPERLU_MIN" and len(args) == 2:
                    return "(Z.min (%s) (%s))" % (args[0], args[1])
                if x in env and callable(env[x]):
                    return env[x](args)
                raise CExprError("unknown call %s" % x)
            if x in env and not callable(env[x]):
                return env[x]
            raise CExprError("unknown identifier %s in %r" % (x, s))
        raise CExprError("unexpected token %r in %r" % (x, s))

    def term():
        e = atom()
        while peek() == "*":
            eat("*"); e = "%s * %s" % (e, atom())
        return e

    def expr():
        e = term()
        while peek() in ("+", "-"):
            op = eat(); e = "%s %s %s" % (e, op, term())
        return e

    e = expr()
    if peek() is not None:
        raise CExprError("trailing tokens in %r" % s)
    return e


def work_layout(repo):
    out = ["", "(* ---- per-thread work arrays: translated from SRC/pmemory.c, SRC/p?memory.c, SRC/p?gstrf_bmod2D.c ---- *)"]

    def need(m, what):
        if not m:
            sys.stderr.write("gen_consts: cannot find %s\n" % what); sys.exit(1)
        return m
    try:
        # pxgstrf_SetIWork: offsets (in int_t units) of the pieces of the integer work array
        src = strip_comments(open(os.path.join(repo, "SRC/pmemory.c")).read())
        body = need(re.search(r"pxgstrf_SetIWork\s*\([^)]*\)\s*\{(.*?)\n\}", src, re.S), "pxgstrf_SetIWork").group(1)
        env = {"n": "n", "panel_size": "w", "NO_MARKER": "c_NO_MARKER", "iworkptr": "0"}
        names = []
        for m in re.finditer(r"\*\s*([a-z_]+)\s*=\s*([^;]+);", body):
            names.append(m.group(1))
            out.append("Definition c_iw_%s (n w : Z) : Z := %s." % (m.group(1), c_expr_to_gallina(m.group(2), env)))
        out.append("Definition c_iw_pieces : list (Z -> Z -> Z) := [%s]." % "; ".join("c_iw_" + x for x in names))
        m = need(re.search(r"ifill\s*\(\s*\*\s*repfnz\s*,\s*([^,]+),", body), "ifill(*repfnz") 
        out.append("Definition c_iw_fill_repfnz (n w : Z) : Z := %s." % c_expr_to_gallina(m.group(1), env))
        for p in "sdcz":
            src = strip_comments(open(os.path.join(repo, "SRC/p%smemory.c" % p)).read())
            m = need(re.search(r"#\s*define\s+NUM_TEMPV\(n,w,t,b\)\s+(.*)", src), "NUM_TEMPV in p%smemory.c" % p)
            out.append("Definition c_num_tempv_%s (n w t b : Z) : Z := %s." % (p, c_expr_to_gallina(m.group(1), {"n": "n", "w": "w", "t": "t", "b": "b"})))
            env = {"n": "n", "panel_size": "w", "maxsuper": "t", "rowblk": "b", "NO_MARKER": "c_NO_MARKER", "*dense": "0",
                   "NUM_TEMPV": (lambda a, p=p: "c_num_tempv_%s %s" % (p, " ".join("(%s)" % x for x in a)))}
            wi = need(re.search(r"p%sgstrf_WorkInit\s*\([^)]*\)\s*\{(.*?)\n\}" % p, src, re.S), "WorkInit").group(1)
            m = need(re.search(r"isize\s*=\s*(.*?)\*\s*sizeof\s*\(\s*int_t\s*\)\s*;", wi, re.S), "isize")
            out.append("Definition c_work_isize_%s (n w : Z) : Z := %s." % (p, c_expr_to_gallina(m.group(1).strip(), env)))
            m = need(re.search(r"dsize\s*=\s*(.*?)\*\s*sizeof\s*\(\s*\w+\s*\)\s*;", wi, re.S), "dsize")
            out.append("Definition c_work_dsize_%s (n w t b : Z) : Z := %s." % (p, c_expr_to_gallina(m.group(1).strip(), env)))
            rw = need(re.search(r"p%sgstrf_SetRWork\s*\([^)]*\)\s*\{(.*?)\n\}" % p, src, re.S), "SetRWork").group(1)
            m = need(re.search(r"\*\s*tempv\s*=\s*([^;]+);", rw), "*tempv =")
            out.append("Definition c_rw_tempv_%s (n w : Z) : Z := %s." % (p, c_expr_to_gallina(m.group(1), env)))
            m = need(re.search(r"%sfill\s*\(\s*\*\s*dense\s*,\s*([^,]+)," % p, rw), "fill(*dense")
            out.append("Definition c_rw_fill_dense_%s (n w : Z) : Z := %s." % (p, c_expr_to_gallina(m.group(1), env)))
            m = need(re.search(r"%sfill\s*\(\s*\*\s*tempv\s*,\s*(.*?),\s*zero\s*\)" % p, rw, re.S), "fill(*tempv")
            out.append("Definition c_rw_fill_tempv_%s (n w t b : Z) : Z := %s." % (p, c_expr_to_gallina(m.group(1), env)))
            b2 = strip_comments(open(os.path.join(repo, "SRC/p%sgstrf_bmod2D.c" % p)).read())
            m = need(re.search(r"ldaTmp\s*=\s*([^;]+);", b2), "ldaTmp")
            out.append("Definition c_bmod2d_lda_%s (t b : Z) : Z := %s." % (p, c_expr_to_gallina(m.group(1), env)))
            m = need(re.search(r"MatvecTmp\s*=\s*&\s*TriTmp\s*\[([^\]]+)\]\s*;", b2), "MatvecTmp")
            out.append("Definition c_bmod2d_mv_%s (t b : Z) : Z := %s." % (p, c_expr_to_gallina(m.group(1), env)))
            strides = set(re.findall(r"TriTmp\s*\+=\s*([A-Za-z_0-9]+)", b2))
            out.append("Definition c_bmod2d_stride_is_lda_%s : bool := %s." % (p, "true" if strides == {"ldaTmp"} else "false"))
    except CExprError as e:
        sys.stderr.write("gen_consts: work-layout translation failed: %s\n" % e); sys.exit(1)
    return out


def main():
    repo, out = sys.argv[1], sys.argv[2]
    lines = ["(* GENERATED by tools/gen_consts.py from %s -- do not edit *)" % ", ".join(HEADERS),
             "Require Import ZArith List.", "Import ListNotations.", "Local Open Scope Z_scope.", ""]
    seen = set()
    for h in HEADERS:
        src = strip_comments(open(os.path.join(repo, h)).read())
        for m in re.finditer(r"typedef\s+enum\s*\{([^}]*)\}\s*([A-Za-z_0-9]+)\s*;", src):
            body, tname = m.group(1), m.group(2)
            val = -1
            lines.append("(* enum %s (%s) *)" % (tname, h))
            for item in body.split(","):
                item = item.strip()
                if not item:
                    continue
                if "=" in item:
                    nm, v = [x.strip() for x in item.split("=")]
                    val = int(v, 0)
                else:
                    nm = item
                    val += 1
                if nm in seen:
                    continue
                seen.add(nm)
                lines.append("Definition c_%s : Z := %s." % (nm, val if val >= 0 else "(%d)" % val))
            lines.append("")
    for nm, f in DEFINES.items():
        src = strip_comments(open(os.path.join(repo, f)).read())
        m = re.search(r"#\s*define\s+%s\s+\(?\s*(-?\d+)\s*\)?" % nm, src)
        if not m:
            sys.stderr.write("gen_consts: #define %s not found in %s\n" % (nm, f))
            sys.exit(1)
        v = int(m.group(1))
        lines.append("Definition c_%s : Z := %s." % (nm, v if v >= 0 else "(%d)" % v))
    # THRESH of ?laqgs.c as a rational numerator/denominator (0.1 -> 1/10)
    src = strip_comments(open(os.path.join(repo, "SRC/dlaqgs.c")).read())
    m = re.search(r"#\s*define\s+THRESH\s+\(?\s*([0-9.]+)\s*\)?", src)
    if not m:
        sys.stderr.write("gen_consts: THRESH not found\n"); sys.exit(1)
    t = m.group(1)
    if "." in t:
        ip, fp = t.split(".")
        num, den = int(ip + fp), 10 ** len(fp)
    else:
        num, den = int(t), 1
    lines.append("Definition c_THRESH_num : Z := %d." % num)
    lines.append("Definition c_THRESH_den : Z := %d." % den)
    # NUM_TEMPV formula is checked textually (the model hard-codes max(2n,(t+b)w))
    src = strip_comments(open(os.path.join(repo, "SRC/pdmemory.c")).read())
    m = re.search(r"#\s*define\s+NUM_TEMPV\(n,w,t,b\)\s+(.*)", src)
    ok = bool(m) and re.sub(r"\s+", "", m.group(1)) == "(SUPERLU_MAX(2*n,(t+b)*w))"
    lines.append("Definition c_NUM_TEMPV_is_max_2n_tbw : bool := %s." % ("true" if ok else "false"))
    lines += work_layout(repo)
    txt = "\n".join(lines) + "\n"
    if os.path.exists(out) and open(out).read() == txt:
        return
    with open(out + ".tmp", "w") as f:
        f.write(txt)
    os.replace(out + ".tmp", out)


if __name__ == "__main__":
    main()
