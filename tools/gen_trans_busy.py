#!/usr/bin/env python3
"""usage: gen_trans_busy.py <repo> <coqdir>  -- the busy-snapshot part of the translator driver (tools/gen_trans.py calls gen_busy()):
     coq/BusyGen.v   pxgstrf_mark_busy_descends of SRC/pxgstrf_mark_busy_descends.c, the routine with which a worker that was handed a
                     panel in pipelined mode records in its private array lbusy[] which descendant columns are still busy
   re-translated from the current source on every run with tools/c2gal_busy.py (an extension of tools/c2gal_sched.py: a pointer local
   that is assigned once inside a branch, `xsup = Glu->xsup;`, is a declared pointer for the rest of that path).  The tie theorem
   (generated definition = SchedBusy.mark_busy written into lbusy) is in the hand-written coq/BusyTie.v.  A function that cannot be
   translated is left out with the reason in a comment: its tie theorem then fails to compile."""
import sys, os
sys.path.insert(0, os.path.dirname(os.path.abspath(__file__)))
import c2gal_busy as c2gal
from c2gal_busy import Unsupported, strip, mentions

REPO = sys.argv[1] if len(sys.argv) > 1 else "/repo"
COQ = sys.argv[2] if len(sys.argv) > 2 else os.path.join(os.path.dirname(os.path.dirname(os.path.abspath(__file__))), "coq")
SRC = os.path.join(REPO, "SRC")


def write_if_changed(path, txt):
    if os.path.exists(path) and open(path).read() == txt:
        return
    open(path, "w").write(txt)


SH = "pxgstrf_shared"
GLU = SH + ".Glu"
# (path, gallina binder, kind, read-only)
BUSY_MEM = [
    ("etree[]",                    "etr",      "array", True),
    (SH + ".pan_status[].type",    "pan_type", "array", True),
    (SH + ".pan_status[].size",    "pan_size", "array", True),
    (GLU + ".xsup[]",              "xsup",     "array", True),
    (GLU + ".supno[]",             "supno",    "array", True),
    ("lbusy[]",                    "lbusy",    "array", False),
]
BUSY_IGNORE = {"printf", "fflush"}          # only under DEBUGlevel >= 1 (not compiled)


def gen_busy():
    gname = "gen_pxgstrf_mark_busy_descends"
    out = ["(* GENERATED on every run by tools/gen_trans.py (tools/gen_trans_busy.py, translator tools/c2gal_busy.py, clang AST, pthread build,",
           "   built WITHOUT -DSLU_MT_VERIF, DEBUGlevel 0) from pxgstrf_mark_busy_descends of %s/pxgstrf_mark_busy_descends.c -- do not edit." % SRC,
           "   %s jcol etr pan_type pan_size xsup supno bcol lbusy fuel:" % gname,
           "     jcol = the argument jcol (pnum is only printed under DEBUGlevel: it is not an input); etr = etree[]; pan_type / pan_size =",
           "     the fields type / size of pxgstrf_shared->pan_status[]; xsup / supno = pxgstrf_shared->Glu->xsup[] / ->supno[] (the dynamic",
           "     supernode table, read through the macro SUPER_FSUPC); bcol = *bcol on entry; lbusy = lbusy[] on entry.",
           "   Arrays are lists read with nthZ and written with updZ (SchedModel.v: total, default 0 / no effect out of range); int_t",
           "   arithmetic is arithmetic in Z; the enum panel_t is compared as an integer.  Distinct arrays / fields do not overlap.",
           "   Result: None when the climb `for (kcol = bcol_reg; kcol < jcol; kcol = etree[kcol])` (a Fixpoint over fuel, it is not of the",
           "   shape `for (i = a; i < b; ++i)`) ran out of fuel, else Some (lbusy[], *bcol) at the end of the routine.  The routine takes no",
           "   lock: lbusy[] is private to the calling thread, and what it reads of the shared state is either never written after",
           "   ParallelInit (etree, type, size) or read without synchronisation on purpose (xsup / supno: the `pessimistic assumption' of the",
           "   comment in the source; the tie theorem holds for EVERY content of these two arrays). *)",
           "Require Import ZArith List Bool.", "From SLU Require Import Consts C2GalLib SchedModel.", "Local Open Scope Z_scope.", "Local Open Scope bool_scope.", ""]
    ok = 0
    cfile = os.path.join(SRC, "pxgstrf_mark_busy_descends.c")
    try:
        fn = c2gal.load_function(cfile, "pxgstrf_mark_busy_descends", incdir=SRC)
        pnames = [c.get("name") for c in fn.get("inner", []) if c.get("kind") == "ParmVarDecl"]
        if pnames != ["pnum", "jcol", "etree", SH, "bcol", "lbusy"]:
            raise Unsupported("unexpected parameter list %s" % pnames)
        mem = {p: (g, kind, ro) for (p, g, kind, ro) in BUSY_MEM}
        inputs = {p: (g, "L" if kind == "array" else "Z") for (p, g, kind, ro) in BUSY_MEM}
        inputs.update({"jcol": ("jcol", "Z"), "*bcol": ("bcol", "Z")})
        params = [("jcol", "Z")] + [(g, "list Z") for (p, g, kind, ro) in BUSY_MEM if ro] + [("bcol", "Z"), ("lbusy", "list Z"), ("fuel", "nat")]
        outs = ["lbusy[]", "*bcol"]

        def result(tr, env):
            return "Some (%s)" % ", ".join(tr.toZ(env[o]) if env[o][1] != "L" else env[o][0] for o in outs)

        def on_return(tr, env, val):
            if val is not None:
                raise Unsupported("the routine returns a value")
            return result(tr, env)
        cfg = {"inputs": inputs, "cells": {"bcol"}, "pointers": {SH: SH, "etree": "etree", "lbusy": "lbusy"}, "mem": mem,
               "ignore_calls": BUSY_IGNORE, "on_return": on_return, "on_fuel": lambda tr, env: "None", "fuel": "fuel",
               "general_for": True, "ptr_assign_scoped": True, "partial_init": "dup",
               "lift_loops": gname, "dedupe_loops": True, "params": params,
               "state_order": c2gal.decl_order(fn) + [p for (p, _, _, _) in BUSY_MEM]}
        body = [c for c in fn["inner"] if c.get("kind") == "CompoundStmt"][0]
        if mentions(body, lambda x: x.get("kind") in ("GotoStmt", "LabelStmt")):
            raise Unsupported("goto / label in the routine")
        tr = c2gal.Tr(cfg)
        tr.number(body)
        tr.busy_scan(body)
        term = tr.seq(body.get("inner", []), dict(inputs), lambda e: result(tr, e))
        out.append("(* %s : pxgstrf_mark_busy_descends *)" % os.path.basename(cfile))
        for l in tr.lifted:
            out.append("(* state %s; outer names %s *)" % (", ".join(l[2]), ", ".join(l[3])))
            out.append(l[1])
        out.append("Definition %s %s : option (list Z * Z) :=\n%s.\n" % (gname, " ".join("(%s : %s)" % b for b in params), term))
        ok += 1
    except Unsupported as e:
        out.append("(* %s NOT TRANSLATED: %s *)\n" % (gname, str(e).replace("*)", "* )")))
    write_if_changed(os.path.join(COQ, "BusyGen.v"), "\n".join(out) + "\n")
    return ok


if __name__ == "__main__":
    n = gen_busy()
    print("gen_trans: BusyGen.v %s/1 functions translated" % n)
