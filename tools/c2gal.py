#!/usr/bin/env python3
"""c2gal.py -- translator from a small subset of C (as parsed by clang: `-Xclang -ast-dump=json`) to Gallina.

Purpose: pieces of /repo/SRC that are pure decision logic over integers (argument tests, pivot policy, allocator arithmetic)
are RE-TRANSLATED from the current source on every run into coq/*Gen.v; hand-written `*Tie.v` files prove that the generated
definitions equal the hand-written models the property theorems talk about.  A source change that alters the logic changes
the generated definition and breaks the tie theorem (a proof obligation of the property).

Subset: a slice of one function body made of
  declarations with initialisers, assignments to scalar locals / to `*p` for pointer parameters declared as cells,
  compound assignments, ++/--, if / else (nested), `for (i = a; i < b; ++i)` loops without break/return in the body,
  `return e;` (ends the translation of its path), calls on an ignore list, null statements.
Expressions: integer and character literals, enum constants (-> c_NAME of Consts.v), variables, `p->field` through a field
map, unary ! - *, binary || && == != < <= > >= + - * / %, ?: (SUPERLU_MAX/MIN expand to it), casts and parentheses,
calls through per-name handlers, array reads `a[i]` of arrays declared as functions.
Stores `a[i] = e;` to arrays on cfg["ignore_stores"] are dropped (explicitly, and only while the array is not read afterwards);
an assignment to a variable on cfg["override"] takes the configured input instead of its right-hand side (thresh = u * pivmax ==> thr);
with cfg["local_temps"] a variable first assigned inside an if / a loop body is local to it (rtemp).
Also (added for the allocator arithmetic of p?memory.c): `g.field` on a GLOBAL struct variable as a mutable cell (cfg "globals"),
one tracked base pointer (cfg "base_ptr") with `char *` arithmetic as offsets relative to it (Gallina type `cptr` of
coq/C2GalLib.v: None = NULL, Some off = base + off), casts by castKind (NullToPointer, PointerToIntegral through the base
address parameter, BitCast between pointer types; IntegralToPointer is refused), bit operators & | ^ ~ << >>, forward
`goto L;` to a label of an enclosing block (the path continues with the statements after the label), lock / unlock calls
that open and close a critical section (cfg "lock": guarded cells may only be touched inside), enum constants through a name
map (cfg "enums").
Also (added for the bump allocators Glu_alloc / DynamicSetMap of pmemory.c): object paths through pointers (cfg "roots":
`pxgstrf_shared->Glu->nextu`, also through pointer locals initialised from such a path: `Glu = pxgstrf_shared->Glu; .. Glu->nextu`)
with mutable scalar cells (cfg "pcells") and mutable integer arrays (cfg "parrays": a value `Z -> Z`, a store is `zupd` of
coq/C2GalLib.v) reached through them; `switch` over integer / enum constants with `case` groups, `default`, fall-through and
`break` (every entry point carries its own copy of the rest of the path); calls that never return (cfg "abort_calls") end their
path with cfg["on_abort"]; indexed lock objects (cfg "lock" with "object_path" and a guards MAP cell -> lock index).
Everything else stops the translation with an error (reported by the check as a broken translator), never silently skipped.
The clang AST is built without -DSLU_MT_VERIF (CLANG_FLAGS): the SLU_VERIF_EV hook statements are null statements.

Translation scheme: static single assignment with `let`; an `if` whose branches only assign becomes
`let '(x1, .., xk) := if c then (..) else (..) in rest` over the variables assigned in either branch; an `if` with a branch
that returns duplicates the rest into the other branch; a for loop becomes `fold_left` over `zrange a b` with the tuple of
the variables its body assigns as the state (with cfg["lift_loops"] the body is a definition of its own, so that a tie proof can
state the loop-body correspondence as a lemma; with cfg["state_order"] tuples list variables in declaration order).  `zrange` is
defined in the hand-written coq/C2GalLib.v.  C truth values: comparisons and logical operators give bool; an integer used as
a condition becomes `negb (e =? 0)`; a bool used as an integer becomes `(if e then 1 else 0)`.
With cfg "dup_ifs" every `if` is translated by duplicating the rest of the path into both branches (no joins): the result is a
decision tree whose leaves are the final values; locals declared or first assigned inside a branch need no value before the `if`.
Expression types: 'Z' integer, 'B' bool, 'P' pointer (cptr).
"""
import json, subprocess, sys, os

CLANG_FLAGS = ["-fsyntax-only", "-w", "-D__PTHREAD", "-DAdd_", "-I/repo/SRC"]


class Unsupported(Exception):
    pass


GALLINA_RESERVED = set("""as at cofix else end exists exists2 fix for forall fun if IF in let match mod Prop return Set then Type
using where with Definition Lemma Theorem Fixpoint Inductive Record Section End Variable Hypothesis Axiom Parameter Proof Qed
Z nat bool unit tt true false None Some pair fst snd negb andb orb cptr pnull pbase padd paddr peqb fold_left zrange""".split())


def gallina_ident(name):
    """a C identifier as a Gallina binder: reserved words and the names the generated code itself uses get a trailing underscore"""
    return name + "_" if name in GALLINA_RESERVED else name


def load_function(cfile, fname, incdir=None, extra=()):
    flags = list(CLANG_FLAGS)
    if incdir:
        flags = [f if not f.startswith("-I") else "-I" + incdir for f in flags]
    cmd = ["clang"] + flags + list(extra) + ["-Xclang", "-ast-dump=json", "-Xclang", "-ast-dump-filter=" + fname, cfile]
    p = subprocess.run(cmd, stdout=subprocess.PIPE, stderr=subprocess.PIPE, universal_newlines=True, timeout=120)
    if p.returncode != 0:
        raise Unsupported("clang failed on %s: %s" % (cfile, p.stderr[-300:]))
    txt = p.stdout
    dec = json.JSONDecoder()
    i = 0
    while i < len(txt):
        while i < len(txt) and txt[i].isspace():
            i += 1
        if i >= len(txt):
            break
        o, i = dec.raw_decode(txt, i)
        if o.get("kind") == "FunctionDecl" and o.get("name") == fname and any(c.get("kind") == "CompoundStmt" for c in o.get("inner", [])):
            return o
    raise Unsupported("no definition of %s in %s" % (fname, cfile))


def int_constants(cfile, names, incdir=None, extra=()):
    """values of integer constant expressions (enum constants, integer macros) visible at the end of `cfile`, evaluated by
    clang itself: {name: int}.  A name that is not an integer constant expression there makes clang fail -> Unsupported."""
    import tempfile
    flags = list(CLANG_FLAGS)
    if incdir:
        flags = [f if not f.startswith("-I") else "-I" + incdir for f in flags]
    with tempfile.TemporaryDirectory() as d:
        probe = os.path.join(d, "probe.c")
        with open(probe, "w") as f:
            f.write('#include "%s"\nenum { %s };\n' % (os.path.abspath(cfile), ", ".join("c2gal_probe_%s = (%s)" % (x, x) for x in names)))
        cmd = ["clang"] + flags + list(extra) + ["-Xclang", "-ast-dump=json", "-Xclang", "-ast-dump-filter=c2gal_probe_", probe]
        p = subprocess.run(cmd, stdout=subprocess.PIPE, stderr=subprocess.PIPE, universal_newlines=True, timeout=120)
    if p.returncode != 0:
        raise Unsupported("clang cannot evaluate %s at the end of %s: %s" % (", ".join(names), cfile, p.stderr[-300:]))
    txt, dec, i, out = p.stdout, json.JSONDecoder(), 0, {}
    while i < len(txt):
        while i < len(txt) and txt[i].isspace():
            i += 1
        if i >= len(txt):
            break
        o, i = dec.raw_decode(txt, i)
        if o.get("kind") == "EnumConstantDecl" and o.get("name", "").startswith("c2gal_probe_"):
            v = [c.get("value") for c in o.get("inner", []) if c.get("kind") == "ConstantExpr"]
            if v and v[0] is not None:
                out[o["name"][len("c2gal_probe_"):]] = int(v[0])
    for x in names:
        if x not in out:
            raise Unsupported("no value for the constant %s in %s" % (x, cfile))
    return out


def strip(n):
    while n.get("kind") in ("ImplicitCastExpr", "ParenExpr", "CStyleCastExpr", "ConstantExpr"):
        n = n["inner"][0]
    return n


class Tr:
    """cfg keys:
         inputs   {c_name: (gallina_name, 'Z'|'B')}    variables readable from the start (parameters, pre-set locals)
         cells    set of pointer parameters p whose `*p` is a mutable scalar (also listed in inputs if read before written)
         fields   {field_name: accessor}               p->field  ==>  (accessor P)  with P the gallina name of p (after aliasing)
         alias_field  name of the field whose value makes a local an alias of its base (e.g. 'Store')
         arrays   {c_name: gallina function name}      a[i] ==> (f i)
         calls    {callee: handler(tr, args_nodes, env) -> (str, ty)}
         ignore_calls  set of callee names whose call statements are dropped (no effect on the translated variables)
         override {var: (gallina_term, ty)}            an assignment to var takes this value instead of the C right-hand side
         zero_float  True: floating literals 0.0 are the integer 0 (scaled-magnitude models)
         arrays values may also be handlers  h(tr, index_node, env) -> (str, ty)   (e.g. inv_perm_r[jcol] ==> the input oldrow)
         ignore_stores  set of array names: a statement `a[i] = e;` is dropped (the translated variables do not depend on it).
                      Sound only while `a` is not READ afterwards: after a dropped store every later read of `a` on the same
                      path (and every read of `a` anywhere in a loop body that stores to it) stops the translation.
         local_temps  True: a variable that has no value before an if / a loop and is assigned inside it is local to that
                      statement (it is not part of the join tuple / loop state and has no value afterwards: a later read before a
                      new assignment stops the translation).  Without the key such an assignment stops the translation.
         state_order  list of C variable names (see decl_order): the variables of join tuples and loop states are listed in this
                      order instead of the order of their first assignment (a reordering of statements keeps the tuple shape)
         lift_loops   name prefix: every for-loop body becomes a separate definition  <prefix>_loop<k> <free variables> st_ i
                      (collected in tr.lifted, to be emitted before the main definition); needs
         params       [(gallina_name, type_string)] the binders of the generated definition (candidates for free variables)
         globals  {global_struct_var: set of field names}   g.f is the mutable cell named "g.f" (give its start value in inputs["g.f"];
                                                         read its final value from env["g.f"] in on_return / final)
         base_ptr {"g.f" | var: gallina name of its ADDRESS (a Z)}  the one tracked base pointer: reading it gives `pbase` (offset 0);
                                                         `(char*)p + k` is `padd p k`, `(long long)p` is `paddr <address> p`; it cannot be assigned
         enums    {enum constant: gallina term}          (default: c_NAME of Consts.v)
         lock     {"acquire": set of callees, "release": set of callees, "object": ("g", "f") or None, "guards": set of cell names}
                                                         acquire / release calls (argument `&g.f` when object is given) open / close a
                                                         critical section; a guarded cell read or written outside one stops the translation;
                                                         env["#lock"] is present while the lock is held (on_return / final can refuse it)
         dup_ifs  True: every if duplicates the rest of the path into its branches (decision tree, no joins)
         roots    set of pointer PARAMETERS from which object paths start: `p->f->g` is the path "p->f->g"; a pointer local that is
                  initialised / assigned from a path expression is an alias of that path on the rest of its control path
                  (env[local] = (path, 'O')); no `let` is emitted for it and it can not be joined over an if / a loop
         pcells   set of paths that are mutable scalar cells ("p->Glu->nextu"): start value in inputs[path], final value in env[path]
         parrays  set of paths that are mutable integer arrays ("p->Glu->map_in_sup"): the value (inputs[path] = (name, 'F')) is a
                  Gallina function Z -> Z;  a[i] reads `(a i)`;  a[i] = e / a[i] += e  give  `zupd a i e'`;  the pointer field itself
                  can not be assigned (it is not a cell)
         abort_calls  set of callees that never return (superlu_abort_and_exit, exit, abort): a call statement ends its path
                  with cfg["on_abort"](tr, env) (locks may be held there: the process is gone)
         lock     (indexed form) {"acquire", "release", "object_path": path of the lock array, "guards": {cell: lock index name}}
                  the call argument must be `&<object_path>[<enum constant or integer literal>]`; env["#lock[<index>]"] is present
                  while that lock is held; a guarded cell may only be touched while ITS lock is held; taking a lock while any
                  lock is held is refused (no lock order is modelled); see held()
       switch:    `switch (e) { case A: case B: s..; break; default: ..}` becomes an if-chain over (e =? A) || (e =? B) with one copy of
                  the rest of the path per entry point; fall-through runs on into the next statements; `break` inside nested ifs is
                  a jump to the end of the switch; case labels inside nested statements and `break` in for-loops are refused"""

    def __init__(self, cfg):
        self.cfg = cfg
        self.n = 0
        self.alias = {}
        self.dirty = set()      # arrays with a dropped store on the path translated so far
        self.lifted = []        # [(name, text)] loop bodies lifted into definitions
        self.lets = {}          # gallina name of every let-bound / loop-bound variable -> type
        self.labels = {}      # label declId -> continuation (env -> term) of the statements from the label on
        self.gorder = {}       # node id of GotoStmt / LabelStmt -> position in a preorder walk (forward gotos only)
        self.brk = None        # continuation of `break` (the end of the innermost switch) or None

    def fresh(self, v, ty="Z"):
        self.n += 1
        v = "_".join(v.replace("*", "").replace(".", "_").split("->")[-2:])
        nm = "%s_%d" % (v, self.n)
        self.lets[nm] = ty
        return nm

    def order(self, vs):
        so = self.cfg.get("state_order")
        if not so:
            return vs
        pos = {v: i for i, v in enumerate(so)}
        return sorted(vs, key=lambda v: (pos.get(v, len(so)), vs.index(v)))

    # ------------------------------------------------------------------ expressions
    def toB(self, et):
        e, t = et
        if t in ("F", "O"):
            raise Unsupported("an array / a pointer into an object used as a truth value")
        if t == "P":
            return "(negb (peqb %s pnull))" % e
        return e if t == "B" else "(negb (%s =? 0))" % e

    def toZ(self, et):
        e, t = et
        if t in ("P", "F", "O"):
            raise Unsupported("a pointer used as an integer without a cast")
        return e if t == "Z" else "(if %s then 1 else 0)" % e

    def guard(self, name, env, what):
        lk = self.cfg.get("lock")
        if not lk or name not in lk.get("guards", ()):
            return
        g = lk["guards"]
        if isinstance(g, dict):
            if "#lock[%s]" % g[name] not in env:
                raise Unsupported("%s of '%s' while its lock %s is not held" % (what, name, g[name]))
        elif "#lock" not in env:
            raise Unsupported("%s of '%s' outside the critical section" % (what, name))

    @staticmethod
    def held(env):
        """the locks held on this path: [""] for the single lock, ["[ULOCK]", ..] for indexed ones"""
        return [x[len("#lock"):] for x in env if x.startswith("#lock")]

    def path(self, n, env):
        """object path "root->f->g" of a pointer-valued expression (cfg "roots"), or None"""
        if not self.cfg.get("roots"):
            return None
        n = strip(n)
        if n.get("kind") == "DeclRefExpr":
            nm = n["referencedDecl"]["name"]
            if env is not None and nm in env and env[nm][1] == "O":
                return env[nm][0]
            if nm in self.cfg["roots"] and n["referencedDecl"].get("kind") == "ParmVarDecl" and (env is None or nm not in env):
                return nm
            return None
        if n.get("kind") == "MemberExpr" and n.get("isArrow"):
            b = self.path(n["inner"][0], env)
            return None if b is None else "%s->%s" % (b, n["name"])
        return None

    def elem(self, n, env):
        """(array path, index node) of `a[i]` with a an array of cfg "parrays", or None"""
        n = strip(n)
        if n.get("kind") != "ArraySubscriptExpr":
            return None
        p = self.path(n["inner"][0], env)
        if p is not None and p in self.cfg.get("parrays", ()):
            return (p, n["inner"][1])
        return None

    def is_ptr(self, n):
        return n.get("type", {}).get("desugaredQualType", n.get("type", {}).get("qualType", "")).rstrip().endswith("*")

    def gcell(self, n):
        """cell name "g.f" of a MemberExpr `g.f` on a declared global struct variable, or None"""
        if n.get("kind") != "MemberExpr" or n.get("isArrow"):
            return None
        base = strip(n["inner"][0])
        if base.get("kind") != "DeclRefExpr":
            return None
        g = base["referencedDecl"]["name"]
        nm = "%s.%s" % (g, n["name"])
        if n["name"] in self.cfg.get("globals", {}).get(g, ()) or nm in self.cfg.get("base_ptr", {}):
            return nm
        return None

    def is_charp(self, n):
        q = n.get("type", {}).get("qualType", "")
        return q.replace("const ", "").replace("unsigned ", "").replace("signed ", "").strip() in ("char *",)

    def var(self, name, env):
        self.guard(name, env, "read")
        if name in self.cfg.get("base_ptr", {}):
            return ("pbase", "P")
        if name in env:
            return env[name]
        raise Unsupported("variable '%s' is read before the translated slice assigns it and is not declared as an input" % name)

    def ex(self, n, env):
        k = n.get("kind")
        if k in ("ImplicitCastExpr", "CStyleCastExpr"):
            ck = n.get("castKind")
            if ck == "NullToPointer":
                return ("pnull", "P")
            if ck == "IntegralToPointer":
                raise Unsupported("cast of an integer to a pointer")
            if ck == "PointerToIntegral":
                e = self.ex(n["inner"][0], env)
                bp = self.cfg.get("base_ptr", {})
                if e[1] != "P" or len(bp) != 1:
                    raise Unsupported("cast of a pointer to an integer without a tracked base pointer")
                return ("(paddr %s %s)" % (list(bp.values())[0], e[0]), "Z")
            if ck == "PointerToBoolean":
                return self.toB(self.ex(n["inner"][0], env)), "B"
            return self.ex(n["inner"][0], env)
        if k in ("ParenExpr", "ConstantExpr"):
            return self.ex(n["inner"][0], env)
        if k == "IntegerLiteral":
            return (n["value"], "Z")
        if k == "CharacterLiteral":
            return (str(n["value"]), "Z")
        if k == "FloatingLiteral":
            if self.cfg.get("zero_float") and float(n["value"]) == 0.0:
                return ("0", "Z")
            raise Unsupported("floating literal %s" % n.get("value"))
        if k == "DeclRefExpr":
            rd = n["referencedDecl"]
            if rd["kind"] == "EnumConstantDecl":
                return (self.cfg.get("enums", {}).get(rd["name"], "c_" + rd["name"]), "Z")
            return self.var(rd["name"], env)
        if k == "MemberExpr" and self.gcell(n):
            return self.var(self.gcell(n), env)
        if k == "MemberExpr" and self.path(n, env) is not None:
            p = self.path(n, env)
            if p in self.cfg.get("pcells", ()):
                return self.var(p, env)
            raise Unsupported("read of '%s', which is not a declared cell" % p)
        if k == "ArraySubscriptExpr" and self.elem(n, env):
            p, idx = self.elem(n, env)
            a = self.var(p, env)
            return ("(%s %s)" % (a[0], self.toZ(self.ex(idx, env))), "Z")
        if k == "MemberExpr":
            base = strip(n["inner"][0])
            if base.get("kind") != "DeclRefExpr":
                raise Unsupported("member access on a non-variable")
            b = base["referencedDecl"]["name"]
            b = self.alias.get(b, b)
            f = n["name"]
            if f not in self.cfg.get("fields", {}):
                raise Unsupported("field '%s' has no accessor" % f)
            return ("(%s %s)" % (self.cfg["fields"][f], self.var(b, env)[0]), "Z")
        if k == "ArraySubscriptExpr":
            base = strip(n["inner"][0])
            if base.get("kind") == "DeclRefExpr" and base["referencedDecl"]["name"] in self.cfg.get("arrays", {}):
                an = base["referencedDecl"]["name"]
                if an in self.dirty:
                    raise Unsupported("array '%s' is read after a store to it was dropped (ignore_stores)" % an)
                h = self.cfg["arrays"][an]
                if callable(h):
                    return h(self, n["inner"][1], env)
                return ("(%s %s)" % (h, self.toZ(self.ex(n["inner"][1], env))), "Z")
            raise Unsupported("array read of an undeclared array%s" % (" '%s'" % base["referencedDecl"]["name"] if base.get("kind") == "DeclRefExpr" else ""))
        if k == "UnaryOperator":
            op = n["opcode"]
            if op == "!":
                return ("(negb %s)" % self.toB(self.ex(n["inner"][0], env)), "B")
            if op == "-":
                return ("(- %s)" % self.toZ(self.ex(n["inner"][0], env)), "Z")
            if op == "+":
                return self.ex(n["inner"][0], env)
            if op == "~":
                return ("(Z.lnot %s)" % self.toZ(self.ex(n["inner"][0], env)), "Z")
            if op == "*":
                b = strip(n["inner"][0])
                if b.get("kind") == "DeclRefExpr" and b["referencedDecl"]["name"] in self.cfg.get("cells", ()):
                    return self.var("*" + b["referencedDecl"]["name"], env)
                raise Unsupported("dereference of something that is not a declared cell")
            raise Unsupported("unary operator %s in an expression" % op)
        if k == "BinaryOperator":
            op = n["opcode"]
            a, b = n["inner"]
            if op in ("||", "&&"):
                return ("(%s %s %s)" % (self.toB(self.ex(a, env)), op, self.toB(self.ex(b, env))), "B")
            ea, eb = self.ex(a, env), self.ex(b, env)
            if ea[1] == "P" or eb[1] == "P":
                if op in ("==", "!=") and ea[1] == eb[1]:
                    t = "(peqb %s %s)" % (ea[0], eb[0])
                    return (t if op == "==" else "(negb %s)" % t, "B")
                if op == "+" and eb[1] == "P" and ea[1] != "P":
                    a, b, ea, eb = b, a, eb, ea
                if op in ("+", "-") and ea[1] == "P" and eb[1] != "P":
                    if not self.is_charp(a):
                        raise Unsupported("pointer arithmetic on '%s' (only char * : element size 1)" % a.get("type", {}).get("qualType"))
                    kz = self.toZ(eb)
                    return ("(padd %s %s)" % (ea[0], kz if op == "+" else "(- %s)" % kz), "P")
                raise Unsupported("binary operator %s on a pointer" % op)
            cmpop = {"==": "=?", "<": "<?", "<=": "<=?", ">": ">?", ">=": ">=?"}
            if op in cmpop:
                return ("(%s %s %s)" % (self.toZ(ea), cmpop[op], self.toZ(eb)), "B")
            if op == "!=":
                return ("(negb (%s =? %s))" % (self.toZ(ea), self.toZ(eb)), "B")
            bit = {"&": "Z.land", "|": "Z.lor", "^": "Z.lxor", "<<": "Z.shiftl", ">>": "Z.shiftr"}
            if op in bit:
                return ("(%s %s %s)" % (bit[op], self.toZ(ea), self.toZ(eb)), "Z")
            ar = {"+": "+", "-": "-", "*": "*"}
            if op in ar:
                return ("(%s %s %s)" % (self.toZ(self.ex(a, env)), ar[op], self.toZ(self.ex(b, env))), "Z")
            if op == "/":
                return ("(Z.quot %s %s)" % (self.toZ(self.ex(a, env)), self.toZ(self.ex(b, env))), "Z")
            if op == "%":
                return ("(Z.rem %s %s)" % (self.toZ(self.ex(a, env)), self.toZ(self.ex(b, env))), "Z")
            raise Unsupported("binary operator %s in an expression" % op)
        if k == "ConditionalOperator":
            c, a, b = n["inner"]
            ea, eb = self.ex(a, env), self.ex(b, env)
            if ea[1] == eb[1]:
                return ("(if %s then %s else %s)" % (self.toB(self.ex(c, env)), ea[0], eb[0]), ea[1])
            return ("(if %s then %s else %s)" % (self.toB(self.ex(c, env)), self.toZ(ea), self.toZ(eb)), "Z")
        if k == "CallExpr":
            cal = strip(n["inner"][0])
            name = cal.get("referencedDecl", {}).get("name")
            h = self.cfg.get("calls", {}).get(name)
            if h is None:
                raise Unsupported("call of '%s' inside an expression" % name)
            return h(self, n["inner"][1:], env)
        raise Unsupported("expression kind %s" % k)

    # ------------------------------------------------------------------ statements: analysis
    def lhs_name(self, n, env=None):
        """name of the translated variable an lvalue denotes, or None (an element `a[i]` of a mutable array denotes the array)"""
        n = strip(n)
        if n.get("kind") == "DeclRefExpr":
            return n["referencedDecl"]["name"]
        if n.get("kind") == "MemberExpr":
            g = self.gcell(n)
            if g in self.cfg.get("base_ptr", {}):
                raise Unsupported("assignment to the tracked base pointer '%s'" % g)
            if g is None:
                p = self.path(n, env)
                if p is not None and p in self.cfg.get("pcells", ()):
                    return p
            return g
        if self.elem(n, env):
            return self.elem(n, env)[0]
        if n.get("kind") == "UnaryOperator" and n["opcode"] == "*":
            b = strip(n["inner"][0])
            if b.get("kind") == "DeclRefExpr" and b["referencedDecl"]["name"] in self.cfg.get("cells", ()):
                return "*" + b["referencedDecl"]["name"]
        return None

    def store_target(self, n):
        """`a[i] = e` with a on the ignore_stores list: the name a, else None"""
        if n.get("kind") == "BinaryOperator" and n.get("opcode") == "=":
            l = strip(n["inner"][0])
            if l.get("kind") == "ArraySubscriptExpr":
                b = strip(l["inner"][0])
                if b.get("kind") == "DeclRefExpr" and b["referencedDecl"]["name"] in self.cfg.get("ignore_stores", ()):
                    return b["referencedDecl"]["name"]
        return None

    def pure(self, n):
        """no assignment, ++/--, call anywhere inside the expression"""
        k = n.get("kind")
        if k in ("CallExpr", "CompoundAssignOperator") or (k == "BinaryOperator" and n.get("opcode") in ("=", ",")) \
                or (k == "UnaryOperator" and n.get("opcode") in ("++", "--")):
            return False
        return all(self.pure(c) for c in n.get("inner", []) if c)

    def stores_in(self, n, acc):
        a = self.store_target(n)
        if a:
            acc.add(a)
        for c in n.get("inner", []):
            if c:
                self.stores_in(c, acc)
        return acc

    def assigned(self, n, acc, env=None):
        k = n.get("kind")
        if k in ("SwitchStmt", "BreakStmt"):
            raise Unsupported("switch / break inside an if or a loop that is translated as a join (use dup_ifs)")
        if self.store_target(n):
            return
        if k in ("BinaryOperator", "CompoundAssignOperator") and (n["opcode"] == "=" or k == "CompoundAssignOperator"):
            v = self.lhs_name(n["inner"][0], env)
            if v is None:
                raise Unsupported("assignment to something that is not a scalar variable or a declared cell")
            if self.is_ptr(n["inner"][0]) and self.cfg.get("roots"):
                raise Unsupported("assignment to the pointer '%s' inside an if / a loop that is translated as a join" % v)
            if v not in acc:
                acc.append(v)
            return
        if k == "UnaryOperator" and n["opcode"] in ("++", "--"):
            v = self.lhs_name(n["inner"][0], env)
            if v is None:
                raise Unsupported("++/-- of a non-variable")
            if v not in acc:
                acc.append(v)
            return
        if k == "DeclStmt":
            for d in n.get("inner", []):
                if d.get("kind") == "VarDecl" and d.get("inner") and not self.is_alias_init(d):
                    if d["name"] not in acc:
                        acc.append(d["name"])
            return
        if k in ("CompoundStmt", "IfStmt", "ForStmt", "LabelStmt"):
            for c in n.get("inner", []):
                if c:
                    if k == "IfStmt" and c is n["inner"][0]:
                        continue
                    self.assigned(c, acc, env)

    def callee(self, n):
        return strip(n["inner"][0]).get("referencedDecl", {}).get("name") if n.get("kind") == "CallExpr" else None

    def may_return(self, n):
        if n.get("kind") in ("ReturnStmt", "GotoStmt", "BreakStmt", "SwitchStmt"):
            return True
        if n.get("kind") == "CallExpr" and self.callee(n) in self.cfg.get("abort_calls", ()):
            return True
        return any(self.may_return(c) for c in n.get("inner", []) if c)

    def is_alias_init(self, d):
        if not d.get("inner"):
            return False
        i = strip(d["inner"][0])
        return i.get("kind") == "MemberExpr" and i.get("name") == self.cfg.get("alias_field", "Store")

    # ------------------------------------------------------------------ statements: translation (continuation style)
    def tup(self, names):
        return names[0] if len(names) == 1 else "(" + ", ".join(names) + ")"

    def pat(self, names):
        return names[0] if len(names) == 1 else "'(" + ", ".join(names) + ")"

    def assign(self, v, et, env, rest):
        if v in self.cfg.get("override", {}):
            et = self.cfg["override"][v]
        self.guard(v, env, "write")
        if v in self.cfg.get("base_ptr", {}):
            raise Unsupported("assignment to the tracked base pointer '%s'" % v)
        nm = self.fresh(v.replace("*", "").replace(".", "_"), et[1])
        env2 = dict(env)
        env2[v] = (nm, et[1])
        return "let %s := %s in\n%s" % (nm, et[0], rest(env2))

    def seq(self, stmts, env, k):
        if not stmts:
            return k(env)
        for j, s in enumerate(stmts):
            if s.get("kind") == "LabelStmt":
                self.labels[s.get("declId")] = self.with_brk(self.brk, (lambda j: lambda e: self.seq(stmts[j:], e, k))(j))
        return self.stmt(stmts[0], env, lambda e: self.seq(stmts[1:], e, k))

    def with_brk(self, brk, k):
        """the continuation k, run with `brk` as the target of break (whatever the target is where k gets called)"""
        def kk(e):
            saved, self.brk = self.brk, brk
            try:
                return k(e)
            finally:
                self.brk = saved
        return kk

    def elem_assign(self, l, val_of, env, k):
        """a[i] = val_of(old element) for an element of a mutable array"""
        p, idx = self.elem(l, env)
        a = self.var(p, env)
        i = self.toZ(self.ex(idx, env))
        v = val_of("(%s %s)" % (a[0], i))
        return self.assign(p, ("(zupd %s %s %s)" % (a[0], i, v), "F"), env, k)

    def number(self, n):
        """preorder positions of the goto and label statements of a function body"""
        if n.get("kind") in ("GotoStmt", "LabelStmt"):
            self.gorder[n["id"]] = len(self.gorder)
            if n.get("kind") == "LabelStmt":
                self.gorder["L" + n.get("declId", "")] = self.gorder[n["id"]]
        for c in n.get("inner", []):
            if c:
                self.number(c)

    def lock_call(self, name, n, env):
        """None when `name` is not a lock call, else the environment after it"""
        lk = self.cfg.get("lock")
        if not lk or name not in (set(lk.get("acquire", ())) | set(lk.get("release", ()))):
            return None
        if lk.get("object_path"):
            args = n["inner"][1:]
            a = strip(args[0]) if len(args) == 1 else {}
            m = strip(a["inner"][0]) if a.get("kind") == "UnaryOperator" and a.get("opcode") == "&" else {}
            ix = strip(m["inner"][1]) if m.get("kind") == "ArraySubscriptExpr" else {}
            if m.get("kind") != "ArraySubscriptExpr" or self.path(m["inner"][0], env) != lk["object_path"]:
                raise Unsupported("%s on something that is not &%s[..]" % (name, lk["object_path"]))
            if ix.get("kind") == "DeclRefExpr" and ix["referencedDecl"].get("kind") == "EnumConstantDecl":
                lid = ix["referencedDecl"]["name"]
            elif ix.get("kind") == "IntegerLiteral":
                lid = ix["value"]
            else:
                raise Unsupported("%s on %s[..] with an index that is not a constant" % (name, lk["object_path"]))
            key = "#lock[%s]" % lid
            env2 = dict(env)
            if name in lk.get("acquire", ()):
                if self.held(env):
                    raise Unsupported("%s of %s while a lock is held (%s)" % (name, lid, ", ".join(self.held(env))))
                env2[key] = ("true", "B")
            else:
                if key not in env:
                    raise Unsupported("%s of %s while it is not held" % (name, lid))
                del env2[key]
            return env2
        obj = lk.get("object")
        if obj:
            args = n["inner"][1:]
            a = strip(args[0]) if len(args) == 1 else {}
            m = strip(a["inner"][0]) if a.get("kind") == "UnaryOperator" and a.get("opcode") == "&" else {}
            b = strip(m["inner"][0]) if m.get("kind") == "MemberExpr" and not m.get("isArrow") else {}
            if not (m.get("name") == obj[1] and b.get("kind") == "DeclRefExpr" and b["referencedDecl"]["name"] == obj[0]):
                raise Unsupported("%s on something that is not &%s.%s" % (name, obj[0], obj[1]))
        env2 = dict(env)
        if name in lk.get("acquire", ()):
            if "#lock" in env:
                raise Unsupported("%s while the lock is held" % name)
            env2["#lock"] = ("true", "B")
        else:
            if "#lock" not in env:
                raise Unsupported("%s while the lock is not held" % name)
            del env2["#lock"]
        return env2

    def switch(self, n, env, k):
        """switch (e) { case A: case B: s.. break; .. default: .. }  ==>  if (e =? A) || (e =? B) then <path from there> else ..
        every entry point carries its own copy of the rest of the path (statements up to a break / the end, then k)"""
        inner = [c for c in n.get("inner", []) if c]
        if len(inner) != 2 or inner[1].get("kind") != "CompoundStmt":
            raise Unsupported("switch that is not `switch (e) { .. }`")
        if not self.pure(inner[0]):
            raise Unsupported("switch on an expression with a side effect")
        sel = self.toZ(self.ex(inner[0], env))
        items = []                      # (labels, statement); a label is a Gallina term or None for default
        for it in inner[1].get("inner", []):
            labs = []
            while it.get("kind") in ("CaseStmt", "DefaultStmt"):
                sub = [c for c in it.get("inner", []) if c]
                if it["kind"] == "CaseStmt":
                    if len(sub) != 2:
                        raise Unsupported("case range")
                    labs.append(self.toZ(self.ex(sub[0], env)))
                else:
                    if len(sub) != 1:
                        raise Unsupported("default label")
                    labs.append(None)
                it = sub[-1]
            if mentions(it, lambda x: x.get("kind") in ("CaseStmt", "DefaultStmt")) and it.get("kind") != "SwitchStmt":
                raise Unsupported("case label inside a nested statement")
            items.append((labs, it))
        if items and not items[0][0]:
            raise Unsupported("statement before the first case label of a switch")
        stmts = [it for (_, it) in items]
        kk = self.with_brk(self.brk, k)          # after the switch the outer break target is back
        d0, dall = set(self.dirty), set()
        saved, self.brk = self.brk, kk
        try:
            chain, dflt = [], None
            for j, (labs, _) in enumerate(items):
                if not labs:
                    continue
                self.dirty = set(d0)
                t = self.seq(stmts[j:], env, kk)
                dall |= self.dirty
                if None in labs:
                    dflt = t
                tests = [l for l in labs if l is not None]
                if tests:
                    chain.append(("(" + " || ".join("(%s =? %s)" % (sel, l) for l in tests) + ")" if len(tests) > 1
                                  else "(%s =? %s)" % (sel, tests[0]), t))
            if dflt is None:
                self.dirty = set(d0)
                dflt = kk(env)
                dall |= self.dirty
        finally:
            self.brk = saved
        self.dirty = dall | d0
        out = dflt
        for c, t in reversed(chain):
            out = "(if %s\n then %s\n else %s)" % (c, t, out)
        return out

    def stmt(self, n, env, k):
        kind = n.get("kind")
        if kind == "CompoundStmt":
            return self.seq(n.get("inner", []), env, k)
        if kind == "NullStmt":
            return k(env)
        if kind == "DeclStmt":
            ds = [d for d in n.get("inner", []) if d.get("kind") == "VarDecl"]

            def go(i, e):
                if i == len(ds):
                    return k(e)
                d = ds[i]
                if not d.get("inner"):
                    return go(i + 1, e)
                if self.is_alias_init(d):
                    b = strip(strip(d["inner"][0])["inner"][0])
                    self.alias[d["name"]] = self.alias.get(b["referencedDecl"]["name"], b["referencedDecl"]["name"])
                    return go(i + 1, e)
                if self.is_ptr(d) and self.path(d["inner"][0], e) is not None:
                    e2 = dict(e)
                    e2[d["name"]] = (self.path(d["inner"][0], e), "O")
                    return go(i + 1, e2)
                return self.assign(d["name"], self.ex(d["inner"][0], e), e, lambda e2: go(i + 1, e2))
            return go(0, env)
        if kind == "BinaryOperator" and n["opcode"] == "=":
            st = self.store_target(n)
            if st:
                if not (self.pure(strip(n["inner"][0])["inner"][1]) and self.pure(n["inner"][1])):
                    raise Unsupported("dropped store to '%s' has a side effect in its index or value" % st)
                self.dirty.add(st)
                return k(env)
            if self.elem(n["inner"][0], env):
                val = self.toZ(self.ex(n["inner"][1], env))
                return self.elem_assign(n["inner"][0], lambda old: val, env, k)
            v = self.lhs_name(n["inner"][0], env)
            if v is None:
                raise Unsupported("assignment to something that is not a scalar variable or a declared cell")
            if strip(n["inner"][0]).get("kind") == "DeclRefExpr" and self.is_ptr(n["inner"][0]) and self.path(n["inner"][1], env) is not None:
                e2 = dict(env)
                e2[v] = (self.path(n["inner"][1], env), "O")
                return k(e2)
            if v in self.cfg.get("override", {}):
                if not self.pure(n["inner"][1]):
                    raise Unsupported("overridden assignment to '%s' has a side effect" % v)
                return self.assign(v, self.cfg["override"][v], env, k)
            r = strip(n["inner"][1])
            if r.get("kind") == "MemberExpr" and r.get("name") == self.cfg.get("alias_field", "Store"):
                b = strip(r["inner"][0])
                self.alias[v] = self.alias.get(b["referencedDecl"]["name"], b["referencedDecl"]["name"])
                return k(env)
            return self.assign(v, self.ex(n["inner"][1], env), env, k)
        if kind == "CompoundAssignOperator":
            v = self.lhs_name(n["inner"][0], env)
            op = n["opcode"][:-1]
            if v is None or op not in "+-*":
                raise Unsupported("compound assignment %s" % n["opcode"])
            if self.elem(n["inner"][0], env):
                val = self.toZ(self.ex(n["inner"][1], env))
                return self.elem_assign(n["inner"][0], lambda old: "(%s %s %s)" % (old, op, val), env, k)
            return self.assign(v, ("(%s %s %s)" % (self.toZ(self.var(v, env)), op, self.toZ(self.ex(n["inner"][1], env))), "Z"), env, k)
        if kind == "UnaryOperator" and n["opcode"] in ("++", "--"):
            v = self.lhs_name(n["inner"][0], env)
            if self.elem(n["inner"][0], env):
                return self.elem_assign(n["inner"][0], lambda old: "(%s %s 1)" % (old, "+" if n["opcode"] == "++" else "-"), env, k)
            if v is None:
                raise Unsupported("++/-- of something that is not a scalar variable or a declared cell")
            return self.assign(v, ("(%s %s 1)" % (self.toZ(self.var(v, env)), "+" if n["opcode"] == "++" else "-"), "Z"), env, k)
        if kind == "CallExpr":
            cal = strip(n["inner"][0])
            name = cal.get("referencedDecl", {}).get("name")
            e2 = self.lock_call(name, n, env)
            if e2 is not None:
                return k(e2)
            if name in self.cfg.get("abort_calls", ()):
                if "on_abort" not in self.cfg:
                    raise Unsupported("call of '%s' (never returns) and no on_abort" % name)
                return self.cfg["on_abort"](self, env)
            if name in self.cfg.get("ignore_calls", ()):
                if not all(self.pure(a) for a in n["inner"][1:]):
                    raise Unsupported("ignored call of '%s' has a side effect in an argument" % name)
                return k(env)
            raise Unsupported("call statement of '%s' (not on the ignore list)" % name)
        if kind == "ReturnStmt":
            val = self.ex(n["inner"][0], env) if n.get("inner") else None
            return self.cfg["on_return"](self, env, val)
        if kind == "LabelStmt":
            return self.stmt(n["inner"][0], env, k)
        if kind == "GotoStmt":
            tgt = n.get("targetLabelDeclId")
            if not self.gorder:
                raise Unsupported("goto (the function body was not numbered: use translate_slice)")
            if self.gorder.get("L" + str(tgt), -1) < self.gorder.get(n["id"], 1 << 60):
                raise Unsupported("backward goto")
            if tgt not in self.labels:
                raise Unsupported("goto into a block that does not enclose it")
            return self.labels[tgt](env)
        if kind == "BreakStmt":
            if self.brk is None:
                raise Unsupported("break outside a switch (break in a loop is not translated)")
            return self.brk(env)
        if kind == "SwitchStmt":
            return self.switch(n, env, k)
        if kind == "IfStmt":
            inner = n["inner"]
            c = self.toB(self.ex(inner[0], env))
            th = inner[1]
            el = inner[2] if len(inner) > 2 else {"kind": "NullStmt"}
            d0 = set(self.dirty)
            if self.may_return(th) or self.may_return(el) or self.cfg.get("dup_ifs"):
                # every path carries its own continuation: the dropped-store bookkeeping is exact per path
                t1 = self.stmt(th, env, k)
                d1 = set(self.dirty)
                self.dirty = set(d0)
                t2 = self.stmt(el, env, k)
                self.dirty |= d1
                return "(if %s\n then %s\n else %s)" % (c, t1, t2)
            vs = []
            self.assigned(th, vs, env)
            self.assigned(el, vs, env)
            loc = [v for v in vs if v not in env]
            if loc and not self.cfg.get("local_temps"):
                raise Unsupported("variable '%s' is assigned in one branch of an if without a value before it" % loc[0])
            vs = self.order([v for v in vs if v in env])
            envl = {x: y for x, y in env.items()}
            if not vs:
                # nothing that lives on is assigned: the statement is dropped, but its dropped stores count
                self.stores_in(th, self.dirty)
                self.stores_in(el, self.dirty)
                return k(env)
            fin = lambda e: self.tup([e[v][0] if e[v][1] == env[v][1] else (self.toZ(e[v]) if env[v][1] == "Z" else self.toB(e[v])) for v in vs])
            news = [self.fresh(v.replace("*", "").replace(".", "_"), env[v][1]) for v in vs]
            env2 = dict(env)
            for v, nm in zip(vs, news):
                env2[v] = (nm, env[v][1])
            t1 = self.stmt(th, envl, fin)
            d1 = set(self.dirty)
            self.dirty = set(d0)
            t2 = self.stmt(el, envl, fin)
            self.dirty |= d1
            return "let %s :=\n  (if %s\n   then %s\n   else %s) in\n%s" % (self.pat(news), c, t1, t2, k(env2))
        if kind == "ForStmt":
            init, _cv, cond, inc, body = (n["inner"] + [None] * 5)[:5]
            if self.may_return(body):
                raise Unsupported("return inside a for loop")
            # init: i = a
            if not init or init.get("kind") != "BinaryOperator" or init["opcode"] != "=":
                raise Unsupported("for-loop initialiser is not `i = a`")
            iv = self.lhs_name(init["inner"][0])
            a = self.toZ(self.ex(init["inner"][1], env))
            cnd = strip(cond) if cond else {}
            if cnd.get("kind") != "BinaryOperator" or cnd["opcode"] not in ("<", "<=") or self.lhs_name(cnd["inner"][0]) != iv:
                raise Unsupported("for-loop condition is not `i < b` / `i <= b`")
            b = self.toZ(self.ex(cnd["inner"][1], env))
            if cnd["opcode"] == "<=":
                b = "(%s + 1)" % b
            ic = strip(inc) if inc else {}
            if not (ic.get("kind") == "UnaryOperator" and ic["opcode"] == "++" and self.lhs_name(ic["inner"][0]) == iv):
                raise Unsupported("for-loop increment is not ++i / i++")
            vs = []
            self.assigned(body, vs, env)
            if iv in vs:
                raise Unsupported("for-loop body assigns the loop variable")
            loc = [v for v in vs if v not in env]
            if loc and not self.cfg.get("local_temps"):
                raise Unsupported("variable '%s' is assigned in a loop body without a value before the loop" % loc[0])
            vs = self.order([v for v in vs if v in env])
            # a store dropped anywhere in the body is visible to every read in the body (next iteration)
            self.stores_in(body, self.dirty)
            ivn = self.fresh(iv)
            stn = [self.fresh(v.replace("*", "").replace(".", "_"), env[v][1]) for v in vs]
            envb = dict(env)
            envb[iv] = (ivn, "Z")
            for v, nm in zip(vs, stn):
                envb[v] = (nm, env[v][1])
            fin = lambda e: self.tup([e[v][0] if e[v][1] == env[v][1] else (self.toZ(e[v]) if env[v][1] == "Z" else self.toB(e[v])) for v in vs])
            saved, self.brk = self.brk, None
            try:
                bodyt = self.stmt(body, envb, fin)
            finally:
                self.brk = saved
            news = [self.fresh(v.replace("*", "").replace(".", "_"), env[v][1]) for v in vs]
            env2 = dict(env)
            for v, nm in zip(vs, news):
                env2[v] = (nm, env[v][1])
            env2[iv] = ("(Z.max %s %s)" % (a, b), "Z")
            if not vs:
                return k(env2)
            init = self.tup([env[v][0] for v in vs])
            if self.cfg.get("lift_loops"):
                # the body as a definition of its own, abstracted over the outer names it mentions
                import re
                toks = set(re.findall(r"[A-Za-z_][A-Za-z0-9_']*", bodyt))
                bound = set(stn) | {ivn}
                frees = [(g, t) for (g, t) in self.cfg.get("params", []) if g in toks and g not in bound]
                outer = [(nm, "bool" if ty == "B" else "Z") for nm, ty in self.lets.items() if nm in toks and nm not in bound
                         and any(e[0] == nm for e in env.values())]
                outer.sort(key=lambda x: int(x[0].rsplit("_", 1)[1]))
                frees += outer
                sty = " * ".join("bool" if env[v][1] == "B" else "Z" for v in vs)
                lname = "%s_loop%d" % (self.cfg["lift_loops"], len(self.lifted) + 1)
                self.lifted.append((lname, "Definition %s %s (st_ : %s) (%s : Z) : %s :=\n  let %s := st_ in\n    %s.\n" % (
                    lname, " ".join("(%s : %s)" % f for f in frees), sty, ivn, sty, self.pat(stn), bodyt),
                    [v for v in vs], [f[0] for f in frees]))
                return "let %s :=\n  fold_left (%s)\n    (zrange %s %s) %s in\n%s" % (
                    self.pat(news), " ".join([lname] + [f[0] for f in frees]), a, b, init, k(env2))
            return "let %s :=\n  fold_left (fun st_ %s => let %s := st_ in\n    %s)\n    (zrange %s %s) %s in\n%s" % (
                self.pat(news), ivn, self.pat(stn), bodyt, a, b, init, k(env2))
        raise Unsupported("statement kind %s" % kind)


def translate_slice(fn_ast, cfg, start=None, stop=None, final=None):
    """translate the statements of the function body from the first one for which start(stmt) holds (default: the first) up to,
    not including, the first later one for which stop(stmt) holds; `final(tr, env)` gives the result expression"""
    body = [c for c in fn_ast["inner"] if c.get("kind") == "CompoundStmt"][0]
    stmts = body.get("inner", [])
    i0 = 0
    if start:
        i0 = next((i for i, s in enumerate(stmts) if start(s)), None)
        if i0 is None:
            raise Unsupported("start of the slice not found")
    i1 = len(stmts)
    if stop:
        i1 = next((i for i in range(i0, len(stmts)) if stop(stmts[i])), None)
        if i1 is None:
            raise Unsupported("end of the slice not found")
    tr = Tr(cfg)
    tr.number(body)
    env = dict(cfg.get("inputs", {}))
    # declarations before the slice may set up aliases (Xstore = X->Store) and plain initialised locals
    for s in stmts[:i0]:
        if s.get("kind") == "DeclStmt":
            for d in s.get("inner", []):
                if d.get("kind") == "VarDecl" and tr.is_alias_init(d):
                    b = strip(strip(d["inner"][0])["inner"][0])
                    tr.alias[d["name"]] = tr.alias.get(b["referencedDecl"]["name"], b["referencedDecl"]["name"])
    return tr.seq(stmts[i0:i1], env, lambda e: final(tr, e))


def decl_order(fn_ast):
    """the variables of a function in the order of their declaration: cells `*p` / parameters first, then locals"""
    out = []

    def go(n):
        if n.get("kind") in ("ParmVarDecl", "VarDecl") and n.get("name"):
            for nm in (n["name"], "*" + n["name"]):
                if nm not in out:
                    out.append(nm)
        for c in n.get("inner", []):
            if c:
                go(c)
    go(fn_ast)
    return out


def mentions(n, pred):
    if pred(n):
        return True
    return any(mentions(c, pred) for c in n.get("inner", []) if c)
