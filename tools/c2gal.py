#!/usr/bin/env python3
"""c2gal.py -- translator from a small subset of C (as parsed by clang: `-Xclang -ast-dump=json`) to Gallina.

Purpose: pieces of /repo/SRC that are pure decision logic over integers (argument tests, pivot policy, allocator arithmetic)
are RE-TRANSLATED from the current source on every run into coq/*Gen.v; hand-written `*Tie.v` files prove that the generated
definitions equal the hand-written models the property theorems talk about.  A source change that alters the logic changes
the generated definition and breaks the tie theorem (a proof obligation of the property).

Subset: a slice of one function body made of
  declarations with initialisers, assignments to scalar locals / to `*p` for pointer parameters declared as cells,
  compound assignments, ++/--, if / else (nested), `for (i = a; i < b; ++i)` loops without break/return in the body,
  `return e;` (ends the translation of its path), calls on an ignore list, null statements.
Expressions: integer and character literals, enum constants (-> c_NAME of Consts.v), variables, `p->field` through a field
map, unary ! - *, binary || && == != < <= > >= + - * / %, ?: (SUPERLU_MAX/MIN expand to it), casts and parentheses,
calls through per-name handlers, array reads `a[i]` of arrays declared as functions.
Everything else stops the translation with an error (reported by the check as a broken translator), never silently skipped.

Translation scheme: static single assignment with `let`; an `if` whose branches only assign becomes
`let '(x1, .., xk) := if c then (..) else (..) in rest` over the variables assigned in either branch; an `if` with a branch
that returns duplicates the rest into the other branch; a for loop becomes `fold_left` over `zrange a b` with the tuple of
the variables its body assigns as the state.  C truth values: comparisons and logical operators give bool; an integer used as
a condition becomes `negb (e =? 0)`; a bool used as an integer becomes `(if e then 1 else 0)`.
"""
import json, subprocess, sys, os

CLANG_FLAGS = ["-fsyntax-only", "-w", "-D__PTHREAD", "-DAdd_", "-I/repo/SRC"]


class Unsupported(Exception):
    pass


def load_function(cfile, fname, incdir=None, extra=()):
    flags = list(CLANG_FLAGS)
    if incdir:
        flags = [f if not f.startswith("-I") else "-I" + incdir for f in flags]
    cmd = ["clang"] + flags + list(extra) + ["-Xclang", "-ast-dump=json", "-Xclang", "-ast-dump-filter=" + fname, cfile]
    p = subprocess.run(cmd, stdout=subprocess.PIPE, stderr=subprocess.PIPE, universal_newlines=True, timeout=120)
    if p.returncode != 0:
        raise Unsupported("clang failed on %s: %s" % (cfile, p.stderr[-300:]))
    txt = p.stdout
    dec = json.JSONDecoder()
    i = 0
    while i < len(txt):
        while i < len(txt) and txt[i].isspace():
            i += 1
        if i >= len(txt):
            break
        o, i = dec.raw_decode(txt, i)
        if o.get("kind") == "FunctionDecl" and o.get("name") == fname and any(c.get("kind") == "CompoundStmt" for c in o.get("inner", [])):
            return o
    raise Unsupported("no definition of %s in %s" % (fname, cfile))


def strip(n):
    while n.get("kind") in ("ImplicitCastExpr", "ParenExpr", "CStyleCastExpr", "ConstantExpr"):
        n = n["inner"][0]
    return n


class Tr:
    """cfg keys:
         inputs   {c_name: (gallina_name, 'Z'|'B')}    variables readable from the start (parameters, pre-set locals)
         cells    set of pointer parameters p whose `*p` is a mutable scalar (also listed in inputs if read before written)
         fields   {field_name: accessor}               p->field  ==>  (accessor P)  with P the gallina name of p (after aliasing)
         alias_field  name of the field whose value makes a local an alias of its base (e.g. 'Store')
         arrays   {c_name: gallina function name}      a[i] ==> (f i)
         calls    {callee: handler(tr, args_nodes, env) -> (str, ty)}
         ignore_calls  set of callee names whose call statements are dropped (no effect on the translated variables)
         override {var: (gallina_term, ty)}            an assignment to var takes this value instead of the C right-hand side
         zero_float  True: floating literals 0.0 are the integer 0 (scaled-magnitude models)"""

    def __init__(self, cfg):
        self.cfg = cfg
        self.n = 0
        self.alias = {}

    def fresh(self, v):
        self.n += 1
        return "%s_%d" % (v, self.n)

    # ------------------------------------------------------------------ expressions
    def toB(self, et):
        e, t = et
        return e if t == "B" else "(negb (%s =? 0))" % e

    def toZ(self, et):
        e, t = et
        return e if t == "Z" else "(if %s then 1 else 0)" % e

    def var(self, name, env):
        if name in env:
            return env[name]
        raise Unsupported("variable '%s' is read before the translated slice assigns it and is not declared as an input" % name)

    def ex(self, n, env):
        k = n.get("kind")
        if k in ("ImplicitCastExpr", "ParenExpr", "CStyleCastExpr", "ConstantExpr"):
            return self.ex(n["inner"][0], env)
        if k == "IntegerLiteral":
            return (n["value"], "Z")
        if k == "CharacterLiteral":
            return (str(n["value"]), "Z")
        if k == "FloatingLiteral":
            if self.cfg.get("zero_float") and float(n["value"]) == 0.0:
                return ("0", "Z")
            raise Unsupported("floating literal %s" % n.get("value"))
        if k == "DeclRefExpr":
            rd = n["referencedDecl"]
            if rd["kind"] == "EnumConstantDecl":
                return ("c_" + rd["name"], "Z")
            return self.var(rd["name"], env)
        if k == "MemberExpr":
            base = strip(n["inner"][0])
            if base.get("kind") != "DeclRefExpr":
                raise Unsupported("member access on a non-variable")
            b = base["referencedDecl"]["name"]
            b = self.alias.get(b, b)
            f = n["name"]
            if f not in self.cfg.get("fields", {}):
                raise Unsupported("field '%s' has no accessor" % f)
            return ("(%s %s)" % (self.cfg["fields"][f], self.var(b, env)[0]), "Z")
        if k == "ArraySubscriptExpr":
            base = strip(n["inner"][0])
            if base.get("kind") == "DeclRefExpr" and base["referencedDecl"]["name"] in self.cfg.get("arrays", {}):
                return ("(%s %s)" % (self.cfg["arrays"][base["referencedDecl"]["name"]], self.toZ(self.ex(n["inner"][1], env))), "Z")
            raise Unsupported("array read of an undeclared array")
        if k == "UnaryOperator":
            op = n["opcode"]
            if op == "!":
                return ("(negb %s)" % self.toB(self.ex(n["inner"][0], env)), "B")
            if op == "-":
                return ("(- %s)" % self.toZ(self.ex(n["inner"][0], env)), "Z")
            if op == "+":
                return self.ex(n["inner"][0], env)
            if op == "*":
                b = strip(n["inner"][0])
                if b.get("kind") == "DeclRefExpr" and b["referencedDecl"]["name"] in self.cfg.get("cells", ()):
                    return self.var("*" + b["referencedDecl"]["name"], env)
                raise Unsupported("dereference of something that is not a declared cell")
            raise Unsupported("unary operator %s in an expression" % op)
        if k == "BinaryOperator":
            op = n["opcode"]
            a, b = n["inner"]
            if op in ("||", "&&"):
                return ("(%s %s %s)" % (self.toB(self.ex(a, env)), op, self.toB(self.ex(b, env))), "B")
            cmpop = {"==": "=?", "<": "<?", "<=": "<=?", ">": ">?", ">=": ">=?"}
            if op in cmpop:
                return ("(%s %s %s)" % (self.toZ(self.ex(a, env)), cmpop[op], self.toZ(self.ex(b, env))), "B")
            if op == "!=":
                return ("(negb (%s =? %s))" % (self.toZ(self.ex(a, env)), self.toZ(self.ex(b, env))), "B")
            ar = {"+": "+", "-": "-", "*": "*"}
            if op in ar:
                return ("(%s %s %s)" % (self.toZ(self.ex(a, env)), ar[op], self.toZ(self.ex(b, env))), "Z")
            if op == "/":
                return ("(Z.quot %s %s)" % (self.toZ(self.ex(a, env)), self.toZ(self.ex(b, env))), "Z")
            if op == "%":
                return ("(Z.rem %s %s)" % (self.toZ(self.ex(a, env)), self.toZ(self.ex(b, env))), "Z")
            raise Unsupported("binary operator %s in an expression" % op)
        if k == "ConditionalOperator":
            c, a, b = n["inner"]
            ea, eb = self.ex(a, env), self.ex(b, env)
            if ea[1] == eb[1]:
                return ("(if %s then %s else %s)" % (self.toB(self.ex(c, env)), ea[0], eb[0]), ea[1])
            return ("(if %s then %s else %s)" % (self.toB(self.ex(c, env)), self.toZ(ea), self.toZ(eb)), "Z")
        if k == "CallExpr":
            cal = strip(n["inner"][0])
            name = cal.get("referencedDecl", {}).get("name")
            h = self.cfg.get("calls", {}).get(name)
            if h is None:
                raise Unsupported("call of '%s' inside an expression" % name)
            return h(self, n["inner"][1:], env)
        raise Unsupported("expression kind %s" % k)

    # ------------------------------------------------------------------ statements: analysis
    def lhs_name(self, n):
        """name of the translated variable an lvalue denotes, or None"""
        n = strip(n)
        if n.get("kind") == "DeclRefExpr":
            return n["referencedDecl"]["name"]
        if n.get("kind") == "UnaryOperator" and n["opcode"] == "*":
            b = strip(n["inner"][0])
            if b.get("kind") == "DeclRefExpr" and b["referencedDecl"]["name"] in self.cfg.get("cells", ()):
                return "*" + b["referencedDecl"]["name"]
        return None

    def assigned(self, n, acc):
        k = n.get("kind")
        if k in ("BinaryOperator", "CompoundAssignOperator") and (n["opcode"] == "=" or k == "CompoundAssignOperator"):
            v = self.lhs_name(n["inner"][0])
            if v is None:
                raise Unsupported("assignment to something that is not a scalar variable or a declared cell")
            if v not in acc:
                acc.append(v)
            return
        if k == "UnaryOperator" and n["opcode"] in ("++", "--"):
            v = self.lhs_name(n["inner"][0])
            if v is None:
                raise Unsupported("++/-- of a non-variable")
            if v not in acc:
                acc.append(v)
            return
        if k == "DeclStmt":
            for d in n.get("inner", []):
                if d.get("kind") == "VarDecl" and d.get("inner") and not self.is_alias_init(d):
                    if d["name"] not in acc:
                        acc.append(d["name"])
            return
        if k in ("CompoundStmt", "IfStmt", "ForStmt"):
            for c in n.get("inner", []):
                if c:
                    if k == "IfStmt" and c is n["inner"][0]:
                        continue
                    self.assigned(c, acc)

    def may_return(self, n):
        if n.get("kind") == "ReturnStmt":
            return True
        return any(self.may_return(c) for c in n.get("inner", []) if c)

    def is_alias_init(self, d):
        if not d.get("inner"):
            return False
        i = strip(d["inner"][0])
        return i.get("kind") == "MemberExpr" and i.get("name") == self.cfg.get("alias_field", "Store")

    # ------------------------------------------------------------------ statements: translation (continuation style)
    def tup(self, names):
        return names[0] if len(names) == 1 else "(" + ", ".join(names) + ")"

    def pat(self, names):
        return names[0] if len(names) == 1 else "'(" + ", ".join(names) + ")"

    def assign(self, v, et, env, rest):
        if v in self.cfg.get("override", {}):
            et = self.cfg["override"][v]
        nm = self.fresh(v.replace("*", ""))
        env2 = dict(env)
        env2[v] = (nm, et[1])
        return "let %s := %s in\n%s" % (nm, et[0], rest(env2))

    def seq(self, stmts, env, k):
        if not stmts:
            return k(env)
        return self.stmt(stmts[0], env, lambda e: self.seq(stmts[1:], e, k))

    def stmt(self, n, env, k):
        kind = n.get("kind")
        if kind == "CompoundStmt":
            return self.seq(n.get("inner", []), env, k)
        if kind == "NullStmt":
            return k(env)
        if kind == "DeclStmt":
            ds = [d for d in n.get("inner", []) if d.get("kind") == "VarDecl"]

            def go(i, e):
                if i == len(ds):
                    return k(e)
                d = ds[i]
                if not d.get("inner"):
                    return go(i + 1, e)
                if self.is_alias_init(d):
                    b = strip(strip(d["inner"][0])["inner"][0])
                    self.alias[d["name"]] = self.alias.get(b["referencedDecl"]["name"], b["referencedDecl"]["name"])
                    return go(i + 1, e)
                return self.assign(d["name"], self.ex(d["inner"][0], e), e, lambda e2: go(i + 1, e2))
            return go(0, env)
        if kind == "BinaryOperator" and n["opcode"] == "=":
            v = self.lhs_name(n["inner"][0])
            if v is None:
                raise Unsupported("assignment to something that is not a scalar variable or a declared cell")
            r = strip(n["inner"][1])
            if r.get("kind") == "MemberExpr" and r.get("name") == self.cfg.get("alias_field", "Store"):
                b = strip(r["inner"][0])
                self.alias[v] = self.alias.get(b["referencedDecl"]["name"], b["referencedDecl"]["name"])
                return k(env)
            return self.assign(v, self.ex(n["inner"][1], env), env, k)
        if kind == "CompoundAssignOperator":
            v = self.lhs_name(n["inner"][0])
            op = n["opcode"][:-1]
            if v is None or op not in "+-*":
                raise Unsupported("compound assignment %s" % n["opcode"])
            return self.assign(v, ("(%s %s %s)" % (self.toZ(self.var(v, env)), op, self.toZ(self.ex(n["inner"][1], env))), "Z"), env, k)
        if kind == "UnaryOperator" and n["opcode"] in ("++", "--"):
            v = self.lhs_name(n["inner"][0])
            return self.assign(v, ("(%s %s 1)" % (self.toZ(self.var(v, env)), "+" if n["opcode"] == "++" else "-"), "Z"), env, k)
        if kind == "CallExpr":
            cal = strip(n["inner"][0])
            name = cal.get("referencedDecl", {}).get("name")
            if name in self.cfg.get("ignore_calls", ()):
                return k(env)
            raise Unsupported("call statement of '%s' (not on the ignore list)" % name)
        if kind == "ReturnStmt":
            val = self.ex(n["inner"][0], env) if n.get("inner") else None
            return self.cfg["on_return"](self, env, val)
        if kind == "IfStmt":
            inner = n["inner"]
            c = self.toB(self.ex(inner[0], env))
            th = inner[1]
            el = inner[2] if len(inner) > 2 else {"kind": "NullStmt"}
            if self.may_return(th) or self.may_return(el):
                return "(if %s\n then %s\n else %s)" % (c, self.stmt(th, env, k), self.stmt(el, env, k))
            vs = []
            self.assigned(th, vs)
            self.assigned(el, vs)
            if not vs:
                return k(env)
            for v in vs:
                if v not in env:
                    raise Unsupported("variable '%s' is assigned in one branch of an if without a value before it" % v)
            fin = lambda e: self.tup([e[v][0] if e[v][1] == env[v][1] else (self.toZ(e[v]) if env[v][1] == "Z" else self.toB(e[v])) for v in vs])
            news = [self.fresh(v.replace("*", "")) for v in vs]
            env2 = dict(env)
            for v, nm in zip(vs, news):
                env2[v] = (nm, env[v][1])
            return "let %s :=\n  (if %s\n   then %s\n   else %s) in\n%s" % (self.pat(news), c, self.stmt(th, env, fin), self.stmt(el, env, fin), k(env2))
        if kind == "ForStmt":
            init, _cv, cond, inc, body = (n["inner"] + [None] * 5)[:5]
            if self.may_return(body):
                raise Unsupported("return inside a for loop")
            # init: i = a
            if not init or init.get("kind") != "BinaryOperator" or init["opcode"] != "=":
                raise Unsupported("for-loop initialiser is not `i = a`")
            iv = self.lhs_name(init["inner"][0])
            a = self.toZ(self.ex(init["inner"][1], env))
            cnd = strip(cond) if cond else {}
            if cnd.get("kind") != "BinaryOperator" or cnd["opcode"] not in ("<", "<=") or self.lhs_name(cnd["inner"][0]) != iv:
                raise Unsupported("for-loop condition is not `i < b` / `i <= b`")
            b = self.toZ(self.ex(cnd["inner"][1], env))
            if cnd["opcode"] == "<=":
                b = "(%s + 1)" % b
            ic = strip(inc) if inc else {}
            if not (ic.get("kind") == "UnaryOperator" and ic["opcode"] == "++" and self.lhs_name(ic["inner"][0]) == iv):
                raise Unsupported("for-loop increment is not ++i / i++")
            vs = []
            self.assigned(body, vs)
            if iv in vs:
                raise Unsupported("for-loop body assigns the loop variable")
            for v in vs:
                if v not in env:
                    raise Unsupported("variable '%s' is assigned in a loop body without a value before the loop" % v)
            ivn = self.fresh(iv)
            stn = [self.fresh(v.replace("*", "")) for v in vs]
            envb = dict(env)
            envb[iv] = (ivn, "Z")
            for v, nm in zip(vs, stn):
                envb[v] = (nm, env[v][1])
            fin = lambda e: self.tup([e[v][0] if e[v][1] == env[v][1] else (self.toZ(e[v]) if env[v][1] == "Z" else self.toB(e[v])) for v in vs])
            bodyt = self.stmt(body, envb, fin)
            news = [self.fresh(v.replace("*", "")) for v in vs]
            env2 = dict(env)
            for v, nm in zip(vs, news):
                env2[v] = (nm, env[v][1])
            env2[iv] = ("(Z.max %s %s)" % (a, b), "Z")
            if not vs:
                return k(env2)
            return "let %s :=\n  fold_left (fun st_ %s => let %s := st_ in\n    %s)\n    (zrange %s %s) %s in\n%s" % (
                self.pat(news), ivn, self.pat(stn), bodyt, a, b, self.tup([env[v][0] for v in vs]), k(env2))
        raise Unsupported("statement kind %s" % kind)


def translate_slice(fn_ast, cfg, start=None, stop=None, final=None):
    """translate the statements of the function body from the first one for which start(stmt) holds (default: the first) up to,
    not including, the first later one for which stop(stmt) holds; `final(tr, env)` gives the result expression"""
    body = [c for c in fn_ast["inner"] if c.get("kind") == "CompoundStmt"][0]
    stmts = body.get("inner", [])
    i0 = 0
    if start:
        i0 = next((i for i, s in enumerate(stmts) if start(s)), None)
        if i0 is None:
            raise Unsupported("start of the slice not found")
    i1 = len(stmts)
    if stop:
        i1 = next((i for i in range(i0, len(stmts)) if stop(stmts[i])), None)
        if i1 is None:
            raise Unsupported("end of the slice not found")
    tr = Tr(cfg)
    env = dict(cfg.get("inputs", {}))
    # declarations before the slice may set up aliases (Xstore = X->Store) and plain initialised locals
    for s in stmts[:i0]:
        if s.get("kind") == "DeclStmt":
            for d in s.get("inner", []):
                if d.get("kind") == "VarDecl" and tr.is_alias_init(d):
                    b = strip(strip(d["inner"][0])["inner"][0])
                    tr.alias[d["name"]] = tr.alias.get(b["referencedDecl"]["name"], b["referencedDecl"]["name"])
    return tr.seq(stmts[i0:i1], env, lambda e: final(tr, e))


def mentions(n, pred):
    if pred(n):
        return True
    return any(mentions(c, pred) for c in n.get("inner", []) if c)
