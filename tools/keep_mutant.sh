#!/bin/sh
# usage: tools/keep_mutant.sh <id> [<name> [<worktree>]]  -- copy a confirmed seeded change from its scratch worktree into
# /verif/seeded/<name> and drop the worktree
id=$1; name=${2:-$1}; wt=${3:-/tmp/mut/$name}
d=/verif/seeded/$name; mkdir -p $d
cp $wt/out/patch.diff $wt/out/meta.json $d/ || exit 1
for f in demo.c run.sh demo.sh demo.py; do [ -f $wt/out/$f ] && cp $wt/out/$f $d/; done
git -C /repo worktree remove --force $wt && echo "worktree $wt removed"
