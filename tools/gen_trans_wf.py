#!/usr/bin/env python3
"""usage: gen_trans_wf.py <repo> <coqdir>  -- the countnz / fixupL part of the translator driver (tools/gen_trans.py calls gen_wf()):
     coq/WellFormedGen.v   countnz and fixupL of SRC/util.c, the two routines that turn the factorization's internal structure
                           (GlobalLU_t) into the L and U the caller receives (p?gstrf_thread_finalize calls them)
   re-translated from the current source on every run with tools/c2gal_wf.py (an extension of tools/c2gal_sched.py: pointer locals
   assigned at the top level, a locally allocated array as a fresh list cell, dropped statistics variables, descending for loops
   with a compound condition as bounded iterations).  The tie theorems (generated definition = WellFormedModel.countnz / fixupL)
   are in the hand-written coq/WellFormedTie.v.  A function that cannot be translated is left out with the reason in a comment:
   its tie theorem then fails to compile."""
import sys, os
sys.path.insert(0, os.path.dirname(os.path.abspath(__file__)))
import c2gal_wf as c2gal
from c2gal_wf import Unsupported, strip, mentions

REPO = sys.argv[1] if len(sys.argv) > 1 else "/repo"
COQ = sys.argv[2] if len(sys.argv) > 2 else os.path.join(os.path.dirname(os.path.dirname(os.path.abspath(__file__))), "coq")
SRC = os.path.join(REPO, "SRC")


def write_if_changed(path, txt):
    if os.path.exists(path) and open(path).read() == txt:
        return
    open(path, "w").write(txt)


GLU = "Glu"
# (path, gallina binder, kind, read-only)
COUNTNZ_MEM = [
    (GLU + ".xsup[]",      "xsup",      "array", True),
    (GLU + ".xsup_end[]",  "xsup_end",  "array", True),
    (GLU + ".xlsub[]",     "xlsub",     "array", True),
    (GLU + ".xlsub_end[]", "xlsub_end", "array", True),
    (GLU + ".supno[]",     "supno",     "array", True),
    (GLU + ".nextu",       "nextu",     "cell",  True),
]
FIXUPL_MEM = [
    ("perm_r[]",           "perm_r",    "array", True),
    (GLU + ".xsup[]",      "xsup",      "array", True),
    (GLU + ".xsup_end[]",  "xsup_end",  "array", True),
    (GLU + ".supno[]",     "supno",     "array", True),
    (GLU + ".lsub[]",      "lsub",      "array", False),
    (GLU + ".xlsub[]",     "xlsub",     "array", False),
    (GLU + ".xlsub_end[]", "xlsub_end", "array", False),
    ("order[]",            "order",     "array", False),       # allocated in the routine (intMalloc), freed at its end
]
WF_IGNORE = {"printf", "fflush"}            # only under PRNTlevel (not compiled); no effect on the translated state
WF_FREE = {"superlu_free"}                  # SUPERLU_FREE(addr) = USER_FREE(addr) = superlu_free(addr)
WF_ALLOC = {"intMalloc": "junk"}            # pmemory.c: malloc of n int_t, exits the process on failure (never returns NULL)


def translate(fn, cfg, result):
    body = [c for c in fn["inner"] if c.get("kind") == "CompoundStmt"][0]
    if mentions(body, lambda x: x.get("kind") in ("GotoStmt", "LabelStmt")):
        raise Unsupported("goto / label in the routine")
    tr = c2gal.Tr(cfg)
    tr.mark_toplevel(body)
    term = tr.seq(body.get("inner", []), dict(cfg["inputs"]), lambda e: result(tr, e))
    return tr, term


def emit(out, tr, header, term):
    for l in tr.lifted:
        out.append("(* state %s; outer names %s *)" % (", ".join(l[2]), ", ".join(l[3])))
        out.append(l[1])
    out.append("%s :=\n%s.\n" % (header, term))


def gen_wf():
    out = ["(* GENERATED on every run by tools/gen_trans.py (tools/gen_trans_wf.py, translator tools/c2gal_wf.py, clang AST, pthread build,",
           "   built WITHOUT -DSLU_MT_VERIF, PRNTlevel 0) from countnz and fixupL of %s/util.c -- do not edit." % SRC,
           "   Arrays of the GlobalLU_t image are lists read with zn and written with zupd (WellFormedModel.v: a read outside the list",
           "   gives the marker OOB, a store outside it is dropped); int_t arithmetic is arithmetic in Z; distinct arrays do not overlap.",
           "   gen_countnz n xsup xsup_end xlsub xlsub_end supno nextu = ( *nnzL, *nnzU ) at the return; the statistics nnzL0 and nnzsup",
           "     (read by nothing but printf under PRNTlevel) are dropped together with the statements that only feed them, so xprune",
           "     is not an argument.",
           "   gen_fixupL n perm_r xsup xsup_end supno lsub xlsub xlsub_end junk = (lsub, xlsub, xlsub_end) at the return; junk i is the",
           "     unknown value intMalloc leaves in entry i of the scratch array order[] (allocZ of C2GalWf.v), which is freed at the end.",
           "   Loop bodies are definitions of their own: <f>_loop<k> for `for (i = a; i < b; i++)` (fold_left over zrange a b),",
           "   <f>_down<k> for the descending `for (j = a; j >= b && c; j--)` (a bounded iteration, see tools/c2gal_wf.py); tuples list",
           "   variables in declaration order, then the arrays in the order of the argument list. *)",
           "Require Import ZArith List Bool.", "From SLU Require Import C2GalLib C2GalWf WellFormedModel.", "Local Open Scope Z_scope.", "Local Open Scope bool_scope.", ""]
    ok = 0
    cfile = os.path.join(SRC, "util.c")

    def on_return_void(result):
        def h(tr, env, val):
            if val is not None:
                raise Unsupported("the routine returns a value")
            return result(tr, env)
        return h

    # ---------------------------------------------------------------- countnz
    gname = "gen_countnz"
    try:
        fn = c2gal.load_function(cfile, "countnz", incdir=SRC)
        pnames = [c.get("name") for c in fn.get("inner", []) if c.get("kind") == "ParmVarDecl"]
        if pnames != ["n", "xprune", "nnzL", "nnzU", GLU]:
            raise Unsupported("unexpected parameter list %s" % pnames)
        mem = {p: (g, kind, ro) for (p, g, kind, ro) in COUNTNZ_MEM}
        inputs = {p: (g, "L" if kind == "array" else "Z") for (p, g, kind, ro) in COUNTNZ_MEM}
        inputs["n"] = ("n", "Z")
        params = [("n", "Z")] + [(g, "list Z" if kind == "array" else "Z") for (p, g, kind, ro) in COUNTNZ_MEM]

        def result(tr, env):
            for o in ("*nnzL", "*nnzU"):
                if o not in env:
                    raise Unsupported("%s has no value at a return" % o)
            return "(%s, %s)" % (tr.toZ(env["*nnzL"]), tr.toZ(env["*nnzU"]))
        cfg = {"inputs": inputs, "cells": {"nnzL", "nnzU"}, "pointers": {GLU: GLU}, "mem": mem, "list_ops": ("zn", "zupd"),
               "ignore_calls": WF_IGNORE, "on_return": on_return_void(result), "ptr_assign": True, "drop_vars": {"nnzL0", "nnzsup"},
               "local_temps": True, "lift_loops": gname, "dedupe_loops": True, "params": params,
               "state_order": c2gal.decl_order(fn) + [p for (p, _, _, _) in COUNTNZ_MEM]}
        tr, term = translate(fn, cfg, result)
        out.append("(* util.c : countnz *)")
        emit(out, tr, "Definition %s %s : Z * Z" % (gname, " ".join("(%s : %s)" % b for b in params)), term)
        ok += 1
    except Unsupported as e:
        out.append("(* %s NOT TRANSLATED: %s *)\n" % (gname, str(e).replace("*)", "* )")))

    # ---------------------------------------------------------------- fixupL
    gname = "gen_fixupL"
    try:
        fn = c2gal.load_function(cfile, "fixupL", incdir=SRC)
        pnames = [c.get("name") for c in fn.get("inner", []) if c.get("kind") == "ParmVarDecl"]
        if pnames != ["n", "perm_r", GLU]:
            raise Unsupported("unexpected parameter list %s" % pnames)
        mem = {p: (g, kind, ro) for (p, g, kind, ro) in FIXUPL_MEM}
        inputs = {p: (g, "L" if kind == "array" else "Z") for (p, g, kind, ro) in FIXUPL_MEM if p != "order[]"}
        inputs["n"] = ("n", "Z")
        params = [("n", "Z")] + [(g, "list Z") for (p, g, kind, ro) in FIXUPL_MEM if p != "order[]"] + [("junk", "Z -> Z")]
        outs = [GLU + ".lsub[]", GLU + ".xlsub[]", GLU + ".xlsub_end[]"]

        def result(tr, env):
            if "order[]" in env:
                raise Unsupported("the routine returns without freeing order[]")
            return "(%s)" % ", ".join(env[o][0] for o in outs)
        cfg = {"inputs": inputs, "pointers": {GLU: GLU, "perm_r": "perm_r"}, "mem": mem, "list_ops": ("zn", "zupd"),
               "ignore_calls": WF_IGNORE, "on_return": on_return_void(result), "ptr_assign": True, "alloc_calls": WF_ALLOC,
               "free_calls": WF_FREE, "down_loops": True,
               "local_temps": True, "lift_loops": gname, "dedupe_loops": True, "params": params,
               "state_order": c2gal.decl_order(fn) + [p for (p, _, _, _) in FIXUPL_MEM]}
        tr, term = translate(fn, cfg, result)
        out.append("(* util.c : fixupL *)")
        emit(out, tr, "Definition %s %s : list Z * list Z * list Z" % (gname, " ".join("(%s : %s)" % b for b in params)), term)
        ok += 1
    except Unsupported as e:
        out.append("(* %s NOT TRANSLATED: %s *)\n" % (gname, str(e).replace("*)", "* )")))
    write_if_changed(os.path.join(COQ, "WellFormedGen.v"), "\n".join(out) + "\n")
    return ok


if __name__ == "__main__":
    n = gen_wf()
    print("gen_trans: WellFormedGen.v %s/2 functions translated" % n)
