"""Shared python side of the Persist area (C08, C18): case generation, harness protocol, exact oracles.

Every numerical value travels as a C99 hex float, so the python side sees exactly the bits the library
saw; the oracles are evaluated in exact rational arithmetic (fractions.Fraction).
"""
import os, struct, json, subprocess, math
from fractions import Fraction

PRECS = "sdcz"
NCOMP = {"s": 1, "d": 1, "c": 2, "z": 2}
RSIZE = {"s": 4, "d": 8, "c": 4, "z": 8}
EPS = {"s": Fraction(1, 2 ** 24), "d": Fraction(1, 2 ** 53), "c": Fraction(1, 2 ** 24), "z": Fraction(1, 2 ** 53)}   # unit roundoff
DWORD = {"s": 4, "d": 8, "c": 8, "z": 16}
IWORD = 4
NO_MARKER = 3
# harness/sp_ienv_verif.c defaults: w, relax, maxsuper, rowblk, colblk, fill_lusup, fill_ucol, fill_lsub
IENV_DEFAULT = [8, 4, 20, 16, 8, -50, -50, -30]


def f32(v):
    return struct.unpack("f", struct.pack("f", v))[0]


def rnd_to(prec, v):
    return f32(v) if RSIZE[prec] == 4 else float(v)


# ----------------------------------------------------------------------------------------- generators
def gen_pattern(rng, n, kind=None):
    """column-compressed pattern (colptr, rowind) with a structurally zero-free diagonal, rows sorted per column"""
    kinds = ["band", "arrow", "random", "blockdiag", "dense", "tridiag", "chainfill"]
    kind = kind or rng.choice(kinds)
    cols = [set([j]) for j in range(n)]
    if kind == "tridiag":
        for j in range(n):
            if j > 0: cols[j].add(j - 1)
            if j + 1 < n: cols[j].add(j + 1)
    elif kind == "band":
        b = rng.randint(1, max(1, min(4, n - 1)))
        for j in range(n):
            for i in range(max(0, j - b), min(n, j + b + 1)):
                if rng.random() < 0.8: cols[j].add(i)
    elif kind == "arrow":
        for j in range(n):
            cols[j].add(n - 1); cols[n - 1].add(j)
            if rng.random() < 0.3: cols[j].add(rng.randrange(n))
    elif kind == "random":
        d = rng.choice([0.1, 0.2, 0.35])
        for j in range(n):
            for i in range(n):
                if rng.random() < d: cols[j].add(i)
    elif kind == "blockdiag":
        bs = rng.randint(2, max(2, n // 2))
        for j in range(n):
            b0 = (j // bs) * bs
            for i in range(b0, min(n, b0 + bs)):
                if rng.random() < 0.7: cols[j].add(i)
    elif kind == "dense":
        for j in range(n):
            for i in range(n): cols[j].add(i)
    elif kind == "chainfill":
        for j in range(n):
            if j + 1 < n: cols[j].add(j + 1)
            if rng.random() < 0.5: cols[j].add(rng.randrange(n))
            if rng.random() < 0.3: cols[rng.randrange(n)].add(j)
    colptr, rowind = [0], []
    for j in range(n):
        r = sorted(cols[j]); rowind += r; colptr.append(len(rowind))
    return {"n": n, "colptr": colptr, "rowind": rowind, "kind": kind}


def gen_vals(rng, pat, prec, style="mixed", base=None, noise=0.0):
    """values (flat list of reals, ncomp per entry) exactly representable in the precision.
    style: 'diagdom' (diagonal always the pivot), 'mixed' (pivoting happens, moderate growth),
           'perturb' (base values times (1+noise*U(-1,1))), 'singular' (one zero column of values)"""
    nc = NCOMP[prec]; n = pat["n"]; out = []
    colptr, rowind = pat["colptr"], pat["rowind"]
    if style == "perturb":
        return [rnd_to(prec, b * (1.0 + noise * rng.uniform(-1, 1))) for b in base]
    zero_col = rng.randrange(n) if style == "singular" else -1
    for j in range(n):
        cnt = colptr[j + 1] - colptr[j]
        for k in range(colptr[j], colptr[j + 1]):
            i = rowind[k]
            for c in range(nc):
                if j == zero_col:
                    v = 0.0
                elif i == j:
                    if style == "diagdom":
                        v = rng.choice([-1, 1]) * (cnt + 1 + rng.random() * 2) if c == 0 else rng.uniform(-1, 1)
                    else:
                        v = rng.choice([-1, 1]) * rng.uniform(0.6, 3.0) if c == 0 else rng.uniform(-1, 1)
                else:
                    v = rng.uniform(-1, 1) if style == "diagdom" else rng.uniform(-1.5, 1.5)
                    if rng.random() < 0.15: v = float(rng.randint(-3, 3)) or 1.0
                out.append(rnd_to(prec, v))
    return out


def gen_rhs(rng, prec, n, nrhs):
    return [rnd_to(prec, rng.uniform(-2, 2)) for _ in range(n * nrhs * NCOMP[prec])]


# ----------------------------------------------------------------------------------------- protocol
def hx(v):
    return float(v).hex()


def case_text(case):
    """case = {'ienv':[8 ints], 'slots':[{'sid','prec','pat'}], 'ops':[...]}"""
    L = ["ienv " + " ".join(str(x) for x in case["ienv"])]
    for s in case["slots"]:
        p = s["pat"]
        L.append("slot %d prec %s n %d nnz %d" % (s["sid"], s["prec"], p["n"], len(p["rowind"])))
        L.append(" ".join(map(str, p["colptr"])))
        L.append(" ".join(map(str, p["rowind"])))
    for o in case["ops"]:
        k = o["op"]
        if k == "first":
            L.append("first %d %d %d %d %s %d %d %d %d %d %d %d" % (o["slot"], o["api"], o["nprocs"], o["permc"], hx(o["u"]), o["fact"],
                                                                     o["lwork"], o["relax"], o["panel"], o["trans"], o["nrhs"], o.get("usepr", 0)))
            L.append(" ".join(hx(v) for v in o["vals"])); L.append(" ".join(hx(v) for v in o["rhs"]))
        elif k == "refact":
            L.append("refact %d %d %d %d %s %d %d %d %d %d %d" % (o["slot"], o["api"], o["nprocs"], o["usepr"], hx(o["u"]), o["fact"],
                                                                  o["lwork"], o["relax"], o["panel"], o["trans"], o["nrhs"]))
            L.append(" ".join(hx(v) for v in o["vals"])); L.append(" ".join(hx(v) for v in o["rhs"]))
        elif k == "solve":
            L.append("solve %d %d %d %d %d" % (o["slot"], o["api"], o["nprocs"], o["trans"], o["nrhs"]))
            L.append(" ".join(hx(v) for v in o["rhs"]))
        elif k == "query":
            L.append("query %d %d %d %d %d %d %d" % (o["slot"], o["api"], o["refact"], o["nprocs"], o["relax"], o["panel"], 1 if o.get("restore") else 0))
        elif k == "qspace":
            L.append("qspace %d %d %d" % (o["slot"], o["nprocs"], o["panel"]))
        elif k == "destroy":
            L.append("destroy %d" % o["slot"])
        elif k == "setienv":
            L.append("setienv %d %d" % (o["k"], o["v"]))
        elif k == "setpermr":
            L.append("setpermr %d %s" % (o["slot"], " ".join(map(str, o["permr"]))))
        else:
            raise ValueError(k)
    L.append("end")
    return "\n".join(L) + "\n"


def run_case(exe, case, workdir, tag, timeout=120, env=None):
    """returns (rc, results, stderr); results = list of per-op dicts (possibly shorter than ops on abort/crash)"""
    cf = os.path.join(workdir, "case_%s.txt" % tag); rf = os.path.join(workdir, "res_%s.txt" % tag)
    with open(cf, "w") as f:
        f.write(case_text(case))
    if os.path.exists(rf):
        os.unlink(rf)
    e = dict(os.environ); e["ASAN_OPTIONS"] = "detect_leaks=0"
    if env is None: env = (case.get("meta") or {}).get("env")      # e.g. the dynamic supernode-storage scheme (an environment variable)
    if env: e.update(env)
    try:
        p = subprocess.run([exe, cf, rf], stdout=subprocess.PIPE, stderr=subprocess.PIPE, timeout=timeout, env=e)
        rc, err = p.returncode, p.stderr.decode("utf-8", "replace")
    except subprocess.TimeoutExpired:
        rc, err = 124, "[timeout]"
    txt = open(rf).read() if os.path.exists(rf) else ""
    res = parse_results(txt)
    for f in (cf, rf):
        try: os.unlink(f)
        except OSError: pass
    return rc, res, err


def _vals(tokens):
    return [float.fromhex(t) for t in tokens[1:1 + int(tokens[0])]]


def parse_results(txt):
    res, cur = [], None
    for ln in txt.split("\n"):
        if not ln: continue
        t = ln.split()
        h = t[0]
        if h == "R":
            cur = {"idx": int(t[1]), "kind": t[2], "complete": False}
            for kv in t[3:]:
                k, v = kv.split("=")
                cur[k] = v if k == "prec" else int(v)
            res.append(cur)
        elif cur is None:
            continue
        elif h == "E":
            cur["complete"] = True
        elif h in ("permr", "permc", "etree", "colcnt", "psuper", "colsup"):
            cur[h] = [int(x) for x in t[2:2 + int(t[1])]]
        elif h in ("X", "Bout", "Aout", "Rs", "Cs", "ferr", "berr"):
            cur[h] = _vals(t[1:])
        elif h == "scal":
            for kv in t[1:]:
                k, v = kv.split("="); cur[k] = float.fromhex(v)
        elif h == "mem":
            for kv in t[1:]:
                k, v = kv.split("=")
                cur[k] = int(v) if k == "expansions" else float.fromhex(v)
        elif h == "LUhdr":
            for kv in t[1:]:
                k, v = kv.split("="); cur[k] = int(v)
        elif h in ("LT", "UT"):
            cur[h] = t[1:]
        elif h == "LUcnt":
            for kv in t[1:]:
                k, v = kv.split("="); cur["cnt" + k] = int(v)
        elif h == "LUbad":
            cur["LUbad"] = 1
        elif h in ("H", "HA", "HB"):
            cur[h] = dict(kv.split("=") for kv in t[1:])
        elif h == "S":
            d = dict(kv.split("=") for kv in t[1:])
            cur["S"] = {"prec": d["prec"], "exp": int(d["exp"]), "ndim": int(d["ndim"]), "head": d["head"], "tail": d["tail"], "avail": int(d["avail"])}
    return res


# ----------------------------------------------------------------------------------------- exact arithmetic
class CQ:
    """exact complex rational"""
    __slots__ = ("re", "im")

    def __init__(self, re, im=0):
        self.re, self.im = re, im

    def __add__(self, o): return CQ(self.re + o.re, self.im + o.im)
    def __sub__(self, o): return CQ(self.re - o.re, self.im - o.im)
    def __mul__(self, o): return CQ(self.re * o.re - self.im * o.im, self.re * o.im + self.im * o.re)
    def conj(self): return CQ(self.re, -self.im)
    def absl(self): return max(abs(self.re), abs(self.im))          # lower bound of the modulus
    def absu(self): return abs(self.re) + abs(self.im)               # upper bound of the modulus
    def iszero(self): return self.re == 0 and self.im == 0


def to_cq(vals, nc):
    if nc == 1:
        return [CQ(Fraction(v), 0) for v in vals]
    return [CQ(Fraction(vals[2 * i]), Fraction(vals[2 * i + 1])) for i in range(len(vals) // 2)]


def finite(vals):
    return all(math.isfinite(v) for v in vals)


def triplets(tokens, nc):
    """tokens of an LT/UT line -> dict (i,j) -> CQ ; None when a value is not finite"""
    d = {}; step = 2 + nc; ok = True
    for k in range(0, len(tokens) - step + 1, step):
        i, j = int(tokens[k]), int(tokens[k + 1])
        re = float.fromhex(tokens[k + 2]); im = float.fromhex(tokens[k + 3]) if nc == 2 else 0.0
        if not (math.isfinite(re) and math.isfinite(im)):
            ok = False; continue
        d[(i, j)] = CQ(Fraction(re), Fraction(im))
    return d, ok


def is_perm(p, n):
    return len(p) == n and sorted(p) == list(range(n))


def gamma(prec, k, cplx_factor=4):
    """gamma_k = k u/(1-k u) with the constant enlarged for complex arithmetic (Higham, Lemma 3.5)"""
    u = EPS[prec] * (cplx_factor if NCOMP[prec] == 2 else 1)
    return (k * u) / (1 - k * u)


def check_factorization(pat, prec, avals, permr, permc, LT, UT, slack=2):
    """|Pr A Pc - L U| <= slack*gamma(n) |L||U| componentwise, exactly.  Returns (ok, detail)."""
    n = pat["n"]; nc = NCOMP[prec]
    if not is_perm(permr, n): return False, "perm_r is not a permutation: %s" % permr
    if not is_perm(permc, n): return False, "perm_c is not a permutation: %s" % permc
    if not finite(avals): return False, "A has non-finite values"
    Ld, okL = triplets(LT, nc); Ud, okU = triplets(UT, nc)
    if not (okL and okU): return False, "non-finite entries in L or U"
    A = to_cq(avals, nc)
    g = gamma(prec, n) * slack
    # rows of L (with unit diagonal), columns of U
    Lrow = {}
    for (i, j), v in Ld.items():
        if i <= j: return False, "L entry on/above the diagonal (%d,%d)" % (i, j)
        Lrow.setdefault(i, []).append((j, v))
    for i in range(n): Lrow.setdefault(i, []).append((i, CQ(Fraction(1), Fraction(0))))
    Ucol = {}
    for (i, j), v in Ud.items():
        if i > j: return False, "U entry below the diagonal (%d,%d)" % (i, j)
        Ucol.setdefault(j, {})[i] = v
    PA = {}
    for j in range(n):
        for k in range(pat["colptr"][j], pat["colptr"][j + 1]):
            key = (permr[pat["rowind"][k]], permc[j])
            PA[key] = PA.get(key, CQ(Fraction(0), Fraction(0))) + A[k]
    worst = Fraction(0)
    for i in range(n):
        for j in range(n):
            uc = Ucol.get(j, {})
            s = CQ(Fraction(0), Fraction(0)); b = Fraction(0)
            for (k, lv) in Lrow[i]:
                uv = uc.get(k)
                if uv is not None:
                    s = s + lv * uv; b += lv.absu() * uv.absu()
            a = PA.get((i, j))
            if a is None and b == 0: continue
            e = (a - s) if a is not None else (CQ(Fraction(0), Fraction(0)) - s)
            el = e.absl()
            if el > g * b:
                return False, "|PrAPc-LU|(%d,%d)=%.3e > %.3e = gamma*|L||U|" % (i, j, float(el), float(g * b))
            if b > 0: worst = max(worst, el / b)
    return True, "max ratio %.3e (limit %.3e)" % (float(worst), float(g))


def matvec_res(pat, prec, avals, x, b, trans):
    """returns (r, s) with r = b - op(A) x and s = |op(A)||x| + |b| (s uses upper bounds of moduli), exact"""
    n = pat["n"]; nc = NCOMP[prec]
    A = to_cq(avals, nc); X = to_cq(x, nc); B = to_cq(b, nc)
    r = list(B); s = [v.absu() for v in B]
    for j in range(n):
        for k in range(pat["colptr"][j], pat["colptr"][j + 1]):
            i = pat["rowind"][k]; a = A[k]
            if trans == 0:
                r[i] = r[i] - a * X[j]; s[i] += a.absu() * X[j].absu()
            else:
                aa = a.conj() if trans == 2 else a
                r[j] = r[j] - aa * X[i]; s[j] += a.absu() * X[i].absu()
    return r, s


def check_solution(pat, prec, avals, x, b, trans, nrhs, factor=100):
    """componentwise backward error omega = max_i |r_i|/(|A||x|+|b|)_i <= factor*n*u (documented oracle slack)"""
    n = pat["n"]; nc = NCOMP[prec]
    if not finite(x): return False, "X has non-finite entries", None
    tol = factor * n * EPS[prec] * (2 if nc == 2 else 1)
    worst = Fraction(0)
    for c in range(nrhs):
        xs = x[c * n * nc:(c + 1) * n * nc]; bs = b[c * n * nc:(c + 1) * n * nc]
        r, s = matvec_res(pat, prec, avals, xs, bs, trans)
        for i in range(n):
            rl = r[i].absl()
            if s[i] == 0:
                if rl != 0: return False, "rhs %d row %d: residual %.3e with zero scale" % (c, i, float(rl)), None
                continue
            w = rl / s[i]
            worst = max(worst, w)
    ok = worst <= tol
    return ok, "omega=%.3e tol=%.3e" % (float(worst), float(tol)), float(worst)


def check_solution_lu(pat, prec, avals, x, b, trans, nrhs, permr, permc, LT, UT, slack=4):
    """fallback for solves without refinement: |b - op(A) x| <= slack*gamma(3n) * (|op(A)| + P^T|L||U|Q^T (or transposed)) |x| + tiny|b|
    (Higham Thm 9.4 applied to the computed factors; holds for every pivoting strategy and operation order)"""
    n = pat["n"]; nc = NCOMP[prec]
    if not finite(x): return False, "X has non-finite entries"
    Ld, okL = triplets(LT, nc); Ud, okU = triplets(UT, nc)
    if not (okL and okU): return False, "non-finite L/U"
    # M = |L||U| in permuted coordinates
    Lcol = {}
    for (i, j), v in Ld.items(): Lcol.setdefault(j, []).append((i, v.absu()))
    for j in range(n): Lcol.setdefault(j, []).append((j, Fraction(1)))
    M = {}
    for (k, j), uv in Ud.items():
        ua = uv.absu()
        for (i, la) in Lcol[k]:
            M[(i, j)] = M.get((i, j), Fraction(0)) + la * ua
    invr = [0] * n; invc = [0] * n
    for i in range(n): invr[permr[i]] = i; invc[permc[i]] = i
    g = gamma(prec, 3 * n) * slack
    for c in range(nrhs):
        xs = x[c * n * nc:(c + 1) * n * nc]; bs = b[c * n * nc:(c + 1) * n * nc]
        r, s = matvec_res(pat, prec, avals, xs, bs, trans)
        X = to_cq(xs, nc)
        extra = [Fraction(0)] * n
        for (pi, pj), m in M.items():
            i, j = invr[pi], invc[pj]            # entry (i,j) of the original matrix
            if trans == 0: extra[i] += m * X[j].absu()
            else: extra[j] += m * X[i].absu()
        for i in range(n):
            if r[i].absl() > g * (s[i] + extra[i]):
                return False, "rhs %d row %d: |r|=%.3e > %.3e" % (c, i, float(r[i].absl()), float(g * (s[i] + extra[i])))
    return True, "ok"


def exact_old_pivot_margin(pat, prec, avals, permr_old, permc, u, mg):
    """Eliminate Pr_old*A*Pc without further pivoting in exact arithmetic and decide, column by column, what the rule of
    p?gstrf_pivotL.c:123-129 ( |old pivot| != 0 and |old pivot| >= u * max|candidates| ) must give, leaving a relative margin mg
    for the rounding of the C code's values.  Returns (verdict, column, ratio^2):
      'pass'      every old pivot certainly passes (either by the margin, or because it is itself the largest candidate by the
                  margin: then pivmax IS that entry and fl(u*pivmax) <= pivmax for u <= 1 whatever the rounding);
      'fail'      columns before `column` certainly pass and the old pivot of `column` certainly fails;
      'ambiguous' otherwise (within the margin, or a zero column)."""
    n = pat["n"]; nc = NCOMP[prec]
    A = to_cq(avals, nc)
    M = [[None] * n for _ in range(n)]
    for j in range(n):
        for k in range(pat["colptr"][j], pat["colptr"][j + 1]):
            i = pat["rowind"][k]
            M[permr_old[i]][permc[j]] = A[k]
    U = Fraction(u); hi = (1 + mg) ** 2; lo = (1 - mg) ** 2
    # the magnitude used by p?gstrf_pivotL: fabs for real, |re|+|im| (c_abs1/z_abs1) for complex; squared to keep one code path
    def m2(z): return (abs(z.re) + abs(z.im)) ** 2
    minr = None
    touched = set()          # entries that received an elimination update: an exact zero there is a rounding residue in the C code
    for k in range(n):
        piv = M[k][k]
        p2 = m2(piv) if piv is not None else Fraction(0)
        if piv is not None and p2 == 0 and (k, k) in touched:
            return "ambiguous", k, None
        others = [m2(M[i][k]) for i in range(k + 1, n) if M[i][k] is not None]
        o2 = max(others) if others else Fraction(0)
        mx2 = max(p2, o2)
        if mx2 == 0: return "ambiguous", k, None
        r2 = p2 / (U * U * mx2) if U != 0 else None
        if r2 is not None and (minr is None or r2 < minr): minr = r2
        # u = 0: thresh = 0 and the rule is just |old pivot| != 0
        sure_pass = p2 != 0 and (U == 0 or (r2 is not None and r2 >= hi) or (U <= 1 and p2 >= hi * o2))
        sure_fail = p2 == 0 or (r2 is not None and r2 <= lo and not (U <= 1 and p2 >= lo * o2))
        if sure_fail: return "fail", k, r2
        if not sure_pass: return "ambiguous", k, r2
        den = piv.re * piv.re + piv.im * piv.im
        for i in range(k + 1, n):
            if M[i][k] is None or M[i][k].iszero(): continue
            num = M[i][k] * piv.conj()
            l = CQ(num.re / den, num.im / den)
            for j in range(k + 1, n):
                if M[k][j] is None: continue
                t = l * M[k][j]
                M[i][j] = (M[i][j] - t) if M[i][j] is not None else (CQ(Fraction(0), Fraction(0)) - t)
                touched.add((i, j))
    return "pass", None, minr


# ----------------------------------------------------------------------------------------- sizes used by p?memory.c (for K-exact)
def temp_space(n, w, p, prec, maxsuper, rowblk):
    """superlu_?TempSpace, evaluated in binary32 as the C code does (values small enough to be exact here)"""
    tmp = 14 * n * IWORD
    ptmp = (2 * w + 5 + NO_MARKER) * n * IWORD + (n * w + max(2 * n, (maxsuper + rowblk) * w)) * DWORD[prec]
    return f32(f32(tmp) + f32(f32(ptmp) * p))


# ----------------------------------------------------------------------------------------- replay (de)serialisation
def case_to_json(case):
    def cv(o):
        o = dict(o)
        for k in ("vals", "rhs"):
            if k in o: o[k] = [hx(v) for v in o[k]]
        if "u" in o: o["u"] = hx(o["u"])
        return o
    return {"ienv": case["ienv"], "slots": case["slots"], "ops": [cv(o) for o in case["ops"]], "meta": case.get("meta", {})}


def case_from_json(j):
    def cv(o):
        o = dict(o)
        for k in ("vals", "rhs"):
            if k in o: o[k] = [float.fromhex(v) for v in o[k]]
        if "u" in o: o["u"] = float.fromhex(o["u"])
        return o
    return {"ienv": j["ienv"], "slots": j["slots"], "ops": [cv(o) for o in j["ops"]], "meta": j.get("meta", {})}


# ----------------------------------------------------------------------------------------- per-case evaluation (C08 oracles)
class Fail:
    def __init__(self, op, what, key):
        self.op, self.what, self.key = op, what, key

    def as_dict(self):
        return {"op": self.op, "what": self.what, "key": self.key}


HASH_KEYS = ("Aval", "Astr", "L", "U", "permr", "permc", "etree", "colcnt", "psuper", "RC")


def evaluate_case(case, rc, res, err, margin=None):
    """see _evaluate_case; outputs so damaged that an oracle cannot even be evaluated are themselves reported"""
    try:
        return _evaluate_case(case, rc, res, err, margin)
    except Exception as e:        # e.g. row indices outside 0..n-1 in the printed factors
        import traceback
        tb = traceback.format_exc().strip().split("\n")
        # find the first factor/solve op whose record trips the oracle, by evaluating growing prefixes
        k = len(case["ops"])
        for j in range(1, len(case["ops"]) + 1):
            try:
                _evaluate_case(dict(case, ops=case["ops"][:j]), 0, res[:j], "", margin)
            except Exception:
                k = j - 1; break
        k = min(k, len(case["ops"]) - 1)
        return [Fail(k, "outputs of op %d (%s) are malformed, oracle raised %s: %s" % (k, case["ops"][k]["op"], type(e).__name__, tb[-1][:200]),
                     {"kind": "malformed_output", "op": case["ops"][k]["op"]})], {}


def _evaluate_case(case, rc, res, err, margin=None):
    """Applies the C08 oracles to the per-op results.  Returns (fails, stats).
    fails: list of Fail; stats: dict of counters.  The tracker below follows only what the *caller* of the
    library knows (which values it passed to which call); it never looks at library internals."""
    fails = []; st = {}
    def cnt(k, n=1): st[k] = st.get(k, 0) + n
    slots = {s["sid"]: {"prec": s["prec"], "pat": s["pat"], "lu": None, "sym": None, "permr": None, "permc": None,
                        "user": False} for s in case["slots"]}
    ops = case["ops"]
    for i, o in enumerate(ops):
        if i >= len(res) or not res[i].get("complete"):
            msg = (err or "").strip().split("\n")
            fails.append(Fail(i, "process ended (rc=%s) during op %d (%s): %s" % (rc, i, o["op"], " | ".join(msg[:3])[:300]),
                              {"kind": "abort_or_crash", "op": o["op"], "storage_exceeded": "exceeded" in (err or "")}))
            break
        r = res[i]; k = o["op"]
        if k in ("setienv", "setpermr"):
            if k == "setpermr": slots[o["slot"]]["permr"] = list(o["permr"])
            continue
        S = slots[o["slot"]]; prec = S["prec"]; pat = S["pat"]; n = pat["n"]; nc = NCOMP[prec]
        if k in ("first", "refact"):
            cnt("factor_calls")
            info = r["info"]; expect_sing = o.get("style") == "singular"
            if o.get("expect_neg"):
                if info != o["expect_neg"]:
                    fails.append(Fail(i, "invalid-argument call returned info=%d, expected %d" % (info, o["expect_neg"]), {"kind": "arg_info", "op": k}))
                continue
            if o.get("expect_memfail"):
                if not info > n + 1:
                    fails.append(Fail(i, "user workspace of %d bytes: expected a memory failure info>n+1, got %d" % (o["lwork"], info),
                                      {"kind": "memfail_info", "op": k}))
                S["lu"] = None
                continue
            if info < 0 or info > n + 1:
                fails.append(Fail(i, "%s returned info=%d for valid arguments" % (k, info), {"kind": "bad_info", "op": k, "api": o["api"]}))
                if k == "first": S["lu"] = None
                continue
            if 1 <= info <= n and not expect_sing:
                fails.append(Fail(i, "%s reports exact singularity info=%d for a nonsingular matrix" % (k, info), {"kind": "spurious_singular", "op": k}))
            if expect_sing and info == 0:
                fails.append(Fail(i, "%s returned info=0 for a matrix with a zero column" % k, {"kind": "missed_singular", "op": k}))
            permr_old = S["permr"]
            if k == "first":
                if not is_perm(r["permc"], n):
                    fails.append(Fail(i, "perm_c after first factorization is not a permutation", {"kind": "permc_invalid"}))
                if o["api"] != 2 and "etree" in r:
                    S["sym"] = (r["etree"], r["colcnt"], r["psuper"])
                else:
                    S["sym"] = None
                S["permc"] = r["permc"]
            else:
                if r["permc"] != S["permc"]:
                    fails.append(Fail(i, "refactorization changed perm_c", {"kind": "refact_permc_changed"}))
                if S["sym"] is not None and "etree" in r and (r["etree"], r["colcnt"], r["psuper"]) != S["sym"]:
                    fails.append(Fail(i, "refactorization changed etree/colcnt_h/part_super_h", {"kind": "refact_sym_changed"}))
            if info == 0 or info == n + 1:
                # (a) factorization residual for the values passed to THIS call
                ok, det = check_factorization(pat, prec, r["Aout"], r["permr"], r["permc"], r.get("LT", []), r.get("UT", []))
                cnt("fact_oracle")
                if not ok:
                    fails.append(Fail(i, "%s (usepr=%d, nprocs=%d, api=%d): factors do not reproduce the values of this call: %s" %
                                      (k, o.get("usepr", 0), o["nprocs"], o["api"], det),
                                      {"kind": "stale_or_wrong_factors", "op": k, "usepr": o.get("usepr", 0), "multi": o["nprocs"] > 1}))
                # K-exact on the counts kept in the L/U headers
                if r.get("nnzL") != r.get("cntL", -1) + n or r.get("nnzU") != r.get("cntU", -2) or r.get("cntbad", 0) != 0:
                    fails.append(Fail(i, "%s: Lstore->nnz=%s / Ustore->nnz=%s disagree with the stored structure (%s+n, %s)" %
                                      (k, r.get("nnzL"), r.get("nnzU"), r.get("cntL"), r.get("cntU")), {"kind": "nnz_header", "op": k}))
                if max(r.get("colsup", [0])) != r.get("nsuper"):
                    fails.append(Fail(i, "%s: Lstore->nsuper=%s but col_to_sup ends at %s" % (k, r.get("nsuper"), max(r.get("colsup", [0]))),
                                      {"kind": "nsuper_header", "op": k}))
                # solution of the system with the values/rhs of this call
                if o["api"] != 1 or r["info2"] == 0:
                    ok, det, om = check_solution(pat, prec, o["vals"], r["X"], o["rhs"], o["trans"], o["nrhs"])
                    cnt("solve_oracle")
                    if not ok:
                        ok2, det2 = (False, "") if r["equed"] != 0 else check_solution_lu(pat, prec, o["vals"], r["X"], o["rhs"], o["trans"], o["nrhs"],
                                                                                         r["permr"], r["permc"], r.get("LT", []), r.get("UT", []))
                        if not ok2:
                            fails.append(Fail(i, "%s: X does not solve the system of this call: %s %s" % (k, det, det2),
                                              {"kind": "wrong_solution", "op": k, "multi": o["nprocs"] > 1}))
                # (b) pivot reuse
                if k == "refact" and o["usepr"] == 1 and permr_old is not None and is_perm(permr_old, n):
                    if r["usepr_after"] == 1 and r["permr"] != permr_old:
                        fails.append(Fail(i, "usepr stayed YES but perm_r changed", {"kind": "usepr_flag_vs_permr"}))
                    mg = Fraction(margin if margin is not None else (1e-3 if RSIZE[prec] == 4 else 1e-7))
                    verdict, col, r2 = exact_old_pivot_margin(pat, prec, r["Aout"], permr_old, r["permc"], o["u"], mg)
                    if verdict == "pass":
                        cnt("usepr_all_pass")
                        if r["permr"] != permr_old or r["usepr_after"] != 1:
                            fails.append(Fail(i, "usepr=YES and every old pivot passes the threshold u=%g (min ratio^2 %s) but perm_r %s, usepr flag after=%d" %
                                              (o["u"], "%.6g" % float(r2) if r2 is not None else "-", "changed" if r["permr"] != permr_old else "kept", r["usepr_after"]),
                                              {"kind": "usepr_not_honoured"}))
                    elif verdict == "fail":
                        cnt("usepr_fallback")
                        if r["usepr_after"] != 0 or r["permr"] == permr_old:
                            fails.append(Fail(i, "usepr=YES, old pivot of column %s fails the threshold (ratio^2 %.6g) but perm_r kept / flag=%d" %
                                              (col, float(r2) if r2 is not None else 0.0, r["usepr_after"]), {"kind": "usepr_no_fallback"}))
                    else:
                        cnt("usepr_ambiguous")
                S["lu"] = {"vals": o["vals"], "aout": r["Aout"], "f1": r.get("f1", 0), "op": i, "LT": r.get("LT", []), "UT": r.get("UT", []), "permr": r["permr"], "permc": r["permc"],
                           "equed": r["equed"], "ok": info == 0}
            else:
                S["lu"] = {"ok": False, "op": i}
            S["permr"] = r["permr"]
            # a factorization in user-workspace mode must have taken its memory from the work[] it was given: afterwards the
            # user stack of p?memory.c (seen through ?user_malloc(0, HEAD)) has to lie inside THIS session's buffer
            if o["lwork"] > 0 and 0 <= info <= n + 1 and r.get("S") and not r["S"]["head"].startswith("slot:%d:" % o["slot"]):
                fails.append(Fail(i, "%s with user workspace of session %d: the library's user stack is at %s, i.e. in another buffer" %
                                  (k, o["slot"], r["S"]["head"]), {"kind": "refact_user_stack_stale_array"}))
            if r.get("S") and (r["S"]["exp"] != 0 or r["S"]["ndim"] != n):
                fails.append(Fail(i, "after %s: expander table allocated=%d (expected 0), ndim=%d (expected %d)" % (k, r["S"]["exp"], r["S"]["ndim"], n),
                                  {"kind": "state_after_factor"}))
        elif k == "solve":
            cnt("solve_calls")
            lu = S["lu"]
            if lu is None or not lu.get("ok"):
                continue
            bad = [h for h in HASH_KEYS if r.get("HB", {}).get(h) != r.get("HA", {}).get(h)]
            cnt("readonly_checks")
            if bad:
                fails.append(Fail(i, "solve with existing factors modified: %s" % ",".join(bad), {"kind": "factored_not_readonly", "what": bad}))
            if r["info"] not in (0, n + 1) or r["info2"] != 0:
                fails.append(Fail(i, "solve with existing factors returned info=%d/%d" % (r["info"], r["info2"]), {"kind": "solve_info"}))
                continue
            # the expert driver solves the ORIGINAL system (it applies equed/R/C itself); ?gstrs called directly solves with
            # the matrix that was actually factored (= the equilibrated copy left in A when equed != NOEQUIL)
            sysvals = lu["vals"] if o["api"] == 0 else lu["aout"]
            ok, det, om = check_solution(pat, prec, sysvals, r["X"], o["rhs"], o["trans"], o["nrhs"])
            cnt("solve_oracle")
            if not ok:
                ok2, det2 = (False, "") if (lu["equed"] != 0 and o["api"] == 0) else check_solution_lu(pat, prec, sysvals, r["X"], o["rhs"], o["trans"], o["nrhs"],
                                                                                    lu["permr"], lu["permc"], lu["LT"], lu["UT"])
                if not ok2:
                    fails.append(Fail(i, "solve with existing factors: X does not solve the system factored at op %d: %s %s" % (lu["op"], det, det2),
                                      {"kind": "wrong_solution_factored"}))
        elif k == "query":
            cnt("query_calls")
            prev = None
            for q in range(i - 1, -1, -1):
                if q < len(res) and ops[q].get("slot") == o["slot"] and ("H" in res[q] or "HA" in res[q]):
                    prev = res[q].get("H") or res[q].get("HA"); break
            if prev is not None:
                # R, C and equed are OUTPUT arguments of p?gssvx for fact != FACTORED: a query may write them
                bad = [h for h in HASH_KEYS if h != "RC" and prev.get(h) != r.get("H", {}).get(h)]
                if bad:
                    fails.append(Fail(i, "lwork=-1 query ('no other side effects') modified: %s%s" %
                                      (",".join(bad), " (perm_r is now %s)" % r["permr"] if "permr" in bad else ""),
                                      {"kind": "query_side_effect"}))
            if not o.get("restore"): S["permr"] = r["permr"]
    # attribution of the known defect F1: the factorization that produced the factors involved was run with the
    # supernodes' subscript lists stored in an order different from their numbering (observed by the fixupL wrapper)
    # (both attributions need at least two threads: a one-thread failure is never explained away by them)
    f1_ops = set(i for i, r in enumerate(res) if r.get("f1") == 1 and ops[i]["op"] in ("first", "refact") and ops[i].get("nprocs", 1) > 1)
    # attribution of the user-workspace / threads defect (findings/C08-user-workspace-thread-overlap.md): the WorkInit/WorkFree
    # wrappers of the harness saw a thread being handed work arrays that another thread was still using
    ws_ops = set(i for i, r in enumerate(res) if r.get("wso") == 1 and ops[i]["op"] in ("first", "refact") and ops[i].get("nprocs", 1) > 1
                 and ops[i].get("lwork", 0) > 0)
    # histories in the regime of finding F17 (a factorization with >= 3 threads in a user workspace): p?gstrf_WorkFree of the first
    # thread to finish releases the tail blocks of all threads, a late thread works in live memory; the damage is silent, persists
    # in the user buffer and the wrappers above see it only when it is observable at call granularity (about 1 run in 10^3..10^4).
    # Numeric symptoms AFTER such a call are attributed to that finding (keyed by the history class, not by the symptom).
    ws_ops |= set(i for i, o in enumerate(ops) if o["op"] in ("first", "refact") and o.get("nprocs", 1) >= 3 and o.get("lwork", 0) > 0)
    if f1_ops or ws_ops:
        st["f1_order_seen"] = len(f1_ops); st["ws_overlap_seen"] = len(ws_ops)
        last_factor = {}
        cur = {}
        for i, o in enumerate(ops):
            if o["op"] in ("first", "refact"): cur[o["slot"]] = i
            last_factor[i] = cur.get(o.get("slot"))
        numeric = ("stale_or_wrong_factors", "nnz_header", "wrong_solution", "wrong_solution_factored", "abort_or_crash", "nsuper_header",
                   "spurious_singular", "usepr_not_honoured", "usepr_no_fallback", "bad_info")
        for f in fails:
            if f.key.get("kind") not in numeric: continue
            # the user buffer (with L, U and the permutations' provenance) lives on through the session: once a thread was handed
            # live work arrays, every later numeric symptom of the session is attributed to that defect (finding F17)
            if any(j <= f.op for j in ws_ops): f.key = {"kind": "user_workspace_thread_overlap"}
            elif last_factor.get(f.op) in f1_ops: f.key = {"kind": "fixupL_order"}
    return fails, st


# ----------------------------------------------------------------------------------------- C08 sequence generator
def lwork_enough(n, annz, prec, ienv, nprocs_max, panel):
    """a user workspace that is certainly large enough (bytes, multiple of 8)"""
    w = panel; maxsuper, rowblk = ienv[2], ienv[3]
    f6, f7, f8 = ienv[5], ienv[6], ienv[7]
    nzumax = -f7 * annz if f7 < 0 else f7
    nzlmax = -f8 * annz if f8 < 0 else f8
    nzlumax = 2 * n * n + 64
    per = (2 * w + 5 + NO_MARKER) * n * IWORD + (n * w + max(2 * n, (maxsuper + rowblk) * w)) * DWORD[prec] + 64
    tot = (9 * n + 5) * IWORD + nzlumax * DWORD[prec] + nzumax * (DWORD[prec] + IWORD) + nzlmax * IWORD + per * nprocs_max + 1024
    return (tot + 7) // 8 * 8


def scale_rows(rng, pat, prec, vals):
    """badly scaled rows (powers of two, exact) so that EQUILIBRATE really scales"""
    n = pat["n"]; nc = NCOMP[prec]
    sc = [2.0 ** rng.choice([0, 0, 0, -12, 10, -20]) for _ in range(n)]
    out = list(vals)
    for k, i in enumerate(pat["rowind"]):
        for c in range(nc): out[k * nc + c] = rnd_to(prec, out[k * nc + c] * sc[i])
    return out


def gen_c08_case(rng, length, nmax, precs="sdcz", main_only=False):
    prec = rng.choice(precs)
    n = rng.choice([1, 2, 3]) if rng.random() < 0.08 else rng.randint(4, nmax)
    pat = gen_pattern(rng, n)
    annz = len(pat["rowind"])
    ienv = list(IENV_DEFAULT)
    ienv[0] = rng.choice([1, 2, 4, 8]); ienv[1] = rng.choice([1, 2, 4, 6])
    ienv[2] = rng.choice([8, 20]); ienv[3] = rng.choice([4, 16]); ienv[4] = rng.choice([2, 8])   # maxsuper >= relax (implicit contract of sp_ienv)
    panel, relax = ienv[0], ienv[1]
    user = rng.random() < 0.35
    lw = lwork_enough(n, annz, prec, ienv, 4, panel) if user else 0
    ulist = [1.0, 1.0, 0.5, 0.1, 0.01, 0.0]
    ops = []
    state = {"lu_ok": False, "have_sym": False, "vals": None, "style": None}

    def factor_op(kind, usepr=0, style=None, api=None):
        style = style or rng.choice(["mixed", "mixed", "diagdom"])
        if kind == "refact" and usepr and state["vals"] is not None and rng.random() < 0.6:
            vals = gen_vals(rng, pat, prec, "perturb", base=state["vals"], noise=rng.choice([0.0, 1e-6, 1e-3, 0.05]))
            style = state["style"] if state["style"] != "singular" else "mixed"
        else:
            vals = gen_vals(rng, pat, prec, style)
        fact = 0
        api = rng.choice([0, 0, 1]) if api is None else api
        if api == 0 and rng.random() < 0.25:
            fact = 1
            if rng.random() < 0.6 and style != "singular": vals = scale_rows(rng, pat, prec, vals)
        trans = rng.choice([0, 0, 1])    # CONJ left to C07 (F3 family: real ?gstrs and complex sp_?trsv reject it)
        nrhs = rng.choice([1, 1, 2])
        o = dict(op=kind, slot=0, api=api, nprocs=rng.choice([1, 1, 2, 3, 4]), u=rng.choice(ulist), fact=fact, lwork=lw, relax=relax,
                 panel=panel, trans=trans, nrhs=nrhs, usepr=usepr, vals=vals, rhs=gen_rhs(rng, prec, n, nrhs), style=style)
        if kind == "first": o["permc"] = rng.choice([0, 1, 2, 3])
        ops.append(o)
        state["lu_ok"] = style != "singular"; state["have_sym"] = True; state["vals"] = vals; state["style"] = style

    factor_op("first")
    while len(ops) < length:
        c = rng.random()
        if c < 0.22:
            factor_op("refact", usepr=0)
        elif c < 0.46:
            if state["lu_ok"]: factor_op("refact", usepr=1)
            else: factor_op("refact", usepr=0)
        elif c < 0.72:
            if state["lu_ok"]:
                nrhs = rng.choice([1, 1, 3])
                ops.append(dict(op="solve", slot=0, api=rng.choice([0, 0, 1]), nprocs=rng.choice([1, 2, 4]),
                                trans=rng.choice([0, 1]), nrhs=nrhs, rhs=gen_rhs(rng, prec, n, nrhs)))
            else:
                factor_op("refact", usepr=0)
        elif c < 0.80:
            ops.append(dict(op="destroy", slot=0)); factor_op("first")
        elif c < 0.86:
            factor_op("refact", usepr=0, style="singular")
        elif c < 0.92:
            if state["lu_ok"]: ops.append(dict(op="qspace", slot=0, nprocs=rng.choice([1, 2]), panel=panel))
        elif not main_only:
            # lwork=-1 query: "no other side effects", the sequence simply goes on with what the caller holds
            ops.append(dict(op="query", slot=0, api=rng.choice([0, 1]), refact=rng.choice([0, 1]), nprocs=rng.choice([1, 2]), relax=relax, panel=panel,
                            restore=False))
    return {"ienv": ienv, "slots": [{"sid": 0, "prec": prec, "pat": pat}], "ops": ops,
            "meta": {"prec": prec, "n": n, "kind": pat["kind"], "user": user}}


# ----------------------------------------------------------------------------------------- tie to the Coq model (K-exact)
PREC_INDEX = {"s": 0, "d": 1, "c": 2, "z": 3}
EMPTY = -1


def relax_snodes(n, etree, relax):
    """pxgstrf_relax_snode.c transcribed: list of (fcol, size)"""
    desc = [0] * (n + 1)
    for j in range(n):
        desc[etree[j]] += desc[j] + 1
    out = []; j = 0
    while j < n:
        parent = etree[j]; fcol = j
        while parent != n and desc[parent] < relax:
            j = parent; parent = etree[j]
        out.append((fcol, j - fcol + 1))
        j += 1
        while j < n and desc[j] != 0: j += 1
    return out


def preset_map(pat, permc, etree, colcnt, psuper, relax, maxsuper, dyn=False):
    """?PresetMap (p?memory.c:856-964) transcribed; returns nextpos.  Input of the model (fa_preset), a function of the
    call's explicit arguments only."""
    n = pat["n"]
    xb = [0] * n; xe = [0] * n
    for i in range(n):
        xb[permc[i]] = pat["colptr"][i]; xe[permc[i]] = pat["colptr"][i + 1]
    asub = pat["rowind"]
    sb = list(psuper)
    j = 0
    while j < n:
        w = sb[j]; k = j + w
        if w > maxsuper:
            w = w % maxsuper
            if w == 0: w = maxsuper
            while j < k:
                sb[j] = w; j += w; w = maxsuper
        j = k
        if w == 0: return None        # malformed partition: the C loop would not advance
    rel = relax_snodes(n, etree, relax) + [(n, 0)]
    rs = 0; marker = [EMPTY] * n; nextpos = 0
    j = 0
    while j < n:
        if rel[rs][0] == j:
            rs_nrow = 0; w = rel[rs][1]; rs += 1
            last = j + w
            for i in range(j, last):
                for k in range(xb[i], xe[i]):
                    kr = asub[k]
                    if marker[kr] != j:
                        marker[kr] = j; rs_nrow += 1
            nextpos += w * rs_nrow
            i = j; k = j
            while i < last:
                k = i
                if sb[i] <= 0: return None
                i += sb[i]
            if i > last:
                w = i - last
                nextpos += w * max(rs_nrow, colcnt[k])
            w = i - j
        else:
            w = sb[j]
            if w <= 0: return None
            if not dyn: nextpos += w * colcnt[j]
        j += w
    return nextpos


def model_script(case, res):
    """translate (case, C results) into the driver's input.  Needs the C results only for quantities that are inputs of
    the model by construction: the symbolic arrays produced by sp_colorder (to evaluate ?PresetMap)."""
    ienv = case["ienv"]
    L = ["slots %d" % len(case["slots"])]
    sid_index = {}
    for k, s in enumerate(case["slots"]):
        sid_index[s["sid"]] = k
        L.append("%d %d %d %d" % (s["sid"] + 1, s["pat"]["n"], len(s["pat"]["rowind"]), DWORD[s["prec"]]))
    slots = {s["sid"]: {"prec": s["prec"], "pat": s["pat"], "work": 0, "sym": None, "preset": 0, "user_id": 0} for s in case["slots"]}
    cur_ienv = list(ienv)
    lines_for = []      # op index -> model line index (or None)
    nline = 0
    for i, o in enumerate(case["ops"]):
        k = o["op"]
        if k == "setienv":
            cur_ienv[o["k"] - 1] = o["v"]; lines_for.append(None); continue
        if k == "setpermr":
            lines_for.append(None); continue
        S = slots[o["slot"]]; prec = S["prec"]; pat = S["pat"]; n = pat["n"]; annz = len(pat["rowind"])
        slot = sid_index[o["slot"]]; pi = PREC_INDEX[prec]
        r = res[i] if i < len(res) else None
        def fargs(refact, lwork, work, usepr, nprocs, relax, panel, u, preset):
            return [n, annz, o["slot"] + 1, i + 1, (100 + o.get("permc", 0)) if not refact else 0, nprocs, panel, relax, int(round(u * 1000)), usepr,
                    lwork, work, DWORD[prec], cur_ienv[2], cur_ienv[3], cur_ienv[5], cur_ienv[6], cur_ienv[7], 0, preset, 2000 + i]
        if o.get("expect_neg"):
            lines_for.append(None); continue          # rejected by the argument check: nothing is executed
        if k in ("first", "refact"):
            if k == "first":
                S["work"] = (1000 + i) if o["lwork"] > 0 else 0
                # the symbolic arrays are outputs of sp_colorder in this very call: take them from the C side to evaluate PresetMap
                if r is not None and r.get("complete") and "etree" in r and is_perm(r.get("permc", []), n):
                    S["sym"] = (r["permc"], r["etree"], r["colcnt"], r["psuper"])
                else:
                    S["sym"] = None
            pre = None
            if S["sym"] is not None:
                pre = preset_map(pat, S["sym"][0], S["sym"][1], S["sym"][2], S["sym"][3], o["relax"], cur_ienv[2])
            S["preset_known"] = pre is not None
            fa = fargs(k == "refact", o["lwork"], S["work"], o.get("usepr", 0), o["nprocs"], o["relax"], o["panel"], o["u"], pre or 0)
            L.append("%s %d %d %d %s %d" % ("F" if k == "first" else "R", slot, pi, 1 if o["api"] in (0,) else 0, " ".join(map(str, fa)), i + 1))
        elif k == "solve":
            L.append("S %d %d %d %d %d" % (slot, pi, 1 if o["api"] == 0 else 0, o["trans"], i + 1))
        elif k == "query":
            pre = None
            if S["sym"] is not None:
                pre = preset_map(pat, S["sym"][0], S["sym"][1], S["sym"][2], S["sym"][3], o["relax"], cur_ienv[2])
            S["preset_known"] = pre is not None
            fa = fargs(o["refact"] == 1, -1, S["work"], 0, o["nprocs"], o["relax"], o["panel"], 1.0, pre or 0)
            L.append("Q %d %d %d %d %d %s %d" % (slot, pi, 1 if o["api"] == 0 else 0, o["refact"], 1 if o.get("restore") else 0, " ".join(map(str, fa)), i + 1))
        elif k == "qspace":
            L.append("P %d %d" % (slot, pi))
        elif k == "destroy":
            L.append("D %d %d" % (slot, pi)); S["work"] = 0; S["sym"] = None
        lines_for.append((nline, bool(S.get("preset_known", False))))
        nline += 1
    L.append("end")
    return "\n".join(L) + "\n", lines_for


def parse_model_line(ln):
    head, _, rest = ln.partition(" | obs ")
    obs_s, _, sess_s = rest.partition(" | sess ")
    t = head.split()
    d = {"kind": t[0]}
    for kv in t[1:]:
        if "=" in kv:
            k, v = kv.split("="); d[k] = v
    d["obs"] = dict(kv.split("=") for kv in obs_s.split()) if obs_s and obs_s != "none" else None
    d["sess"] = dict(kv.split("=") for kv in sess_s.split()) if sess_s and sess_s != "none" else None
    return d


def f32int(v):
    """(int_t)(float) v  as the C code converts the byte counts"""
    return int(f32(float(v)))


def compare_with_model(case, res, model_out, lines_for):
    """K-exact comparison of the persistent record and of the state-dependent outputs.  Returns list of (op, text)."""
    mm = []
    lines = [parse_model_line(l) for l in model_out.strip().split("\n") if l.strip()]
    live_work = {}      # model buffer id -> slot sid
    lw_of = {}          # model buffer id -> its size
    for i, o in enumerate(case["ops"]):
        if i >= len(res) or not res[i].get("complete"): break
        lf = lines_for[i] if i < len(lines_for) else None
        if lf is None: continue
        li, preset_known = lf
        if li >= len(lines):
            mm.append((i, "model produced no line for op %d" % i)); break
        m = lines[li]; r = res[i]; k = o["op"]
        if k == "first":
            for b in [b for b, sdd in live_work.items() if sdd == o["slot"]]: del live_work[b]
            if o["lwork"] > 0: live_work[1000 + i] = o["slot"]; lw_of[1000 + i] = o["lwork"]
        if k == "destroy":
            for b in [b for b, sdd in live_work.items() if sdd == o["slot"]]: del live_work[b]
        n = next(s for s in case["slots"] if s["sid"] == o["slot"])["pat"]["n"]
        # ---- outcome
        if k in ("first", "refact"):
            info = r["info"]
            if m["kind"] == "factor":
                if not (0 <= info <= n + 1):
                    mm.append((i, "model: factorization runs; C: info=%d" % info))
                elif o["api"] == 0 and int(m["expansions"]) != r.get("expansions"):
                    mm.append((i, "memusage.expansions: model %s, C %s" % (m["expansions"], r.get("expansions"))))
            elif m["kind"] in ("memfail", "workfail"):
                if preset_known and info != f32int(int(m["v"])) and m["kind"] == "memfail":
                    mm.append((i, "memory failure value: model %s, C info=%d" % (m["v"], info)))
                if info <= n:
                    mm.append((i, "model: %s; C: info=%d" % (m["kind"], info)))
            elif m["kind"] in ("invalid", "unmodelled"):
                continue
        elif k == "solve":
            if m["kind"] == "solve" and o["api"] == 0 and m["expansions"] != "none" and int(m["expansions"]) != r.get("expansions"):
                mm.append((i, "solve with existing factors: memusage.expansions model %s, C %s" % (m["expansions"], r.get("expansions"))))
        elif k == "qspace":
            if m["kind"] == "qspace" and int(m["expansions"]) != r.get("expansions"):
                mm.append((i, "superlu_?QuerySpace expansions: model %s, C %s" % (m["expansions"], r.get("expansions"))))
        elif k == "query":
            if m["kind"] == "estimate":
                if preset_known and f32int(int(m["v"])) != r["info"]:
                    mm.append((i, "lwork=-1 estimate (refact=%d): model %d, C info=%d" % (o["refact"], f32int(int(m["v"])), r["info"])))
            elif m["kind"] != "unmodelled":
                mm.append((i, "model outcome %s for a query" % m["kind"]))
            ms = m.get("sess") or {}
            c_empty = all(v == EMPTY for v in r["permr"])
            if not o.get("restore") and (ms.get("permr") == "empty") != c_empty:
                mm.append((i, "perm_r after query: model %s, C %s" % (ms.get("permr"), r["permr"])))
        # ---- observable part of the persistent record
        ob = m.get("obs"); S = r.get("S")
        if ob and S:
            if int(ob["exp"]) != S["exp"]: mm.append((i, "expanders allocated: model %s, C %d" % (ob["exp"], S["exp"])))
            if int(ob["ndim"]) != S["ndim"]: mm.append((i, "ndim: model %s, C %d" % (ob["ndim"], S["ndim"])))
            mh, mt, ma, mav = int(ob["head"]), int(ob["tail"]), int(ob["array"]), int(ob["avail"])
            ch, ct = S["head"].split(":"), S["tail"].split(":")
            if mav != S["avail"] and (mav < 2147483000 and S["avail"] < 2147483000):
                mm.append((i, "user stack size-used-1: model %d, C %d" % (mav, S["avail"])))
            if mh == -1:
                if ch[0] != "null": mm.append((i, "user stack: model says full/unset, C head=%s" % S["head"]))
            elif ma in live_work and 0 <= mh <= lw_of.get(ma, -1) and 0 <= mt <= lw_of.get(ma, -1):
                # (after a failed set-up the offsets can lie outside the buffer; the harness can then not name the buffer)
                want = "slot:%d:%d" % (live_work[ma], mh)
                if S["head"] != want: mm.append((i, "user stack head: model %s, C %s" % (want, S["head"])))
                want = "slot:%d:%d" % (live_work[ma], mt)
                if S["tail"] != want: mm.append((i, "user stack tail: model %s, C %s" % (want, S["tail"])))
    return mm
