#!/usr/bin/env python3
"""reader_mkcorpus.py -- (re)creates the hand-aimed corpus/C20/seed-*.json cases (deterministic).
Each case is a small well-formed file exercising one code path of the readers that a plausible
edit breaks (RHS header line, stale buf[14], 80-column lines, complex pairs, scale prefix,
lower-case descriptors and exponents, free white space of ?readmt)."""
import os, sys, json, base64, random
V = os.path.dirname(os.path.dirname(os.path.abspath(__file__)))
sys.path.insert(0, os.path.join(V, "tools"))
import reader_gen as G


def case(name, fmt, prec, pat, vals, data, style):
    kind, m, n, cp, ri = pat
    o = {"class": "wellformed", "fmt": fmt, "prec": prec, "writer": "py", "pattern": kind, "style": style,
         "exp": {"m": m, "n": n, "nnz": len(ri), "cp": cp, "ri": ri, "dec": [list(v) for v in vals]},
         "data_b64": base64.b64encode(data).decode()}
    d = os.path.join(V, "corpus", "C20")
    os.makedirs(d, exist_ok=True)
    with open(os.path.join(d, "seed-%s.json" % name), "w") as f:
        json.dump(o, f, indent=1)


def ifmt(per, w, text=None):
    return {"per": per, "w": w, "text": text or "(%dI%d)" % (per, w), "style": "std", "m": None}


def main():
    rng = random.Random(2020)
    pat = ("random", 6, 6, [0, 2, 5, 6, 9, 11, 14], [0, 3, 1, 2, 5, 2, 0, 3, 4, 1, 5, 0, 2, 5])
    nnz = 14

    def vals_for(vf, prec, k):
        return [G.gen_value_for(rng, vf, prec) for _ in range(k)]
    # 1. RHS header line + RHS data, lower-case descriptors
    vf = {"kind": "E", "scale": 0, "per": 5, "w": 16, "d": 8, "text": "(5e16.8)"}
    v = vals_for(vf, "d", nnz)
    case("hb-rhs-lowercase", "hb", "d", pat, v,
         G.write_hb(rng, "d", pat, v, ifmt(13, 6, "(13i6)"), ifmt(16, 5, "(16i5)"), vf, {"rhs": True, "pad80": False}), "rhs+lower")
    # 2. title made of digits: a missing terminator after a 14-column header field is visible
    v = vals_for(vf, "s", nnz)
    data = bytearray(G.write_hb(rng, "s", pat, v, ifmt(8, 10), ifmt(8, 10), vf, {"pad80": True}))
    data[0:80] = b"7" * 80
    case("hb-digit-title", "hb", "s", pat, v, bytes(data), "title of digits")
    # 3. 80-column data lines
    big = ("diag", 40, 40, list(range(41)), list(range(40)))
    vf80 = {"kind": "E", "scale": 0, "per": 5, "w": 16, "d": 8, "text": "(5E16.8)"}
    v = vals_for(vf80, "d", 40)
    case("rb-80col", "rb", "d", big, v, G.write_rb(rng, "d", big, v, ifmt(16, 5), ifmt(80, 1 + 1) if False else ifmt(40, 2), vf80, {"pad80": True}), "80 columns")
    case("hb-80col", "hb", "d", big, v, G.write_hb(rng, "d", big, v, ifmt(16, 5), ifmt(40, 2), vf80, {"pad80": True}), "80 columns")
    # 4. complex, odd number of reals per line: pairs straddle lines
    vfz = {"kind": "E", "scale": 0, "per": 3, "w": 26, "d": 18, "text": "(3E26.18)"}
    v = vals_for(vfz, "z", 2 * nnz)
    case("hb-complex-odd", "hb", "z", pat, v, G.write_hb(rng, "z", pat, v, ifmt(10, 8), ifmt(10, 8), vfz, {"mxtype": "CUA"}), "complex 3 per line")
    vfc = {"kind": "E", "scale": 0, "per": 5, "w": 15, "d": 8, "text": "(5E15.8)"}
    v = vals_for(vfc, "c", 2 * nnz)
    case("rb-complex", "rb", "c", pat, v, G.write_rb(rng, "c", pat, v, ifmt(10, 8), ifmt(10, 8), vfc, {"mxtype": "cua"}), "complex 5 per line")
    # 5. scale prefix, D exponents (upper and lower case come from put_val)
    vfp = {"kind": "D", "scale": 1, "per": 4, "w": 20, "d": 12, "text": "(1P4D20.12)"}
    v = vals_for(vfp, "d", nnz)
    case("rb-1P-D", "rb", "d", pat, v, G.write_rb(rng, "d", pat, v, ifmt(10, 8), ifmt(10, 8), vfp, {}), "1P4D20.12")
    case("hb-1P-D", "hb", "d", pat, v, G.write_hb(rng, "d", pat, v, ifmt(10, 8), ifmt(10, 8), vfp, {"rhs": False}), "1P4D20.12")
    # 6. F format
    vff = {"kind": "F", "scale": 0, "per": 6, "w": 13, "d": 6, "text": "(6F13.6)"}
    v = vals_for(vff, "s", nnz)
    case("hb-F", "hb", "s", pat, v, G.write_hb(rng, "s", pat, v, ifmt(20, 4), ifmt(20, 4), vff, {}), "6F13.6")
    # 7. ?readmt with wild white space, real and complex
    v = [G.gen_mt_value(rng, "d") for _ in range(nnz)]
    case("mt-wild", "mt", "d", pat, v, G.write_mt(rng, "d", pat, v, {"ws": "wild", "title_len": 60}), "mt wild")
    v = [G.gen_mt_value(rng, "c") for _ in range(2 * nnz)]
    case("mt-complex-oneline", "mt", "c", pat, v, G.write_mt(rng, "c", pat, v, {"ws": "oneline", "title_len": 79, "final_newline": False}), "mt oneline")
    # 8. empty matrix and empty columns
    e = ("emptycols", 3, 4, [0, 0, 2, 2, 3], [0, 2, 1])
    v = vals_for(vf80, "d", 3)
    case("hb-emptycols", "hb", "d", e, v, G.write_hb(rng, "d", e, v, ifmt(10, 8), ifmt(10, 8), vf80, {}), "empty columns")
    z = ("empty", 2, 2, [0, 0, 0], [])
    case("rb-empty", "rb", "d", z, [], G.write_rb(rng, "d", z, [], ifmt(10, 8), ifmt(10, 8), vf80, {}), "nnz = 0")


if __name__ == "__main__":
    main()
