#!/usr/bin/env python3
"""usage: gen_trans.py <repo> <coqdir>  -- re-translate decision logic of /repo/SRC into Gallina (tools/c2gal.py) on every run:
     coq/ArgCheckGen.v   the argument tests of p?gssv, ?gstrs, ?gsrfs, ?gscon, ?gsequ, sp_?trsv, sp_?gemv (4 precisions each)
     coq/PivotGen.v      the pivot search and pivot policy of p?gstrf_pivotL (4 precisions)
     coq/UstackGen.v     the two-ended user stack of p?memory.c: ?user_malloc, ?user_free (4 precisions)
     coq/AllocGen.v      the bump allocators of the factor storage in pmemory.c: Glu_alloc, DynamicSetMap (one file for all precisions)
   The tie theorems (generated definition = hand-written model) live in the hand-written coq/*Tie.v files.
   A piece that cannot be translated is left out of the generated file with the reason in a comment: its tie theorem then
   fails to compile, which the checks report as a broken obligation."""
import sys, os
sys.path.insert(0, os.path.dirname(os.path.abspath(__file__)))
import c2gal
from c2gal import Unsupported, strip, mentions

REPO = sys.argv[1] if len(sys.argv) > 1 else "/repo"
COQ = sys.argv[2] if len(sys.argv) > 2 else os.path.join(os.path.dirname(os.path.dirname(os.path.abspath(__file__))), "coq")
SRC = os.path.join(REPO, "SRC")

MAT_FIELDS = {"nrow": "m_nr", "ncol": "m_nc", "Stype": "m_st", "Dtype": "m_dt", "Mtype": "m_mt", "lda": "m_lda"}


def write_if_changed(path, txt):
    if os.path.exists(path) and open(path).read() == txt:
        return
    open(path, "w").write(txt)


def h_lsame(tr, args, env):
    a = strip(args[0])
    if a.get("kind") != "DeclRefExpr":
        raise Unsupported("lsame_ first argument")
    s = strip(args[1])
    if s.get("kind") != "StringLiteral":
        raise Unsupported("lsame_ second argument is not a string literal")
    lit = s["value"].strip('"')
    return ("(lsame %s %d)" % (tr.var(a["referencedDecl"]["name"], env)[0], ord(lit[0])), "B")


def is_assign_to(s, name):
    """statement `name = ...` / `*name = ...`"""
    if s.get("kind") != "BinaryOperator" or s.get("opcode") != "=":
        return False
    l = strip(s["inner"][0])
    if l.get("kind") == "UnaryOperator" and l.get("opcode") == "*":
        l = strip(l["inner"][0])
    return l.get("kind") == "DeclRefExpr" and l["referencedDecl"]["name"] == name


def calls(n, fname):
    return mentions(n, lambda x: x.get("kind") == "CallExpr" and strip(x["inner"][0]).get("referencedDecl", {}).get("name") == fname)


# routine table: file pattern, function pattern, parameters of the generated function (C name, Gallina binder), info variable
ROUTINES = [
    ("gssv",  "p%sgssv.c",    "p%sgssv",   [("nprocs", "nprocs", "Z"), ("A", "A", "mat"), ("B", "B", "mat")], "*info", []),
    ("gstrs", "%sgstrs.c",    "%sgstrs",   [("trans", "trans", "Z"), ("L", "L", "mat"), ("U", "U", "mat"), ("B", "B", "mat")], "*info", []),
    ("gsrfs", "%sgsrfs.c",    "%sgsrfs",   [("trans", "trans", "Z"), ("A", "A", "mat"), ("L", "L", "mat"), ("U", "U", "mat"), ("B", "B", "mat"), ("X", "X", "mat")], "*info", []),
    ("gscon", "%sgscon.c",    "%sgscon",   [("norm", "norm", "Z"), ("L", "L", "mat"), ("U", "U", "mat")], "*info", []),
    ("gsequ", "%sgsequ.c",    "%sgsequ",   [("A", "A", "mat")], "*info", []),
    ("trsv",  "%ssp_blas2.c", "sp_%strsv", [("uplo", "uplo", "Z"), ("trans", "trans", "Z"), ("diag", "diag", "Z"), ("L", "L", "mat"), ("U", "U", "mat")], "*info", []),
    ("gemv",  "%ssp_blas2.c", "sp_%sgemv", [("trans", "trans", "Z"), ("A", "A", "mat"), ("incx", "incx", "Z"), ("incy", "incy", "Z")], "info", ["notran"]),
]


def gen_argcheck():
    out = ["(* GENERATED on every run by tools/gen_trans.py (translator tools/c2gal.py, clang AST) from the argument tests at the top of",
           "   p?gssv, ?gstrs, ?gsrfs, ?gscon, ?gsequ, sp_?trsv, sp_?gemv in %s -- do not edit.  gen_<routine>_check returns the value" % SRC,
           "   the C code has in its info variable when it reaches `if ( info != 0 ) { ... xerbla_ ... return; }`. *)",
           "Require Import ZArith List Bool.", "From SLU Require Import Consts ArgCheckModel.", "Local Open Scope Z_scope.", "Local Open Scope bool_scope.", ""]
    ok = 0
    for (rname, fpat, fnpat, params, infovar, pre) in ROUTINES:
        for p in "sdcz":
            cfile = os.path.join(SRC, fpat % p)
            fname = fnpat % p
            gname = "gen_%s_check" % fname
            try:
                fn = c2gal.load_function(cfile, fname, incdir=SRC)
                inputs = {}
                cells = set()
                for (cn, gn, ty) in params:
                    inputs[cn] = (gn, "Z")
                    if ty == "Z" and cn in ("norm",):
                        inputs["*" + cn] = (gn, "Z")
                        cells.add(cn)
                iv = infovar.lstrip("*")
                if infovar.startswith("*"):
                    cells.add(iv)
                cfg = {"inputs": inputs, "cells": cells, "fields": MAT_FIELDS, "calls": {"lsame_": h_lsame}, "ignore_calls": set()}
                body = [c for c in fn["inner"] if c.get("kind") == "CompoundStmt"][0]["inner"]

                def pick(stmts):
                    i0 = next((i for i, s in enumerate(stmts) if is_assign_to(s, iv) and strip(s["inner"][1]).get("kind") == "IntegerLiteral"), None)
                    if i0 is None:
                        raise Unsupported("`%s = 0` not found" % infovar)
                    i1 = next((i for i in range(i0, len(stmts)) if stmts[i].get("kind") == "IfStmt" and calls(stmts[i]["inner"][1], "xerbla_")
                               and not is_assign_to(stmts[i]["inner"][1], iv)), None)
                    if i1 is None:
                        raise Unsupported("`if ( %s != 0 ) { xerbla_ ... }` not found" % infovar)
                    # plain assignments before `info = 0` that the translator understands (Xstore = X->Store; ldb = Bstore->lda;
                    # notran = lsame_(trans, "N"); ...) are part of the slice: the tests read these locals
                    first = []
                    for s in stmts[:i0]:
                        if s.get("kind") == "BinaryOperator" and s.get("opcode") == "=":
                            try:
                                t2 = c2gal.Tr(cfg); t2.alias = dict(tr.alias)
                                t2.seq(first + [s], dict(inputs), lambda e: "")
                                first.append(s)
                            except Unsupported:
                                pass
                    return first + stmts[i0:i1]
                tr = c2gal.Tr(cfg)
                env = dict(inputs)
                for s in body:      # aliases set up by declarations (XStore = X->Store)
                    if s.get("kind") == "DeclStmt":
                        for d in s.get("inner", []):
                            if d.get("kind") == "VarDecl" and tr.is_alias_init(d):
                                b = strip(strip(d["inner"][0])["inner"][0])
                                tr.alias[d["name"]] = b["referencedDecl"]["name"]
                term = tr.seq(pick(body), env, lambda e: e[infovar][0] if infovar in e else e[iv][0])
                binders = " ".join("(%s : %s)" % (gn, ty) for (_, gn, ty) in params)
                out.append("(* %s : %s *)" % (os.path.basename(cfile), fname))
                out.append("Definition %s %s : Z :=\n%s.\n" % (gname, binders, term))
                ok += 1
            except Unsupported as e:
                out.append("(* %s NOT TRANSLATED: %s *)\n" % (gname, str(e).replace("*)", "* )")))
    write_if_changed(os.path.join(COQ, "ArgCheckGen.v"), "\n".join(out) + "\n")
    return ok


# ------------------------------------------------------------------------------------------------ pivot search and policy
def reads_array(n, names):
    return mentions(n, lambda x: x.get("kind") == "ArraySubscriptExpr" and strip(x["inner"][0]).get("kind") == "DeclRefExpr"
                    and strip(x["inner"][0])["referencedDecl"]["name"] in names)


def is_store_to(s, name):
    if s.get("kind") != "BinaryOperator" or s.get("opcode") != "=":
        return False
    l = strip(s["inner"][0])
    return l.get("kind") == "ArraySubscriptExpr" and strip(l["inner"][0]).get("kind") == "DeclRefExpr" \
        and strip(l["inner"][0])["referencedDecl"]["name"] == name


def h_at_jcol(gname):
    """inv_perm_r[jcol] / inv_perm_c[jcol]: only the entry of the current column is an input"""
    def h(tr, idx, env):
        i = strip(idx)
        if i.get("kind") == "DeclRefExpr" and i["referencedDecl"]["name"] == "jcol":
            return (gname, "Z")
        raise Unsupported("read of %s at an index other than jcol" % gname)
    return h


def h_mag(by_address):
    """fabs(lu_col_ptr[i]) / z_abs1(&lu_col_ptr[i]) / c_abs1(&lu_col_ptr[i])  ==>  (mag i): the magnitude the code compares"""
    def h(tr, args, env):
        if len(args) != 1:
            raise Unsupported("magnitude call with %d arguments" % len(args))
        a = strip(args[0])
        if by_address:
            if a.get("kind") != "UnaryOperator" or a.get("opcode") != "&":
                raise Unsupported("?_abs1 argument is not &lu_col_ptr[i]")
            a = strip(a["inner"][0])
        if a.get("kind") != "ArraySubscriptExpr" or strip(a["inner"][0]).get("kind") != "DeclRefExpr" \
                or strip(a["inner"][0])["referencedDecl"]["name"] != "lu_col_ptr":
            raise Unsupported("magnitude of something that is not lu_col_ptr[i]")
        return ("(mag %s)" % tr.toZ(tr.ex(a["inner"][1], env)), "Z")
    return h


PIVOT_PARAMS = [("jcol", "Z"), ("nsupc", "Z"), ("nsupr", "Z"), ("usepr", "Z"), ("pivrow0", "Z"), ("oldrow", "Z"), ("diagind", "Z"),
                ("row", "Z -> Z"), ("mag", "Z -> Z"), ("thr", "Z")]
PIVOT_ABS = {"s": {"fabs": h_mag(False)}, "d": {"fabs": h_mag(False)}, "c": {"c_abs1": h_mag(True)}, "z": {"z_abs1": h_mag(True)}}


def gen_pivot():
    out = ["(* GENERATED on every run by tools/gen_trans.py (translator tools/c2gal.py, clang AST built WITHOUT -DSLU_MT_VERIF) from the",
           "   pivot search and pivot policy of p?gstrf_pivotL in %s -- do not edit." % SRC,
           "   Slice: from the first statement that reads inv_perm_r[] / inv_perm_c[] up to, not including, `perm_r[*pivrow] = jcol;`.",
           "   Inputs: jcol; nsupc, nsupr (set up before the slice, not translated); usepr = *usepr and pivrow0 = *pivrow on entry;",
           "   oldrow = inv_perm_r[jcol]; diagind = inv_perm_c[jcol]; row i = lsub_ptr[i]; mag i = the magnitude the code computes",
           "   from lu_col_ptr[i] (fabs, c_abs1, z_abs1), scaled to an integer; 0.0 is 0; thr = the value of `thresh = u * pivmax`.",
           "   Stores to perm_r[] / inv_perm_r[] are dropped (neither array is read after such a store inside the slice).",
           "   Result (returned, info, pivptr, *pivrow, *usepr): returned = true, info = the returned value for the early return of the",
           "   singular branch; returned = false, info = 0 when the slice runs to its end (the routine then ends with `return 0;`).",
           "   Loop bodies are definitions of their own (gen_<routine>_loop<k>); tuples list variables in declaration order. *)",
           "Require Import ZArith List Bool.", "From SLU Require Import Consts C2GalLib.", "Local Open Scope Z_scope.", "Local Open Scope bool_scope.", ""]
    ok = 0
    for p in "sdcz":
        fname = "p%sgstrf_pivotL" % p
        gname = "gen_" + fname
        cfile = os.path.join(SRC, fname + ".c")
        try:
            fn = c2gal.load_function(cfile, fname, incdir=SRC)
            body = [c for c in fn["inner"] if c.get("kind") == "CompoundStmt"][0]["inner"]
            i0 = next((i for i, s in enumerate(body) if reads_array(s, ("inv_perm_r", "inv_perm_c"))), None)
            if i0 is None:
                raise Unsupported("start of the slice (first read of inv_perm_r / inv_perm_c) not found")
            i1 = next((i for i in range(i0, len(body)) if is_store_to(body[i], "perm_r")), None)
            if i1 is None:
                raise Unsupported("end of the slice (`perm_r[*pivrow] = jcol;` at the top level) not found")
            rest = body[i1:]
            last = rest[-1] if rest else {}
            if last.get("kind") != "ReturnStmt" or strip(last["inner"][0]).get("kind") != "IntegerLiteral" or strip(last["inner"][0])["value"] != "0" \
                    or any(mentions(s, lambda x: x.get("kind") == "ReturnStmt") for s in rest[:-1]):
                raise Unsupported("after the slice the routine does not simply end with `return 0;`")
            for s in body[:i0]:
                if mentions(s, lambda x: x.get("kind") == "ReturnStmt"):
                    raise Unsupported("a return before the slice")

            def result(tr, env, returned, info):
                try:
                    return "(%s, %s, %s, %s, %s)" % (returned, info, tr.toZ(env["pivptr"]), tr.toZ(env["*pivrow"]), tr.toZ(env["*usepr"]))
                except KeyError as e:
                    raise Unsupported("%s has no value at an exit of the slice" % e)
            cfg = {"inputs": {"jcol": ("jcol", "Z"), "nsupc": ("nsupc", "Z"), "nsupr": ("nsupr", "Z"),
                              "*usepr": ("usepr", "Z"), "*pivrow": ("pivrow0", "Z")},
                   "cells": {"usepr", "pivrow"},
                   "arrays": {"lsub_ptr": "row", "inv_perm_r": h_at_jcol("oldrow"), "inv_perm_c": h_at_jcol("diagind")},
                   "calls": PIVOT_ABS[p], "ignore_calls": set(), "ignore_stores": {"perm_r", "inv_perm_r"},
                   "override": {"thresh": ("thr", "Z")}, "zero_float": True, "local_temps": True,
                   "state_order": c2gal.decl_order(fn), "lift_loops": gname, "params": PIVOT_PARAMS,
                   "on_return": lambda tr, env, val: result(tr, env, "true", tr.toZ(val) if val else "0")}
            tr = c2gal.Tr(cfg)
            term = tr.seq(body[i0:i1], dict(cfg["inputs"]), lambda e: result(tr, e, "false", "0"))
            out.append("(* %s : %s *)" % (os.path.basename(cfile), fname))
            for l in tr.lifted:
                out.append("(* state %s; outer names %s *)" % (", ".join(l[2]), ", ".join(l[3])))
                out.append(l[1])
            out.append("Definition %s %s : bool * Z * Z * Z * Z :=\n%s.\n" % (gname, " ".join("(%s : %s)" % b for b in PIVOT_PARAMS), term))
            ok += 1
        except Unsupported as e:
            out.append("(* %s NOT TRANSLATED: %s *)\n" % (gname, str(e).replace("*)", "* )")))
    write_if_changed(os.path.join(COQ, "PivotGen.v"), "\n".join(out) + "\n")
    return ok


# ---------------------------------------------------------------------------------------------------
# the two-ended user stack of p?memory.c
USTACK_VAR = "stack"
USTACK_CELLS = ["size", "used", "top1", "top2"]          # int_t fields: inputs and outputs of the generated functions
USTACK_BASE = "array"                                    # void *array: the tracked base pointer (its address is a parameter)
USTACK_LOCK = "lock"
USTACK_ENUMS = ["HEAD", "TAIL"]


def gen_ustack():
    out = ["(* GENERATED on every run by tools/gen_trans.py (translator tools/c2gal.py, clang AST, built WITHOUT -DSLU_MT_VERIF) from",
           "   ?user_malloc / ?user_free of p?memory.c in %s -- do not edit." % SRC,
           "   gen_<p>user_malloc stk_size stk_used stk_top1 stk_top2 stk_array <bytes> <which_end> = (returned pointer, (size, used, top1, top2)):",
           "   the stk_* are the fields of the file-static `stack` before the call, stk_array is the ADDRESS held in stack.array; the result",
           "   pointer is a C2GalLib.cptr: None = NULL, Some off = (char * ) stack.array + off.  The second component holds the fields after",
           "   the call.  int_t arithmetic is arithmetic in Z (no wrap-around); the critical section (pthread_mutex_lock / unlock of",
           "   &stack.lock) is checked by the translator: every access to a field happens with the lock held, every path releases it. *)",
           "Require Import ZArith List Bool.", "From SLU Require Import C2GalLib.", "Local Open Scope Z_scope.", "Local Open Scope bool_scope.", ""]
    ok = 0
    cellnames = ["%s.%s" % (USTACK_VAR, f) for f in USTACK_CELLS]
    basename = "%s.%s" % (USTACK_VAR, USTACK_BASE)
    for p in "sdcz":
        cfile = os.path.join(SRC, "p%smemory.c" % p)
        enums = {}
        try:
            vals = c2gal.int_constants(cfile, USTACK_ENUMS, incdir=SRC)
            out.append("(* %s : the values of the enumeration stack_end_t *)" % os.path.basename(cfile))
            for x in USTACK_ENUMS:
                out.append("Definition gen_%s_%s : Z := %d." % (p, x, vals[x]))
                enums[x] = "gen_%s_%s" % (p, x)
            out.append("")
        except Unsupported as e:
            out.append("(* gen_%s_HEAD / gen_%s_TAIL NOT TRANSLATED: %s *)\n" % (p, p, str(e).replace("*)", "* )")))
        for which in ("malloc", "free"):
            fname = "%suser_%s" % (p, which)
            gname = "gen_" + fname
            try:
                fn = c2gal.load_function(cfile, fname, incdir=SRC)
                params = [c for c in fn.get("inner", []) if c.get("kind") == "ParmVarDecl"]
                if len(params) != 2 or any("name" not in c or c["type"].get("desugaredQualType", c["type"]["qualType"]) not in ("int", "long", "long long") for c in params):
                    raise Unsupported("%s does not have two named integer parameters" % fname)
                inputs = {cn: ("stk_" + f, "Z") for cn, f in zip(cellnames, USTACK_CELLS)}
                for c in params:
                    if c["name"].startswith("stk_") or c["name"].startswith("gen_"):
                        raise Unsupported("parameter name %s clashes with the generated binders" % c["name"])
                    inputs[c["name"]] = (c2gal.gallina_ident(c["name"]), "Z")

                def result(val, env):
                    if "#lock" in env:
                        raise Unsupported("%s returns while the lock is held" % fname)
                    return "(%s, (%s))" % (val, ", ".join(env[cn][0] for cn in cellnames))

                def on_return(tr, env, val, which=which):
                    if which == "malloc":
                        if val is None or val[1] != "P":
                            raise Unsupported("%s returns something that is not a pointer" % fname)
                        return result(val[0], env)
                    if val is not None:
                        raise Unsupported("%s returns a value" % fname)
                    return result("tt", env)

                def final(tr, env, which=which):
                    if which == "malloc":
                        raise Unsupported("%s can reach its end without a return" % fname)
                    return result("tt", env)
                cfg = {"inputs": inputs, "globals": {USTACK_VAR: set(USTACK_CELLS)}, "base_ptr": {basename: "stk_array"},
                       "enums": enums, "dup_ifs": True, "on_return": on_return, "ignore_calls": set(),
                       "lock": {"acquire": {"pthread_mutex_lock"}, "release": {"pthread_mutex_unlock"}, "object": (USTACK_VAR, USTACK_LOCK),
                                "guards": set(cellnames) | {basename}}}
                term = c2gal.translate_slice(fn, cfg, final=final)
                rty = "cptr" if which == "malloc" else "unit"
                out.append("(* %s : %s *)" % (os.path.basename(cfile), fname))
                out.append("Definition %s (stk_size stk_used stk_top1 stk_top2 : Z) (stk_array : Z) (%s : Z) : %s * (Z * Z * Z * Z) :=\n%s.\n"
                           % (gname, " ".join(c2gal.gallina_ident(c["name"]) for c in params), rty, term))
                ok += 1
            except Unsupported as e:
                out.append("(* %s NOT TRANSLATED: %s *)\n" % (gname, str(e).replace("*)", "* )")))
    write_if_changed(os.path.join(COQ, "UstackGen.v"), "\n".join(out) + "\n")
    return ok


# ---------------------------------------------------------------------------------------------------
# the bump allocators of the factor storage: Glu_alloc, DynamicSetMap (pmemory.c, one file for all precisions)
ALLOC_CELLS = ["nextlu", "nextu", "nextl", "nzlumax", "nzumax", "nzlmax"]   # int_t fields of *pxgstrf_shared->Glu: inputs and outputs
ALLOC_MAP = "map_in_sup"                                                    # int_t *map_in_sup: a mutable array (Z -> Z), input and output
ALLOC_GUARDS = {"nextu": "ULOCK", "nextl": "LLOCK", "nextlu": "LULOCK"}     # next-pointer -> index of ITS lock in pxgstrf_shared->lu_locks[]
ALLOC_MEMTYPES = ["LUSUP", "UCOL", "LSUB", "USUB"]
ALLOC_IGNORE = {"fprintf", "printf", "sprintf", "fflush"}                   # the XPAND_HINT / SUPERLU_ABORT messages
ALLOC_ABORT = {"superlu_abort_and_exit", "exit", "abort"}                   # never return
ALLOC_INT = ("int", "long", "long long", "const int", "const long", "const long long", "int_t", "const int_t", "MemType", "const MemType")


def gen_alloc():
    cfile = os.path.join(SRC, "pmemory.c")
    cellb = ["glu_" + f for f in ALLOC_CELLS]
    out = ["(* GENERATED on every run by tools/gen_trans.py (translator tools/c2gal.py, clang AST, pthread build, WITHOUT -DSLU_MT_VERIF)",
           "   from Glu_alloc / DynamicSetMap of %s (one file for all precisions) -- do not edit." % cfile,
           "   gen_Glu_alloc pnum jcol num mem_type prev0 glu_map %s" % " ".join(cellb),
           "     = Returned (returned value, *prev_next, map_in_sup, (%s))  |  Aborted" % ", ".join(ALLOC_CELLS),
           "   prev0 = *prev_next on entry; glu_map = the array pxgstrf_shared->Glu->map_in_sup as a function Z -> Z (a store is C2GalLib.zupd);",
           "   the glu_* are the int_t fields of *pxgstrf_shared->Glu on entry; the components of the result are the values on return.",
           "   Aborted = the path ends in a call that never returns (%s: the SUPERLU_ABORT of XPAND_HINT);" % ", ".join(sorted(ALLOC_ABORT)),
           "   calls of %s are dropped (their arguments have no side effect: checked).  int_t arithmetic is arithmetic in Z." % ", ".join(sorted(ALLOC_IGNORE)),
           "   Lock discipline, checked by the translator: %s is only touched while pxgstrf_shared->lu_locks[<its lock>] is held"
           % ", ".join("%s [%s]" % (f, l) for f, l in sorted(ALLOC_GUARDS.items())),
           "   (pthread_mutex_lock / pthread_mutex_unlock), no lock is taken while one is held, every return happens with no lock held. *)",
           "Require Import ZArith List Bool.", "From SLU Require Import C2GalLib.", "Local Open Scope Z_scope.", "Local Open Scope bool_scope.", ""]
    ok = 0
    enums = {}
    try:
        vals = c2gal.int_constants(cfile, ALLOC_MEMTYPES, incdir=SRC)
        out.append("(* the values of the enumeration MemType as pmemory.c sees them *)")
        for x in ALLOC_MEMTYPES:
            out.append("Definition gen_%s : Z := %d." % (x, vals[x]))
            enums[x] = "gen_%s" % x
        out.append("")
    except Unsupported as e:
        out.append("(* gen_LUSUP .. gen_USUB NOT TRANSLATED: %s *)\n" % str(e).replace("*)", "* )"))
    for fname, has_prev in (("Glu_alloc", True), ("DynamicSetMap", False)):
        gname = "gen_" + fname
        try:
            fn = c2gal.load_function(cfile, fname, incdir=SRC)
            params = [c for c in fn.get("inner", []) if c.get("kind") == "ParmVarDecl"]
            if any("name" not in c for c in params):
                raise Unsupported("%s has an unnamed parameter" % fname)
            ty = lambda c: c["type"].get("desugaredQualType", c["type"]["qualType"]).strip()
            roots = [c["name"] for c in params if c["type"]["qualType"].replace(" ", "") == "pxgstrf_shared_t*"]
            ints = [c["name"] for c in params if ty(c) in ALLOC_INT]
            outp = [c["name"] for c in params if ty(c).replace(" ", "") in ("int*", "long*", "longlong*", "int_t*")]
            if len(roots) != 1 or len(outp) != (1 if has_prev else 0) or len(roots) + len(ints) + len(outp) != len(params):
                raise Unsupported("%s: parameters are not integers, %sone pxgstrf_shared_t *" % (fname, "one int_t *, " if has_prev else ""))
            glu = roots[0] + "->Glu"
            cellp = ["%s->%s" % (glu, f) for f in ALLOC_CELLS]
            mapp = "%s->%s" % (glu, ALLOC_MAP)
            inputs = {cp: (b, "Z") for cp, b in zip(cellp, cellb)}
            inputs[mapp] = ("glu_map", "F")
            for nm in ints:
                if nm.startswith("glu_") or nm.startswith("gen_") or nm == "prev0":
                    raise Unsupported("parameter name %s clashes with the generated binders" % nm)
                inputs[nm] = (c2gal.gallina_ident(nm), "Z")
            for nm in outp:
                inputs["*" + nm] = ("prev0", "Z")

            def result(tr, env, val, fname=fname, outp=outp, mapp=mapp, cellp=cellp):
                if tr.held(env):
                    raise Unsupported("%s returns while a lock is held (%s)" % (fname, ", ".join(tr.held(env))))
                if val is None or val[1] not in ("Z", "B"):
                    raise Unsupported("%s returns no integer value" % fname)
                comps = [tr.toZ(val)] + [env["*" + nm][0] for nm in outp] + [env[mapp][0], "(%s)" % ", ".join(env[cp][0] for cp in cellp)]
                return "Returned (%s)" % ", ".join(comps)

            def final(tr, env, fname=fname):
                raise Unsupported("%s can reach its end without a return" % fname)
            cfg = {"inputs": inputs, "cells": set(outp), "roots": set(roots), "pcells": set(cellp), "parrays": {mapp},
                   "enums": enums, "dup_ifs": True, "on_return": result, "on_abort": lambda tr, env: "Aborted",
                   "ignore_calls": ALLOC_IGNORE, "abort_calls": ALLOC_ABORT,
                   "lock": {"acquire": {"pthread_mutex_lock"}, "release": {"pthread_mutex_unlock"}, "object_path": roots[0] + "->lu_locks",
                            "guards": {"%s->%s" % (glu, f): l for f, l in ALLOC_GUARDS.items()}}}
            term = c2gal.translate_slice(fn, cfg, final=final)
            rty = "Z * Z * (Z -> Z)" if has_prev else "Z * (Z -> Z)"
            out.append("(* %s : %s *)" % (os.path.basename(cfile), fname))
            out.append("Definition %s (%s : Z)%s (glu_map : Z -> Z) (%s : Z)\n  : outcome (%s * (%s)) :=\n%s.\n"
                       % (gname, " ".join(c2gal.gallina_ident(nm) for nm in ints), " (prev0 : Z)" if has_prev else "", " ".join(cellb),
                          rty, " * ".join("Z" for _ in cellb), term))
            ok += 1
        except Unsupported as e:
            out.append("(* %s NOT TRANSLATED: %s *)\n" % (gname, str(e).replace("*)", "* )")))
    write_if_changed(os.path.join(COQ, "AllocGen.v"), "\n".join(out) + "\n")
    return ok


if __name__ == "__main__":
    n = gen_argcheck()
    print("gen_trans: ArgCheckGen.v %d/28 routines translated" % n)
    n = gen_pivot()
    print("gen_trans: PivotGen.v %d/4 routines translated" % n)
    n = gen_ustack()
    print("gen_trans: UstackGen.v %d/8 functions translated" % n)
    n = gen_alloc()
    print("gen_trans: AllocGen.v %d/2 functions translated" % n)
    import gen_trans_sched      # the scheduler part: own extension of the translator (tools/c2gal_sched.py)
    n = gen_trans_sched.gen_sched()
    print("gen_trans: SchedGen.v %s/1 functions translated" % n)
    n = gen_trans_sched.gen_init()   # the initial state: pxgstrf_relax_snode, queue_init, EnqueueRelaxSnode, ParallelInit
    print("gen_trans: SchedInitGen.v %s/4 functions translated" % n)
    import gen_trans_wf         # countnz / fixupL of util.c: own extension of the translator (tools/c2gal_wf.py)
    n = gen_trans_wf.gen_wf()
    print("gen_trans: WellFormedGen.v %s/2 functions translated" % n)
    import gen_trans_pm         # ?PresetMap of p?memory.c (+ ifill of util.c): own extension of the translator (tools/c2gal_pm.py)
    n = gen_trans_pm.gen_pm()
    print("gen_trans: PresetMapGen.v %s/5 functions translated" % n)
    import gen_trans_busy       # pxgstrf_mark_busy_descends: own extension of the translator (tools/c2gal_busy.py)
    n = gen_trans_busy.gen_busy()
    print("gen_trans: BusyGen.v %s/1 functions translated" % n)
