#!/usr/bin/env python3
"""usage: gen_trans.py <repo> <coqdir>  -- re-translate decision logic of /repo/SRC into Gallina (tools/c2gal.py) on every run:
     coq/ArgCheckGen.v   the argument tests of p?gssv, ?gstrs, ?gsrfs, ?gscon, ?gsequ, sp_?trsv, sp_?gemv (4 precisions each)
   The tie theorems (generated definition = hand-written model) live in the hand-written coq/*Tie.v files.
   A piece that cannot be translated is left out of the generated file with the reason in a comment: its tie theorem then
   fails to compile, which the checks report as a broken obligation."""
import sys, os
sys.path.insert(0, os.path.dirname(os.path.abspath(__file__)))
import c2gal
from c2gal import Unsupported, strip, mentions

REPO = sys.argv[1] if len(sys.argv) > 1 else "/repo"
COQ = sys.argv[2] if len(sys.argv) > 2 else os.path.join(os.path.dirname(os.path.dirname(os.path.abspath(__file__))), "coq")
SRC = os.path.join(REPO, "SRC")

MAT_FIELDS = {"nrow": "m_nr", "ncol": "m_nc", "Stype": "m_st", "Dtype": "m_dt", "Mtype": "m_mt", "lda": "m_lda"}


def write_if_changed(path, txt):
    if os.path.exists(path) and open(path).read() == txt:
        return
    open(path, "w").write(txt)


def h_lsame(tr, args, env):
    a = strip(args[0])
    if a.get("kind") != "DeclRefExpr":
        raise Unsupported("lsame_ first argument")
    s = strip(args[1])
    if s.get("kind") != "StringLiteral":
        raise Unsupported("lsame_ second argument is not a string literal")
    lit = s["value"].strip('"')
    return ("(lsame %s %d)" % (tr.var(a["referencedDecl"]["name"], env)[0], ord(lit[0])), "B")


def is_assign_to(s, name):
    """statement `name = ...` / `*name = ...`"""
    if s.get("kind") != "BinaryOperator" or s.get("opcode") != "=":
        return False
    l = strip(s["inner"][0])
    if l.get("kind") == "UnaryOperator" and l.get("opcode") == "*":
        l = strip(l["inner"][0])
    return l.get("kind") == "DeclRefExpr" and l["referencedDecl"]["name"] == name


def calls(n, fname):
    return mentions(n, lambda x: x.get("kind") == "CallExpr" and strip(x["inner"][0]).get("referencedDecl", {}).get("name") == fname)


# routine table: file pattern, function pattern, parameters of the generated function (C name, Gallina binder), info variable
ROUTINES = [
    ("gssv",  "p%sgssv.c",    "p%sgssv",   [("nprocs", "nprocs", "Z"), ("A", "A", "mat"), ("B", "B", "mat")], "*info", []),
    ("gstrs", "%sgstrs.c",    "%sgstrs",   [("trans", "trans", "Z"), ("L", "L", "mat"), ("U", "U", "mat"), ("B", "B", "mat")], "*info", []),
    ("gsrfs", "%sgsrfs.c",    "%sgsrfs",   [("trans", "trans", "Z"), ("A", "A", "mat"), ("L", "L", "mat"), ("U", "U", "mat"), ("B", "B", "mat"), ("X", "X", "mat")], "*info", []),
    ("gscon", "%sgscon.c",    "%sgscon",   [("norm", "norm", "Z"), ("L", "L", "mat"), ("U", "U", "mat")], "*info", []),
    ("gsequ", "%sgsequ.c",    "%sgsequ",   [("A", "A", "mat")], "*info", []),
    ("trsv",  "%ssp_blas2.c", "sp_%strsv", [("uplo", "uplo", "Z"), ("trans", "trans", "Z"), ("diag", "diag", "Z"), ("L", "L", "mat"), ("U", "U", "mat")], "*info", []),
    ("gemv",  "%ssp_blas2.c", "sp_%sgemv", [("trans", "trans", "Z"), ("A", "A", "mat"), ("incx", "incx", "Z"), ("incy", "incy", "Z")], "info", ["notran"]),
]


def gen_argcheck():
    out = ["(* GENERATED on every run by tools/gen_trans.py (translator tools/c2gal.py, clang AST) from the argument tests at the top of",
           "   p?gssv, ?gstrs, ?gsrfs, ?gscon, ?gsequ, sp_?trsv, sp_?gemv in %s -- do not edit.  gen_<routine>_check returns the value" % SRC,
           "   the C code has in its info variable when it reaches `if ( info != 0 ) { ... xerbla_ ... return; }`. *)",
           "Require Import ZArith List Bool.", "From SLU Require Import Consts ArgCheckModel.", "Local Open Scope Z_scope.", "Local Open Scope bool_scope.", ""]
    ok = 0
    for (rname, fpat, fnpat, params, infovar, pre) in ROUTINES:
        for p in "sdcz":
            cfile = os.path.join(SRC, fpat % p)
            fname = fnpat % p
            gname = "gen_%s_check" % fname
            try:
                fn = c2gal.load_function(cfile, fname, incdir=SRC)
                inputs = {}
                cells = set()
                for (cn, gn, ty) in params:
                    inputs[cn] = (gn, "Z")
                    if ty == "Z" and cn in ("norm",):
                        inputs["*" + cn] = (gn, "Z")
                        cells.add(cn)
                iv = infovar.lstrip("*")
                if infovar.startswith("*"):
                    cells.add(iv)
                cfg = {"inputs": inputs, "cells": cells, "fields": MAT_FIELDS, "calls": {"lsame_": h_lsame}, "ignore_calls": set()}
                body = [c for c in fn["inner"] if c.get("kind") == "CompoundStmt"][0]["inner"]

                def pick(stmts):
                    i0 = next((i for i, s in enumerate(stmts) if is_assign_to(s, iv) and strip(s["inner"][1]).get("kind") == "IntegerLiteral"), None)
                    if i0 is None:
                        raise Unsupported("`%s = 0` not found" % infovar)
                    i1 = next((i for i in range(i0, len(stmts)) if stmts[i].get("kind") == "IfStmt" and calls(stmts[i]["inner"][1], "xerbla_")
                               and not is_assign_to(stmts[i]["inner"][1], iv)), None)
                    if i1 is None:
                        raise Unsupported("`if ( %s != 0 ) { xerbla_ ... }` not found" % infovar)
                    # plain assignments before `info = 0` that the translator understands (Xstore = X->Store; ldb = Bstore->lda;
                    # notran = lsame_(trans, "N"); ...) are part of the slice: the tests read these locals
                    first = []
                    for s in stmts[:i0]:
                        if s.get("kind") == "BinaryOperator" and s.get("opcode") == "=":
                            try:
                                t2 = c2gal.Tr(cfg); t2.alias = dict(tr.alias)
                                t2.seq(first + [s], dict(inputs), lambda e: "")
                                first.append(s)
                            except Unsupported:
                                pass
                    return first + stmts[i0:i1]
                tr = c2gal.Tr(cfg)
                env = dict(inputs)
                for s in body:      # aliases set up by declarations (XStore = X->Store)
                    if s.get("kind") == "DeclStmt":
                        for d in s.get("inner", []):
                            if d.get("kind") == "VarDecl" and tr.is_alias_init(d):
                                b = strip(strip(d["inner"][0])["inner"][0])
                                tr.alias[d["name"]] = b["referencedDecl"]["name"]
                term = tr.seq(pick(body), env, lambda e: e[infovar][0] if infovar in e else e[iv][0])
                binders = " ".join("(%s : %s)" % (gn, ty) for (_, gn, ty) in params)
                out.append("(* %s : %s *)" % (os.path.basename(cfile), fname))
                out.append("Definition %s %s : Z :=\n%s.\n" % (gname, binders, term))
                ok += 1
            except Unsupported as e:
                out.append("(* %s NOT TRANSLATED: %s *)\n" % (gname, str(e).replace("*)", "* )")))
    write_if_changed(os.path.join(COQ, "ArgCheckGen.v"), "\n".join(out) + "\n")
    return ok


if __name__ == "__main__":
    n = gen_argcheck()
    print("gen_trans: ArgCheckGen.v %d/28 routines translated" % n)
