#!/bin/sh
# usage: tools/try_patch.sh <patch.diff> <id> [<id> ...]  -- apply a seeded change to a clean scratch worktree of /repo HEAD, run the quick checks, drop the worktree
p=$(readlink -f $1); shift
wt=$(mktemp -d /tmp/mutrun.XXXXXX); rmdir $wt
git -C /repo worktree add -q --detach $wt HEAD || exit 2
if ! git -C $wt apply $p; then echo "patch does not apply"; git -C /repo worktree remove --force $wt; exit 2; fi
/verif/tools/try_mutant.sh $wt "$@"
git -C /repo worktree remove --force $wt
