"""equil_ref.py (property C11): Python port, statement by statement, of coq/EquilModel.v, parameterised by the
working precision, plus the exact-rational oracle of the property.

* `Ar("d")`/`Ar("z")` use IEEE binary64 (Python floats) -> must agree bit for bit with the Coq float instance
  (checked on every run), `Ar("s")`/`Ar("c")` round every operation to binary32 (products of two binary32
  numbers are exact in binary64; for the quotient double rounding is innocuous since 53 >= 2*24+2), which is how the
  s/c twins are compared bit for bit.
* `oracle_*` evaluate the property text itself on the C outputs in exact rational arithmetic.
"""
import struct, math
from fractions import Fraction

NOEQUIL, ROW, COL, BOTH = 0, 1, 2, 3


def f32(x):
    if x != x or x in (math.inf, -math.inf):
        return x
    try:
        return struct.unpack("f", struct.pack("f", x))[0]
    except OverflowError:
        return math.copysign(math.inf, x)


class Ar:
    def __init__(self, p):
        self.p = p
        self.single = p in "sc"
        self.cplx = p in "cz"
        self.rnd = f32 if self.single else (lambda x: x)
        self.sfmin = 2.0 ** -126 if self.single else 2.0 ** -1022
        self.prec = 2.0 ** -23 if self.single else 2.0 ** -52
        self.eps = 2.0 ** -24 if self.single else 2.0 ** -53
        self.th = 0.1                      # THRESH (0.1) is a double constant in all four twins
        self.u = Fraction(1, 2 ** 24) if self.single else Fraction(1, 2 ** 53)

    def mul(self, a, b):
        return self.rnd(a * b)

    def div(self, a, b):
        if b == 0:
            return math.nan if (a == 0 or a != a) else math.copysign(math.inf, a) * math.copysign(1.0, b)
        try:
            return self.rnd(a / b)
        except OverflowError:
            return math.copysign(math.inf, a) * math.copysign(1.0, b)

    def vabs(self, v):
        if self.cplx:
            re, im = v
            if re < 0: re = -re
            if im < 0: im = -im
            return self.rnd(re + im)
        return abs(v)

    def vscale(self, v, s):
        if self.cplx:
            return (self.mul(v[0], s), self.mul(v[1], s))
        return self.mul(v, s)


def fmax(a, b):
    return a if b < a else b


def fmin(a, b):
    return a if a < b else b


def gsequ(ar, nrow, ncol, ents, r0, c0, rowcnd0, colcnd0, amax0):
    """ents: list of (i, j, v).  -> dict(info, r, c, rowcnd, colcnd, amax) or None (index outside the arrays)"""
    sml = ar.sfmin
    big = ar.div(1.0, sml)
    if nrow == 0 or ncol == 0:
        return dict(info=0, r=list(r0), c=list(c0), rowcnd=1.0, colcnd=1.0, amax=0.0)
    r = [0.0] * nrow
    for (i, j, v) in ents:
        if not (0 <= i < nrow):
            return None
        r[i] = fmax(r[i], ar.vabs(v))
    rcmin, rcmax = big, 0.0
    for x in r:
        rcmin, rcmax = fmin(rcmin, x), fmax(rcmax, x)
    amax = rcmax
    inverted = True
    rowcnd = rowcnd0
    if rcmin == 0.0:
        for i, x in enumerate(r):
            if x == 0.0:
                return dict(info=i + 1, r=r, c=list(c0), rowcnd=rowcnd0, colcnd=colcnd0, amax=amax)
        inverted = False
    if inverted:
        r = [ar.div(1.0, fmin(fmax(x, sml), big)) for x in r]
        rowcnd = ar.div(fmax(rcmin, sml), fmin(rcmax, big))
    c = [0.0] * ncol
    for (i, j, v) in ents:
        if not (0 <= i < nrow and 0 <= j < ncol):
            return None
        c[j] = fmax(c[j], ar.mul(ar.vabs(v), r[i]))
    ccmin, ccmax = big, 0.0
    for x in c:
        ccmin, ccmax = fmin(ccmin, x), fmax(ccmax, x)
    colcnd = colcnd0
    if ccmin == 0.0:
        for j, x in enumerate(c):
            if x == 0.0:
                return dict(info=nrow + j + 1, r=r, c=c, rowcnd=rowcnd, colcnd=colcnd0, amax=amax)
    else:
        c = [ar.div(1.0, fmin(fmax(x, sml), big)) for x in c]
        colcnd = ar.div(fmax(ccmin, sml), fmin(ccmax, big))
    return dict(info=0, r=r, c=c, rowcnd=rowcnd, colcnd=colcnd, amax=amax)


def laqgs_decide(ar, rowcnd, colcnd, amax):
    small = ar.div(ar.sfmin, ar.prec)
    large = ar.div(1.0, small)
    if ar.th <= rowcnd and small <= amax and amax <= large:
        return NOEQUIL if ar.th <= colcnd else COL
    return ROW if ar.th <= colcnd else BOTH


def laqgs(ar, nrow, ncol, ents, r, c, rowcnd, colcnd, amax):
    if nrow <= 0 or ncol <= 0:
        return list(ents), NOEQUIL
    eq = laqgs_decide(ar, rowcnd, colcnd, amax)
    if eq == NOEQUIL:
        return list(ents), NOEQUIL
    out = []
    for (i, j, v) in ents:
        if not (0 <= i < len(r) and 0 <= j < len(c)):
            return None
        s = r[i] if eq == ROW else c[j] if eq == COL else ar.mul(c[j], r[i])
        out.append((i, j, ar.vscale(v, s)))
    return out, eq


def gssvx_equil(ar, K, stype, fact, trans, equed0, n, ents, R0, C0, B):
    """B: list of columns.  -> dict(A, R, C, equed, B, info1)"""
    dofact, equil = fact == K["DOFACT"], fact == K["EQUILIBRATE"]
    notran0 = trans == K["NOTRANS"]
    equed = NOEQUIL if (dofact or equil) else equed0
    notran = (not notran0) if stype == K["SLU_NR"] else notran0
    A, R, C, info1 = list(ents), list(R0), list(C0), 0
    if equil:
        g = gsequ(ar, n, n, ents, R0, C0, 0.0, 0.0, 0.0)
        if g is None:
            return None
        R, C, info1 = g["r"], g["c"], g["info"]
        if info1 == 0:
            res = laqgs(ar, n, n, ents, R, C, g["rowcnd"], g["colcnd"], g["amax"])
            if res is None:
                return None
            A, equed = res
    rowequ, colequ = equed in (ROW, BOTH), equed in (COL, BOTH)
    s = (R if rowequ else None) if notran else (C if colequ else None)
    if s is not None:
        B = [[ar.vscale(col[i], s[i]) for i in range(n)] + list(col[n:]) for col in B]
    return dict(A=A, R=R, C=C, equed=equed, B=B, info1=info1)


# ----------------------------------------------------------------------------- exact oracle of the property
def _mod(ar, v):
    return abs(Fraction(v[0])) + abs(Fraction(v[1])) if ar.cplx else abs(Fraction(v))


def finite(x):
    return x == x and x not in (math.inf, -math.inf)


def oracle_gsequ(ar, nrow, ncol, ents, out, sentinel):
    """out = dict(info, r, c, rowcnd, colcnd, amax) observed on the C routine.  -> list of failures of the property text:
    factors finite and positive, within the clip range; unless clipped the largest magnitude of each row of diag(R)*A and
    then of each column of diag(R)*A*diag(C) is 1 up to rounding; rowcnd, colcnd, amax are the true ones; an exactly zero
    row/column is reported by its index."""
    f = []
    if nrow == 0 or ncol == 0:
        if out["info"] != 0 or out["rowcnd"] != 1.0 or out["colcnd"] != 1.0 or out["amax"] != 0.0:
            f.append("empty matrix: expected info=0, rowcnd=colcnd=1, amax=0")
        return f
    u = ar.u
    cu = 2 * u if ar.cplx else 0          # the modulus |re|+|im| carries one more rounding
    sml, big = Fraction(ar.sfmin), 1 / Fraction(ar.sfmin)
    rm = [Fraction(0)] * nrow
    for (i, j, v) in ents:
        rm[i] = max(rm[i], _mod(ar, v))
    zr = [i for i in range(nrow) if rm[i] == 0]
    if zr:
        if out["info"] != zr[0] + 1:
            f.append("row %d is exactly zero: expected info=%d, got %d" % (zr[0], zr[0] + 1, out["info"]))
        return f
    if not (0 <= out["info"] and (out["info"] == 0 or out["info"] > nrow)):
        f.append("no zero row but info=%d" % out["info"])
        return f
    R = out["r"]
    for i in range(nrow):
        if not (finite(R[i]) and R[i] > 0):
            f.append("R[%d]=%r not finite positive" % (i, R[i])); return f
        Ri = Fraction(R[i])
        if not (1 / big * (1 - 2 * u) <= Ri <= 1 / sml * (1 + 2 * u)):
            f.append("R[%d] outside [1/bignum, 1/smlnum]" % i)
        clipped = not (sml <= rm[i] * (1 - cu) and rm[i] * (1 + cu) <= big)
        if not clipped and abs(Ri * rm[i] - 1) > 2 * u + cu:
            f.append("row %d: max |R*a| = %s differs from 1 by more than rounding" % (i, float(Ri * rm[i])))
    amax = max(rm)
    fmaxv = Fraction(2 - 2 * u) / Fraction(ar.sfmin) * 2        # largest finite number of the precision
    if amax > fmaxv:
        return f            # a complex modulus |re|+|im| beyond the finite range: outside the property (Inf excluded)
    if not finite(out["amax"]) or abs(Fraction(out["amax"]) - amax) > amax * cu:
        f.append("amax=%r is not the largest magnitude %s" % (out["amax"], float(amax)))
        return f
    for k in ("rowcnd", "colcnd"):
        if out[k] != sentinel and not finite(out[k]):
            f.append("%s=%r is not finite" % (k, out[k])); return f
    rmin, rmax = min(rm), max(rm)
    tiny = Fraction(ar.sfmin) * 2 * u           # the smallest denormal: absolute slack of results in the denormal range
    if sml <= rmin * (1 - cu) and rmax * (1 + cu) <= big:        # "unless clipped": the ratio of the smallest to the largest R
        rc = rmin / rmax
        if abs(Fraction(out["rowcnd"]) - rc) > rc * (2 * u + 2 * cu) + tiny:
            f.append("rowcnd=%r expected %s" % (out["rowcnd"], float(rc)))
    # columns of diag(R)*A with the R that was returned
    cm = [Fraction(0)] * ncol
    for (i, j, v) in ents:
        cm[j] = max(cm[j], _mod(ar, v) * Fraction(R[i]))
    colzero = [j for j in range(ncol) if all(_mod(ar, v) == 0 for (i, jj, v) in ents if jj == j)]
    if colzero:
        if out["info"] != nrow + colzero[0] + 1:
            f.append("column %d is exactly zero: expected info=%d, got %d" % (colzero[0], nrow + colzero[0] + 1, out["info"]))
        return f
    if out["info"] != 0:
        j = out["info"] - nrow - 1
        f.append("no exactly zero row or column but info=%d (column %d: largest scaled magnitude %s)" %
                 (out["info"], j, float(cm[j]) if 0 <= j < ncol else "?"))
        return f
    Cc = out["c"]
    for j in range(ncol):
        if not (finite(Cc[j]) and Cc[j] > 0):
            f.append("C[%d]=%r not finite positive" % (j, Cc[j])); return f
        Cj = Fraction(Cc[j])
        if not (1 / big * (1 - 2 * u) <= Cj <= 1 / sml * (1 + 2 * u)):
            f.append("C[%d] outside [1/bignum, 1/smlnum]" % j)
        # the product |a|*R[i] is rounded (and may be denormal): absolute slack of one denormal unit
        clipped = not (sml <= cm[j] * (1 - u - cu) - tiny and cm[j] * (1 + u + cu) + tiny <= big)
        if not clipped and abs(Cj * cm[j] - 1) > 3 * u + cu:
            f.append("column %d: max |R*a*C| = %s differs from 1 by more than rounding" % (j, float(Cj * cm[j])))
    cmin, cmax = min(cm), max(cm)
    if sml * 4 <= cmin and cmax * (1 + u + cu) <= big:        # unclipped and above the denormal range
        cc = cmin / cmax
        if abs(Fraction(out["colcnd"]) - cc) > cc * (4 * u + 2 * cu) + tiny:
            f.append("colcnd=%r expected %s" % (out["colcnd"], float(cc)))
    return f


def oracle_laqgs(ar, nrow, ncol, ents, r, c, rowcnd, colcnd, amax, equed, aout):
    """documented rule: row scaling iff rowcnd < THRESH or amax outside [SMALL, LARGE]; column scaling iff colcnd < THRESH;
    the flag says what was applied; NOEQUIL leaves A bit-identical."""
    f = []
    if nrow <= 0 or ncol <= 0:
        return f if equed == NOEQUIL else ["empty matrix but equed=%d" % equed]
    if not (finite(rowcnd) and finite(colcnd) and finite(amax)) or any(not finite(x) for x in list(r) + list(c)):
        return f                              # Inf/NaN (e.g. an overflowed complex modulus): outside the property
    small = Fraction(ar.sfmin) / Fraction(ar.prec)
    large = 1 / small
    th = Fraction(0.1)                     # THRESH (0.1): the double constant, in all four twins
    def lt_th(x):
        return Fraction(x) < th
    rowneed = lt_th(rowcnd)
    colneed = lt_th(colcnd)
    am = Fraction(amax)
    if rowneed is False and (am < small or am > large):
        rowneed = True
    want = {(False, False): NOEQUIL, (False, True): COL, (True, False): ROW, (True, True): BOTH}[(rowneed, colneed)]
    if equed != want:
        f.append("equed=%d but the documented rule gives %d (rowcnd=%r colcnd=%r amax=%r)" % (equed, want, rowcnd, colcnd, amax))
        return f
    u = ar.u
    for k, (i, j, v) in enumerate(ents):
        parts_in = v if ar.cplx else (v,)
        parts_out = aout[k] if ar.cplx else (aout[k],)
        s = {NOEQUIL: Fraction(1), ROW: Fraction(r[i]), COL: Fraction(c[j]), BOTH: Fraction(r[i]) * Fraction(c[j])}[equed]
        for a, b in zip(parts_in, parts_out):
            if equed == NOEQUIL:
                if struct.pack("d", a) != struct.pack("d", b):
                    f.append("equed=NOEQUIL but entry %d changed" % k)
            elif finite(b):
                ex = Fraction(a) * s
                tiny = Fraction(ar.sfmin) * 2 * u
                # BOTH: the factor c[j]*r[i] is itself rounded (gradual underflow: absolute error up to tiny/2)
                es = (abs(s) * u + tiny) if equed == BOTH else 0
                if abs(Fraction(b) - ex) > abs(ex) * 2 * u + abs(Fraction(a)) * es * (1 + u) + tiny:
                    f.append("entry %d: %r is not %r scaled by the factor of flag %d" % (k, b, a, equed))
    return f
