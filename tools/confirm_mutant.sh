#!/bin/sh
# usage: tools/confirm_mutant.sh <dir with patch.diff + run.sh/demo.*>  -- confirm a seeded change the way the brief asks:
# in a scratch worktree of /repo HEAD: demo passes without the change; with it the library compiles, the pinned 48 tests
# pass and the demo fails.  Prints one line per fact; exit 0 iff all hold.  The worktree is removed afterwards.
d=$(readlink -f $1)
wt=$(mktemp -d /tmp/mutconf.XXXXXX); rmdir $wt
git -C /repo worktree add -q --detach $wt HEAD || exit 2
mkdir -p $wt/out; cp $d/* $wt/out/ 2>/dev/null; rm -f $wt/out/demo
# demos written by the authors may name their own scratch worktree: point them at this one
sed -i -E "s#/tmp/mut[0-9]*/C[0-9]+[a-z]?#$wt#g" $wt/out/*.sh $wt/out/*.c $wt/out/*.py 2>/dev/null
ok=0
( cd $wt && sh out/run.sh > out/base.log 2>&1 ); r0=$?
echo "demo without change: exit $r0"; [ $r0 -eq 0 ] || ok=1
if ! git -C $wt apply out/patch.diff 2>/dev/null; then echo "patch does not apply"; git -C /repo worktree remove --force $wt; exit 2; fi
( cd $wt && sh out/run.sh > out/mut.log 2>&1 ); r1=$?
echo "demo with change: exit $r1"; [ $r1 -ne 0 ] || ok=1
bd=$(ls -d $wt/_b $wt/_build 2>/dev/null | head -1)
if [ -z "$bd" ]; then ( cd $wt && cmake -G Ninja -B _b -DCMAKE_BUILD_TYPE=RelWithDebInfo >/dev/null && cmake --build _b >/dev/null ); bd=$wt/_b; fi
( cd $wt && cmake --build $bd > out/build.log 2>&1 ) || { echo "library does not build"; ok=1; }
t=$(ctest --test-dir $bd -j8 --timeout 900 2>&1 | grep 'tests passed\|tests failed' | tail -1)
echo "suite with change: $t"; echo "$t" | grep -q '100% tests passed, 0 tests failed out of 48' || ok=1
git -C /repo worktree remove --force $wt
exit $ok
