#!/usr/bin/env python3
"""c2gal.py -- translator from a small subset of C (as parsed by clang: `-Xclang -ast-dump=json`) to Gallina.

Purpose: pieces of /repo/SRC that are pure decision logic over integers (argument tests, pivot policy, allocator arithmetic)
are RE-TRANSLATED from the current source on every run into coq/*Gen.v; hand-written `*Tie.v` files prove that the generated
definitions equal the hand-written models the property theorems talk about.  A source change that alters the logic changes
the generated definition and breaks the tie theorem (a proof obligation of the property).

Subset: a slice of one function body made of
  declarations with initialisers, assignments to scalar locals / to `*p` for pointer parameters declared as cells,
  compound assignments, ++/--, if / else (nested), `for (i = a; i < b; ++i)` loops without break/return in the body,
  `return e;` (ends the translation of its path), calls on an ignore list, null statements.
Expressions: integer and character literals, enum constants (-> c_NAME of Consts.v), variables, `p->field` through a field
map, unary ! - *, binary || && == != < <= > >= + - * / %, ?: (SUPERLU_MAX/MIN expand to it), casts and parentheses,
calls through per-name handlers, array reads `a[i]` of arrays declared as functions.
Stores `a[i] = e;` to arrays on cfg["ignore_stores"] are dropped (explicitly, and only while the array is not read afterwards);
an assignment to a variable on cfg["override"] takes the configured input instead of its right-hand side (thresh = u * pivmax ==> thr);
with cfg["local_temps"] a variable first assigned inside an if / a loop body is local to it (rtemp).
Also (added for the allocator arithmetic of p?memory.c): `g.field` on a GLOBAL struct variable as a mutable cell (cfg "globals"),
one tracked base pointer (cfg "base_ptr") with `char *` arithmetic as offsets relative to it (Gallina type `cptr` of
coq/C2GalLib.v: None = NULL, Some off = base + off), casts by castKind (NullToPointer, PointerToIntegral through the base
address parameter, BitCast between pointer types; IntegralToPointer is refused), bit operators & | ^ ~ << >>, forward
`goto L;` to a label of an enclosing block (the path continues with the statements after the label), lock / unlock calls
that open and close a critical section (cfg "lock": guarded cells may only be touched inside), enum constants through a name
map (cfg "enums").
Also (added for the panel scheduler pxgstrf_scheduler.c): declared MEMORY reached through pointers (cfg "mem" / "pointers"):
an lvalue such as `sh->pan_status[dad].ukids`, `taskq->queue[i]` (taskq = &sh->taskq), `fb_cols[j]` (fb_cols = sh->fb_cols),
`sh->tasks_remain` is normalised to an access PATH ("sh.pan_status[].ukids", "sh.taskq.queue[]", ...); a path declared as a cell is
a mutable scalar, a path declared as an array (an array of scalars, or one field of an array of structs) is a functional list read
with `nthZ` and written with `updZ` (Gallina type `list Z`, expression type 'L'); distinct paths are assumed not to overlap.
`++x` / `--x` / `x++` / `x--` INSIDE an expression (at most one per full expression, in an unconditionally evaluated position, its
object not mentioned elsewhere in that expression).  `while (c) body` / `while (1) { .. break; .. continue; .. }` become a Fixpoint
over an explicit fuel argument (cfg "fuel"), of type option: None = the fuel ran out (the caller then yields cfg["on_fuel"]).
An `if` whose condition is, term for term, a test already decided on the path takes the decided branch (cfg "known_tests"); an `if`
that gives a variable its first value in one branch only duplicates the rest of the path (cfg "partial_init": "dup").
Also (added for the initial state: pxgstrf_relax_snode, ParallelInit, queue_init, EnqueueRelaxSnode): general `for` loops as while
loops (cfg "general_for"; nested loops share the fuel), `a = b = e;` (cfg "chained_assign"), allocation calls as fresh lists
`repeat fill (Z.to_nat len)` (cfg "alloc" / "ignore_alloc"), dropped statistics arrays (cfg "ignore_mem"), calls that never return
(cfg "abort_calls" / "on_abort"), calls of separately translated C functions (cfg "fun_calls").
Everything else stops the translation with an error (reported by the check as a broken translator), never silently skipped.
The clang AST is built without -DSLU_MT_VERIF (CLANG_FLAGS): the SLU_VERIF_EV hook statements are null statements.

Translation scheme: static single assignment with `let`; an `if` whose branches only assign becomes
`let '(x1, .., xk) := if c then (..) else (..) in rest` over the variables assigned in either branch; an `if` with a branch
that returns duplicates the rest into the other branch; a for loop becomes `fold_left` over `zrange a b` with the tuple of
the variables its body assigns as the state (with cfg["lift_loops"] the body is a definition of its own, so that a tie proof can
state the loop-body correspondence as a lemma; with cfg["state_order"] tuples list variables in declaration order).  `zrange` is
defined in the hand-written coq/C2GalLib.v.  C truth values: comparisons and logical operators give bool; an integer used as
a condition becomes `negb (e =? 0)`; a bool used as an integer becomes `(if e then 1 else 0)`.
With cfg "dup_ifs" every `if` is translated by duplicating the rest of the path into both branches (no joins): the result is a
decision tree whose leaves are the final values; locals declared or first assigned inside a branch need no value before the `if`.
Expression types: 'Z' integer, 'B' bool, 'P' pointer (cptr), 'L' list Z (a declared memory array).
"""
import json, subprocess, sys, os

CLANG_FLAGS = ["-fsyntax-only", "-w", "-D__PTHREAD", "-DAdd_", "-I/repo/SRC"]


class Unsupported(Exception):
    pass


GALLINA_RESERVED = set("""as at cofix else end exists exists2 fix for forall fun if IF in let match mod Prop return Set then Type
using where with Definition Lemma Theorem Fixpoint Inductive Record Section End Variable Hypothesis Axiom Parameter Proof Qed
Z nat bool unit tt true false None Some pair fst snd negb andb orb cptr pnull pbase padd paddr peqb fold_left zrange
nthZ updZ list option fuel fuel_ st_ O S""".split())

GTYPE = {"Z": "Z", "B": "bool", "L": "list Z", "P": "cptr"}


def strip_lv(n):
    """parentheses and implicit casts only (an explicit cast may change what a pointer points to)"""
    while n.get("kind") in ("ImplicitCastExpr", "ParenExpr"):
        n = n["inner"][0]
    return n


def is_incdec(n):
    return n.get("kind") == "UnaryOperator" and n.get("opcode") in ("++", "--")


def has_incdec(n):
    return is_incdec(n) or any(has_incdec(c) for c in n.get("inner", []) if c)


def gallina_ident(name):
    """a C identifier as a Gallina binder: reserved words and the names the generated code itself uses get a trailing underscore"""
    return name + "_" if name in GALLINA_RESERVED else name


def load_function(cfile, fname, incdir=None, extra=()):
    flags = list(CLANG_FLAGS)
    if incdir:
        flags = [f if not f.startswith("-I") else "-I" + incdir for f in flags]
    cmd = ["clang"] + flags + list(extra) + ["-Xclang", "-ast-dump=json", "-Xclang", "-ast-dump-filter=" + fname, cfile]
    p = subprocess.run(cmd, stdout=subprocess.PIPE, stderr=subprocess.PIPE, universal_newlines=True, timeout=120)
    if p.returncode != 0:
        raise Unsupported("clang failed on %s: %s" % (cfile, p.stderr[-300:]))
    txt = p.stdout
    dec = json.JSONDecoder()
    i = 0
    while i < len(txt):
        while i < len(txt) and txt[i].isspace():
            i += 1
        if i >= len(txt):
            break
        o, i = dec.raw_decode(txt, i)
        if o.get("kind") == "FunctionDecl" and o.get("name") == fname and any(c.get("kind") == "CompoundStmt" for c in o.get("inner", [])):
            return o
    raise Unsupported("no definition of %s in %s" % (fname, cfile))


def int_constants(cfile, names, incdir=None, extra=()):
    """values of integer constant expressions (enum constants, integer macros) visible at the end of `cfile`, evaluated by
    clang itself: {name: int}.  A name that is not an integer constant expression there makes clang fail -> Unsupported."""
    import tempfile
    flags = list(CLANG_FLAGS)
    if incdir:
        flags = [f if not f.startswith("-I") else "-I" + incdir for f in flags]
    with tempfile.TemporaryDirectory() as d:
        probe = os.path.join(d, "probe.c")
        with open(probe, "w") as f:
            f.write('#include "%s"\nenum { %s };\n' % (os.path.abspath(cfile), ", ".join("c2gal_probe_%s = (%s)" % (x, x) for x in names)))
        cmd = ["clang"] + flags + list(extra) + ["-Xclang", "-ast-dump=json", "-Xclang", "-ast-dump-filter=c2gal_probe_", probe]
        p = subprocess.run(cmd, stdout=subprocess.PIPE, stderr=subprocess.PIPE, universal_newlines=True, timeout=120)
    if p.returncode != 0:
        raise Unsupported("clang cannot evaluate %s at the end of %s: %s" % (", ".join(names), cfile, p.stderr[-300:]))
    txt, dec, i, out = p.stdout, json.JSONDecoder(), 0, {}
    while i < len(txt):
        while i < len(txt) and txt[i].isspace():
            i += 1
        if i >= len(txt):
            break
        o, i = dec.raw_decode(txt, i)
        if o.get("kind") == "EnumConstantDecl" and o.get("name", "").startswith("c2gal_probe_"):
            v = [c.get("value") for c in o.get("inner", []) if c.get("kind") == "ConstantExpr"]
            if v and v[0] is not None:
                out[o["name"][len("c2gal_probe_"):]] = int(v[0])
    for x in names:
        if x not in out:
            raise Unsupported("no value for the constant %s in %s" % (x, cfile))
    return out


def strip(n):
    while n.get("kind") in ("ImplicitCastExpr", "ParenExpr", "CStyleCastExpr", "ConstantExpr"):
        n = n["inner"][0]
    return n


class Tr:
    """cfg keys:
         inputs   {c_name: (gallina_name, 'Z'|'B')}    variables readable from the start (parameters, pre-set locals)
         cells    set of pointer parameters p whose `*p` is a mutable scalar (also listed in inputs if read before written)
         fields   {field_name: accessor}               p->field  ==>  (accessor P)  with P the gallina name of p (after aliasing)
         alias_field  name of the field whose value makes a local an alias of its base (e.g. 'Store')
         arrays   {c_name: gallina function name}      a[i] ==> (f i)
         calls    {callee: handler(tr, args_nodes, env) -> (str, ty)}
         ignore_calls  set of callee names whose call statements are dropped (no effect on the translated variables)
         override {var: (gallina_term, ty)}            an assignment to var takes this value instead of the C right-hand side
         zero_float  True: floating literals 0.0 are the integer 0 (scaled-magnitude models)
         arrays values may also be handlers  h(tr, index_node, env) -> (str, ty)   (e.g. inv_perm_r[jcol] ==> the input oldrow)
         ignore_stores  set of array names: a statement `a[i] = e;` is dropped (the translated variables do not depend on it).
                      Sound only while `a` is not READ afterwards: after a dropped store every later read of `a` on the same
                      path (and every read of `a` anywhere in a loop body that stores to it) stops the translation.
         local_temps  True: a variable that has no value before an if / a loop and is assigned inside it is local to that
                      statement (it is not part of the join tuple / loop state and has no value afterwards: a later read before a
                      new assignment stops the translation).  Without the key such an assignment stops the translation.
         state_order  list of C variable names (see decl_order): the variables of join tuples and loop states are listed in this
                      order instead of the order of their first assignment (a reordering of statements keeps the tuple shape)
         lift_loops   name prefix: every for-loop body becomes a separate definition  <prefix>_loop<k> <free variables> st_ i
                      (collected in tr.lifted, to be emitted before the main definition); needs
         params       [(gallina_name, type_string)] the binders of the generated definition (candidates for free variables)
         globals  {global_struct_var: set of field names}   g.f is the mutable cell named "g.f" (give its start value in inputs["g.f"];
                                                         read its final value from env["g.f"] in on_return / final)
         base_ptr {"g.f" | var: gallina name of its ADDRESS (a Z)}  the one tracked base pointer: reading it gives `pbase` (offset 0);
                                                         `(char*)p + k` is `padd p k`, `(long long)p` is `paddr <address> p`; it cannot be assigned
         enums    {enum constant: gallina term}          (default: c_NAME of Consts.v)
         lock     {"acquire": set of callees, "release": set of callees, "object": ("g", "f") or None, "guards": set of cell names}
                                                         acquire / release calls (argument `&g.f` when object is given) open / close a
                                                         critical section; a guarded cell read or written outside one stops the translation;
                                                         env["#lock"] is present while the lock is held (on_return / final can refuse it)
         dup_ifs  True: every if duplicates the rest of the path into its branches (decision tree, no joins)
         pointers {pointer variable: path of the object it points to}   e.g. {"pxgstrf_shared": "sh", "etree": "etree"}; a local
                                                         `T *v = p->f;` / `T *v = &p->f;` becomes such a pointer (it cannot be reassigned)
         mem      {path: (short gallina name, "cell" | "array", read_only)}   declared memory: `p->f` is path "P.f", `a[i]` is "A[]"
                                                         (at most one subscript per path).  The env key of the memory is its path;
                                                         give its start value in inputs[path] (type 'Z' for a cell, 'L' for an array)
         list_ops (read, write) functions on list Z     default ("nthZ", "updZ")
         fuel     name of the fuel binder (a nat) of the generated definition: enables while loops (lifted into
                  <lift_loops>_while<k>, a Fixpoint on the fuel returning option; cfg "on_fuel"(tr, env) -> term for None)
         dedupe_loops  True: bound names inside lifted loops are numbered locally (x'1, x'2 ..) and two loops with the same text
                  share one definition (a path duplicated by an `if` does not multiply the definitions)
         known_tests   True: facts about decided tests are kept along a duplicated path (see the module docstring)
         partial_init  "dup": see the module docstring
         lock "object_path": (path, enum constant)      the lock object is `&<path>[<constant>]` (e.g. &sh->lu_locks[SCHED_LOCK])
       Added for ParallelInit / pxgstrf_relax_snode (details at the methods below for_stmt: stmt_ext, assigned_ext, may_return_ext):
         general_for     True: a `for` loop that is not of the fold shape (no increment, break / while inside, the body assigns the
                         loop variable or its bound) is `init; while (cond) { body; inc; }`, a Fixpoint over fuel
         chained_assign  True: `a = b = e;` is `b = e; a = b;`
         alloc           {callee: ("count" | "bytes", fill term)}   `p = [cast] callee(arg);` gives every declared array under p
                         the value `repeat <fill> (Z.to_nat <len>)` (bytes: arg must be `len * sizeof(element type)`)
         ignore_alloc    set of object paths whose allocation is dropped (opaque objects)
         ignore_mem      set of array paths (never declared in "mem", so never readable): stores / ++ / op= on them are dropped
         abort_calls     set of callees that never return: the path ends with cfg["on_abort"](tr, env)
         fun_calls       {callee: spec}  calls of C functions that were translated into Gallina functions of their own:
                         `let '(ret, w1, .., wk) := (gname <value args> <memory read> <extra>) in`; pointer arguments must denote
                         exactly the object paths the callee was translated for"""

    def __init__(self, cfg):
        self.cfg = cfg
        self.n = 0
        self.alias = {}
        self.dirty = set()      # arrays with a dropped store on the path translated so far
        self.lifted = []        # [(name, text)] loop bodies lifted into definitions
        self.lets = {}          # gallina name of every let-bound / loop-bound variable -> type
        self.labels = {}      # label declId -> continuation (env -> term) of the statements from the label on
        self.gorder = {}       # node id of GotoStmt / LabelStmt -> position in a preorder walk (forward gotos only)
        self.ptr = dict(cfg.get("pointers", {}))   # pointer variable -> path of its target
        self.eff = None        # list of let-lines while an expression with ++/-- inside is being translated, else None
        self.loops = []        # stack of (break continuation, continue continuation) of the enclosing while loops; None for a for loop
        self.nwhile = 0
        self.ifdepth = 0

    def fresh(self, v, ty="Z"):
        self.n += 1
        nm = "%s_%d" % (v, self.n)
        self.lets[nm] = ty
        return nm

    def order(self, vs):
        so = self.cfg.get("state_order")
        if not so:
            return vs
        pos = {v: i for i, v in enumerate(so)}
        return sorted(vs, key=lambda v: (pos.get(v, len(so)), vs.index(v)))

    # ------------------------------------------------------------------ expressions
    def toB(self, et):
        e, t = et
        if t == "P":
            return "(negb (peqb %s pnull))" % e
        return e if t == "B" else "(negb (%s =? 0))" % e

    def toZ(self, et):
        e, t = et
        if t == "P":
            raise Unsupported("a pointer used as an integer without a cast")
        return e if t == "Z" else "(if %s then 1 else 0)" % e

    def guard(self, name, env, what):
        lk = self.cfg.get("lock")
        if lk and name in lk.get("guards", ()) and "#lock" not in env:
            raise Unsupported("%s of '%s' outside the critical section" % (what, name))

    def gcell(self, n):
        """cell name "g.f" of a MemberExpr `g.f` on a declared global struct variable, or None"""
        if n.get("kind") != "MemberExpr" or n.get("isArrow"):
            return None
        base = strip(n["inner"][0])
        if base.get("kind") != "DeclRefExpr":
            return None
        g = base["referencedDecl"]["name"]
        nm = "%s.%s" % (g, n["name"])
        if n["name"] in self.cfg.get("globals", {}).get(g, ()) or nm in self.cfg.get("base_ptr", {}):
            return nm
        return None

    def is_charp(self, n):
        q = n.get("type", {}).get("qualType", "")
        return q.replace("const ", "").replace("unsigned ", "").replace("signed ", "").strip() in ("char *",)

    # ------------------------------------------------------------------ declared memory (cfg "mem")
    def path(self, n):
        """(path, index node or None) of an lvalue / pointer expression built from declared pointers, ->, ., & and [], or None"""
        n = strip_lv(n)
        k = n.get("kind")
        if k == "DeclRefExpr":
            nm = n["referencedDecl"]["name"]
            return (self.ptr[nm], None) if nm in self.ptr else None
        if k == "MemberExpr":
            b = self.path(n["inner"][0])
            return None if b is None else (b[0] + "." + n["name"], b[1])
        if k == "UnaryOperator" and n.get("opcode") == "&":
            return self.path(n["inner"][0])
        if k == "ArraySubscriptExpr":
            b = self.path(n["inner"][0])
            if b is None:
                return None
            if b[1] is not None:
                raise Unsupported("two subscripts in one access path (%s)" % b[0])
            return (b[0] + "[]", n["inner"][1])
        return None

    def mem_key(self, n):
        """(path, index node) when the lvalue n denotes declared memory (cfg "mem"), else None"""
        if not self.cfg.get("mem"):
            return None
        p = self.path(n)
        if p is None:
            return None
        m = self.cfg["mem"].get(p[0])
        if m is None:
            if strip_lv(n).get("kind") in ("MemberExpr", "ArraySubscriptExpr"):
                raise Unsupported("access to undeclared memory '%s'" % p[0])
            return None
        if (m[1] == "array") != (p[1] is not None):
            raise Unsupported("memory '%s' is declared as %s" % (p[0], m[1]))
        return p

    def lops(self):
        return self.cfg.get("list_ops", ("nthZ", "updZ"))

    def mem_read(self, key, idx, env):
        """the value of declared memory: a cell, or the element idx (a node) of an array"""
        if idx is None:
            return self.var(key, env)
        i = self.toZ(self.ex(idx, env))
        a = self.var(key, env)
        return ("(%s %s %s)" % (self.lops()[0], a[0], i), "Z")

    def lkey(self, n):
        """the key (variable, cell, memory path) an lvalue node denotes, or None; never raises"""
        try:
            n = strip_lv(n)
            mk = self.mem_key(n)
            if mk:
                return mk[0]
            return self.lhs_name(n)
        except Unsupported:
            return None

    def occurrences(self, n, key):
        c = 1 if (n.get("kind") in ("DeclRefExpr", "MemberExpr", "ArraySubscriptExpr", "UnaryOperator") and self.lkey(n) == key
                  and not is_incdec(n)) else 0
        if c and n.get("kind") in ("MemberExpr", "ArraySubscriptExpr"):
            mk = self.mem_key(n)
            return c + (self.occurrences(mk[1], key) if mk and mk[1] is not None else 0)
        if c:
            return c
        return sum(self.occurrences(x, key) for x in n.get("inner", []) if x)

    def check_effects(self, n):
        """n: a full expression with ++/-- inside.  One such operator, evaluated unconditionally, on an object that the
        expression does not mention anywhere else (C leaves the order of evaluation open; then it does not matter)."""
        found = []

        def go(x, cond):
            if is_incdec(x):
                if cond:
                    raise Unsupported("++/-- in a conditionally evaluated operand")
                found.append(x)
            k = x.get("kind")
            for j, c in enumerate(x.get("inner", [])):
                if c:
                    go(c, cond or (k == "BinaryOperator" and x.get("opcode") in ("&&", "||") and j == 1)
                       or (k == "ConditionalOperator" and j >= 1))
        go(n, False)
        if len(found) != 1:
            raise Unsupported("%d ++/-- operators in one expression" % len(found))
        key = self.lkey(found[0]["inner"][0])
        if key is None:
            raise Unsupported("++/-- of something that is not a variable, a cell or declared memory")
        if self.occurrences(n, key) != 1:
            raise Unsupported("'%s' is modified by ++/-- and mentioned again in the same expression" % key)

    def exe(self, n, env):
        """an expression that may hold one ++/--: (let-lines, environment after it, (term, type))"""
        if not has_incdec(n):
            return [], env, self.ex(n, env)
        self.check_effects(n)
        if self.eff is not None:
            raise Unsupported("nested expression with side effects")
        env2 = dict(env)
        self.eff = []
        try:
            val = self.ex(n, env2)
            lets = self.eff
        finally:
            self.eff = None
        return lets, env2, val

    def incdec(self, n, env):
        """++/-- inside an expression (self.eff is a list, env is updated in place): the value of the expression"""
        if self.eff is None:
            raise Unsupported("++/-- inside an expression that is not translated with side effects")
        op = "+" if n["opcode"] == "++" else "-"
        post = bool(n.get("isPostfix"))
        lv = strip_lv(n["inner"][0])
        mk = self.mem_key(lv)
        if mk and mk[1] is not None:
            key, idx = mk
            self.guard(key, env, "write")
            if self.cfg["mem"][key][2]:
                raise Unsupported("write to the read-only memory '%s'" % key)
            i = self.toZ(self.ex(idx, env))
            a = self.var(key, env)
            old = "(%s %s %s)" % (self.lops()[0], a[0], i)
            short = self.cfg["mem"][key][0]
            v = self.fresh(short + "_v")
            na = self.fresh(short, "L")
            self.eff.append("let %s := (%s %s 1) in" % (v, old, op))
            self.eff.append("let %s := (%s %s %s %s) in" % (na, self.lops()[1], a[0], i, v))
            env[key] = (na, "L")
            return (old if post else v, "Z")
        key = mk[0] if mk else self.lhs_name(lv)
        if key is None:
            raise Unsupported("++/-- of something that is not a variable, a cell or declared memory")
        self.guard(key, env, "write")
        if mk and self.cfg["mem"][key][2]:
            raise Unsupported("write to the read-only memory '%s'" % key)
        if key in self.ptr or key in self.cfg.get("base_ptr", {}):
            raise Unsupported("++/-- of the pointer '%s'" % key)
        old = self.toZ(self.var(key, env))
        nm = self.fresh(self.short(key))
        self.eff.append("let %s := (%s %s 1) in" % (nm, old, op))
        env[key] = (nm, "Z")
        return (old if post else nm, "Z")

    def short(self, key):
        m = self.cfg.get("mem", {}).get(key)
        if m:
            return m[0]
        return key.replace("*", "").replace(".", "_")

    def var(self, name, env):
        self.guard(name, env, "read")
        if name in self.cfg.get("base_ptr", {}):
            return ("pbase", "P")
        if name in env:
            return env[name]
        raise Unsupported("variable '%s' is read before the translated slice assigns it and is not declared as an input" % name)

    def ex(self, n, env):
        k = n.get("kind")
        if k in ("ImplicitCastExpr", "CStyleCastExpr"):
            ck = n.get("castKind")
            if ck == "NullToPointer":
                return ("pnull", "P")
            if ck == "IntegralToPointer":
                raise Unsupported("cast of an integer to a pointer")
            if ck == "PointerToIntegral":
                e = self.ex(n["inner"][0], env)
                bp = self.cfg.get("base_ptr", {})
                if e[1] != "P" or len(bp) != 1:
                    raise Unsupported("cast of a pointer to an integer without a tracked base pointer")
                return ("(paddr %s %s)" % (list(bp.values())[0], e[0]), "Z")
            if ck == "PointerToBoolean":
                return self.toB(self.ex(n["inner"][0], env)), "B"
            return self.ex(n["inner"][0], env)
        if k in ("ParenExpr", "ConstantExpr"):
            return self.ex(n["inner"][0], env)
        if k == "IntegerLiteral":
            return (n["value"], "Z")
        if k == "CharacterLiteral":
            return (str(n["value"]), "Z")
        if k == "FloatingLiteral":
            if self.cfg.get("zero_float") and float(n["value"]) == 0.0:
                return ("0", "Z")
            raise Unsupported("floating literal %s" % n.get("value"))
        if k == "DeclRefExpr":
            rd = n["referencedDecl"]
            if rd["kind"] == "EnumConstantDecl":
                return (self.cfg.get("enums", {}).get(rd["name"], "c_" + rd["name"]), "Z")
            return self.var(rd["name"], env)
        if k in ("MemberExpr", "ArraySubscriptExpr") and self.cfg.get("mem"):
            mk = self.mem_key(n)
            if mk:
                return self.mem_read(mk[0], mk[1], env)
        if k == "MemberExpr" and self.gcell(n):
            return self.var(self.gcell(n), env)
        if k == "MemberExpr":
            base = strip(n["inner"][0])
            if base.get("kind") != "DeclRefExpr":
                raise Unsupported("member access on a non-variable")
            b = base["referencedDecl"]["name"]
            b = self.alias.get(b, b)
            f = n["name"]
            if f not in self.cfg.get("fields", {}):
                raise Unsupported("field '%s' has no accessor" % f)
            return ("(%s %s)" % (self.cfg["fields"][f], self.var(b, env)[0]), "Z")
        if k == "ArraySubscriptExpr":
            base = strip(n["inner"][0])
            if base.get("kind") == "DeclRefExpr" and base["referencedDecl"]["name"] in self.cfg.get("arrays", {}):
                an = base["referencedDecl"]["name"]
                if an in self.dirty:
                    raise Unsupported("array '%s' is read after a store to it was dropped (ignore_stores)" % an)
                h = self.cfg["arrays"][an]
                if callable(h):
                    return h(self, n["inner"][1], env)
                return ("(%s %s)" % (h, self.toZ(self.ex(n["inner"][1], env))), "Z")
            raise Unsupported("array read of an undeclared array%s" % (" '%s'" % base["referencedDecl"]["name"] if base.get("kind") == "DeclRefExpr" else ""))
        if k == "UnaryOperator":
            op = n["opcode"]
            if op in ("++", "--"):
                return self.incdec(n, env)
            if op == "!":
                return ("(negb %s)" % self.toB(self.ex(n["inner"][0], env)), "B")
            if op == "-":
                return ("(- %s)" % self.toZ(self.ex(n["inner"][0], env)), "Z")
            if op == "+":
                return self.ex(n["inner"][0], env)
            if op == "~":
                return ("(Z.lnot %s)" % self.toZ(self.ex(n["inner"][0], env)), "Z")
            if op == "*":
                b = strip(n["inner"][0])
                if b.get("kind") == "DeclRefExpr" and b["referencedDecl"]["name"] in self.cfg.get("cells", ()):
                    return self.var("*" + b["referencedDecl"]["name"], env)
                raise Unsupported("dereference of something that is not a declared cell")
            raise Unsupported("unary operator %s in an expression" % op)
        if k == "BinaryOperator":
            op = n["opcode"]
            a, b = n["inner"]
            if op in ("||", "&&"):
                return ("(%s %s %s)" % (self.toB(self.ex(a, env)), op, self.toB(self.ex(b, env))), "B")
            ea, eb = self.ex(a, env), self.ex(b, env)
            if ea[1] == "P" or eb[1] == "P":
                if op in ("==", "!=") and ea[1] == eb[1]:
                    t = "(peqb %s %s)" % (ea[0], eb[0])
                    return (t if op == "==" else "(negb %s)" % t, "B")
                if op == "+" and eb[1] == "P" and ea[1] != "P":
                    a, b, ea, eb = b, a, eb, ea
                if op in ("+", "-") and ea[1] == "P" and eb[1] != "P":
                    if not self.is_charp(a):
                        raise Unsupported("pointer arithmetic on '%s' (only char * : element size 1)" % a.get("type", {}).get("qualType"))
                    kz = self.toZ(eb)
                    return ("(padd %s %s)" % (ea[0], kz if op == "+" else "(- %s)" % kz), "P")
                raise Unsupported("binary operator %s on a pointer" % op)
            cmpop = {"==": "=?", "<": "<?", "<=": "<=?", ">": ">?", ">=": ">=?"}
            if op in cmpop:
                return ("(%s %s %s)" % (self.toZ(ea), cmpop[op], self.toZ(eb)), "B")
            if op == "!=":
                return ("(negb (%s =? %s))" % (self.toZ(ea), self.toZ(eb)), "B")
            bit = {"&": "Z.land", "|": "Z.lor", "^": "Z.lxor", "<<": "Z.shiftl", ">>": "Z.shiftr"}
            if op in bit:
                return ("(%s %s %s)" % (bit[op], self.toZ(ea), self.toZ(eb)), "Z")
            ar = {"+": "+", "-": "-", "*": "*"}
            if op in ar:
                return ("(%s %s %s)" % (self.toZ(self.ex(a, env)), ar[op], self.toZ(self.ex(b, env))), "Z")
            if op == "/":
                return ("(Z.quot %s %s)" % (self.toZ(self.ex(a, env)), self.toZ(self.ex(b, env))), "Z")
            if op == "%":
                return ("(Z.rem %s %s)" % (self.toZ(self.ex(a, env)), self.toZ(self.ex(b, env))), "Z")
            raise Unsupported("binary operator %s in an expression" % op)
        if k == "ConditionalOperator":
            c, a, b = n["inner"]
            ea, eb = self.ex(a, env), self.ex(b, env)
            if ea[1] == eb[1]:
                return ("(if %s then %s else %s)" % (self.toB(self.ex(c, env)), ea[0], eb[0]), ea[1])
            return ("(if %s then %s else %s)" % (self.toB(self.ex(c, env)), self.toZ(ea), self.toZ(eb)), "Z")
        if k == "CallExpr":
            cal = strip(n["inner"][0])
            name = cal.get("referencedDecl", {}).get("name")
            h = self.cfg.get("calls", {}).get(name)
            if h is None:
                raise Unsupported("call of '%s' inside an expression" % name)
            return h(self, n["inner"][1:], env)
        raise Unsupported("expression kind %s" % k)

    # ------------------------------------------------------------------ statements: analysis
    def lhs_name(self, n):
        """name of the translated variable an lvalue denotes, or None"""
        if self.cfg.get("mem"):
            mk = self.mem_key(strip_lv(n))
            if mk:
                return mk[0]
        n = strip(n)
        if n.get("kind") == "DeclRefExpr":
            return n["referencedDecl"]["name"]
        if n.get("kind") == "MemberExpr":
            g = self.gcell(n)
            if g in self.cfg.get("base_ptr", {}):
                raise Unsupported("assignment to the tracked base pointer '%s'" % g)
            return g
        if n.get("kind") == "UnaryOperator" and n["opcode"] == "*":
            b = strip(n["inner"][0])
            if b.get("kind") == "DeclRefExpr" and b["referencedDecl"]["name"] in self.cfg.get("cells", ()):
                return "*" + b["referencedDecl"]["name"]
        return None

    def store_target(self, n):
        """`a[i] = e` with a on the ignore_stores list: the name a, else None"""
        if n.get("kind") == "BinaryOperator" and n.get("opcode") == "=":
            l = strip(n["inner"][0])
            if l.get("kind") == "ArraySubscriptExpr":
                b = strip(l["inner"][0])
                if b.get("kind") == "DeclRefExpr" and b["referencedDecl"]["name"] in self.cfg.get("ignore_stores", ()):
                    return b["referencedDecl"]["name"]
        return None

    def pure(self, n):
        """no assignment, ++/--, call anywhere inside the expression"""
        k = n.get("kind")
        if k in ("CallExpr", "CompoundAssignOperator") or (k == "BinaryOperator" and n.get("opcode") in ("=", ",")) \
                or (k == "UnaryOperator" and n.get("opcode") in ("++", "--")):
            return False
        return all(self.pure(c) for c in n.get("inner", []) if c)

    def stores_in(self, n, acc):
        a = self.store_target(n)
        if a:
            acc.add(a)
        for c in n.get("inner", []):
            if c:
                self.stores_in(c, acc)
        return acc

    def effects(self, n, acc):
        """the objects modified by ++/-- operators anywhere inside an expression"""
        if is_incdec(n):
            v = self.lhs_name(n["inner"][0])
            if v is None:
                raise Unsupported("++/-- of a non-variable")
            if v not in acc:
                acc.append(v)
        for c in n.get("inner", []):
            if c:
                self.effects(c, acc)

    def assigned(self, n, acc):
        k = n.get("kind")
        if self.assigned_ext(n, acc):
            return
        if self.store_target(n):
            return
        if k in ("BinaryOperator", "CompoundAssignOperator") and (n["opcode"] == "=" or k == "CompoundAssignOperator"):
            v = self.lhs_name(n["inner"][0])
            if v is None:
                raise Unsupported("assignment to something that is not a scalar variable or a declared cell")
            if v not in acc:
                acc.append(v)
            self.effects(n, acc)
            return
        if k == "UnaryOperator" and n["opcode"] in ("++", "--"):
            v = self.lhs_name(n["inner"][0])
            if v is None:
                raise Unsupported("++/-- of a non-variable")
            if v not in acc:
                acc.append(v)
            return
        if k == "DeclStmt":
            for d in n.get("inner", []):
                if d.get("kind") == "VarDecl" and d.get("inner") and not self.is_alias_init(d):
                    if d["name"] not in acc:
                        acc.append(d["name"])
            return
        if k in ("CompoundStmt", "IfStmt", "ForStmt", "LabelStmt", "WhileStmt"):
            for c in n.get("inner", []):
                if c:
                    if k in ("IfStmt", "WhileStmt") and c is n["inner"][0]:
                        self.effects(c, acc)
                        continue
                    self.assigned(c, acc)

    def may_return(self, n):
        """the statement cannot be translated as a value joined with the other branch: it may leave (return, goto, break,
        continue) or holds a while loop (whose fuel may run out)"""
        if n.get("kind") in ("ReturnStmt", "GotoStmt", "BreakStmt", "ContinueStmt", "WhileStmt"):
            return True
        if self.may_return_ext(n):
            return True
        return any(self.may_return(c) for c in n.get("inner", []) if c)

    def is_alias_init(self, d):
        if not d.get("inner"):
            return False
        i = strip(d["inner"][0])
        return i.get("kind") == "MemberExpr" and i.get("name") == self.cfg.get("alias_field", "Store")

    # ------------------------------------------------------------------ statements: translation (continuation style)
    def tup(self, names):
        return names[0] if len(names) == 1 else "(" + ", ".join(names) + ")"

    def pat(self, names):
        return names[0] if len(names) == 1 else "'(" + ", ".join(names) + ")"

    def assign(self, v, et, env, rest):
        if v in self.cfg.get("override", {}):
            et = self.cfg["override"][v]
        self.guard(v, env, "write")
        if v in self.cfg.get("base_ptr", {}):
            raise Unsupported("assignment to the tracked base pointer '%s'" % v)
        if v in self.ptr:
            raise Unsupported("assignment to the declared pointer '%s'" % v)
        if v in self.cfg.get("mem", {}):
            if self.cfg["mem"][v][2]:
                raise Unsupported("write to the read-only memory '%s'" % v)
            if self.cfg["mem"][v][1] == "array":
                raise Unsupported("assignment to the whole array '%s'" % v)
            et = (self.toZ(et), "Z")
        nm = self.fresh(self.short(v), et[1])
        env2 = dict(env)
        env2[v] = (nm, et[1])
        return "let %s := %s in\n%s" % (nm, et[0], rest(env2))

    def seq(self, stmts, env, k):
        if not stmts:
            return k(env)
        for j, s in enumerate(stmts):
            if s.get("kind") == "LabelStmt":
                self.labels[s.get("declId")] = (lambda j: lambda e: self.seq(stmts[j:], e, k))(j)
        return self.stmt(stmts[0], env, lambda e: self.seq(stmts[1:], e, k))

    def number(self, n):
        """preorder positions of the goto and label statements of a function body"""
        if n.get("kind") in ("GotoStmt", "LabelStmt"):
            self.gorder[n["id"]] = len(self.gorder)
            if n.get("kind") == "LabelStmt":
                self.gorder["L" + n.get("declId", "")] = self.gorder[n["id"]]
        for c in n.get("inner", []):
            if c:
                self.number(c)

    def lock_call(self, name, n, env):
        """None when `name` is not a lock call, else the environment after it"""
        lk = self.cfg.get("lock")
        if not lk or name not in (set(lk.get("acquire", ())) | set(lk.get("release", ()))):
            return None
        obj = lk.get("object")
        if obj:
            args = n["inner"][1:]
            a = strip(args[0]) if len(args) == 1 else {}
            m = strip(a["inner"][0]) if a.get("kind") == "UnaryOperator" and a.get("opcode") == "&" else {}
            b = strip(m["inner"][0]) if m.get("kind") == "MemberExpr" and not m.get("isArrow") else {}
            if not (m.get("name") == obj[1] and b.get("kind") == "DeclRefExpr" and b["referencedDecl"]["name"] == obj[0]):
                raise Unsupported("%s on something that is not &%s.%s" % (name, obj[0], obj[1]))
        op = lk.get("object_path")
        if op:
            args = n["inner"][1:]
            a = strip(args[0]) if len(args) == 1 else {}
            pth = self.path(a["inner"][0]) if a.get("kind") == "UnaryOperator" and a.get("opcode") == "&" else None
            ix = strip(pth[1]) if pth and pth[1] is not None else {}
            if not (pth and pth[0] == op[0] + "[]" and ix.get("kind") == "DeclRefExpr" and ix["referencedDecl"].get("kind") == "EnumConstantDecl"
                    and ix["referencedDecl"]["name"] == op[1]):
                raise Unsupported("%s on something that is not &%s[%s]" % (name, op[0], op[1]))
        env2 = dict(env)
        if name in lk.get("acquire", ()):
            if "#lock" in env:
                raise Unsupported("%s while the lock is held" % name)
            env2["#lock"] = ("true", "B")
        else:
            if "#lock" not in env:
                raise Unsupported("%s while the lock is not held" % name)
            del env2["#lock"]
        return env2

    def is_ptr_alias(self, d):
        """`T *v = <pointer expression with a path>;` with cfg "mem": v becomes a declared pointer"""
        if not self.cfg.get("mem") or not d.get("inner"):
            return None
        if not d.get("type", {}).get("qualType", "").rstrip().endswith("*"):
            return None
        try:
            p = self.path(d["inner"][0])
        except Unsupported:
            return None
        return p[0] if p and p[1] is None else None

    def with_lets(self, lets, body):
        return "".join(l + "\n" for l in lets) + body

    def store(self, lv, val, env, k):
        """lv: a stripped lvalue node; val: (term, type) already translated in env; continue with k"""
        mk = self.mem_key(lv) if self.cfg.get("mem") else None
        if mk and mk[1] is not None:
            raise Unsupported("internal: element store through store()")
        v = mk[0] if mk else self.lhs_name(lv)
        if v is None:
            raise Unsupported("assignment to something that is not a scalar variable or a declared cell")
        return self.assign(v, val, env, k)

    def elem_store(self, key, iterm, vterm, env, k):
        self.guard(key, env, "write")
        if self.cfg["mem"][key][2]:
            raise Unsupported("write to the read-only memory '%s'" % key)
        a = self.var(key, env)
        nm = self.fresh(self.short(key), "L")
        env2 = dict(env)
        env2[key] = (nm, "L")
        return "let %s := (%s %s %s %s) in\n%s" % (nm, self.lops()[1], a[0], iterm, vterm, k(env2))

    def conv(self, et, ty):
        """the value et as a value of type ty (loop states and joins keep the type a variable had before)"""
        if et[1] == ty:
            return et[0]
        if ty == "Z":
            return self.toZ(et)
        if ty == "B":
            return self.toB(et)
        raise Unsupported("a value of type %s where %s is expected" % (et[1], ty))

    def stmt(self, n, env, k):
        kind = n.get("kind")
        ext = self.stmt_ext(n, env, k)          # cfg general_for / chained_assign / alloc / fun_calls / abort_calls / ignore_mem
        if ext is not None:
            return ext
        if kind == "CompoundStmt":
            return self.seq(n.get("inner", []), env, k)
        if kind == "NullStmt":
            return k(env)
        if kind == "DeclStmt":
            ds = [d for d in n.get("inner", []) if d.get("kind") == "VarDecl"]

            def go(i, e):
                if i == len(ds):
                    return k(e)
                d = ds[i]
                if not d.get("inner"):
                    return go(i + 1, e)
                if self.is_alias_init(d):
                    b = strip(strip(d["inner"][0])["inner"][0])
                    self.alias[d["name"]] = self.alias.get(b["referencedDecl"]["name"], b["referencedDecl"]["name"])
                    return go(i + 1, e)
                pa = self.is_ptr_alias(d)
                if pa:
                    if self.loops or self.ifdepth or d["name"] in e:
                        raise Unsupported("pointer '%s' declared inside a loop or after a use" % d["name"])
                    self.ptr[d["name"]] = pa
                    return go(i + 1, e)
                lets, e1, val = self.exe(d["inner"][0], e)
                return self.with_lets(lets, self.assign(d["name"], val, e1, lambda e2: go(i + 1, e2)))
            return go(0, env)
        if kind == "BinaryOperator" and n["opcode"] == "=":
            st = self.store_target(n)
            if st:
                if not (self.pure(strip(n["inner"][0])["inner"][1]) and self.pure(n["inner"][1])):
                    raise Unsupported("dropped store to '%s' has a side effect in its index or value" % st)
                self.dirty.add(st)
                return k(env)
            mk = self.mem_key(strip_lv(n["inner"][0])) if self.cfg.get("mem") else None
            if mk and mk[1] is not None:
                # a[i] = e on a declared memory array; one ++/-- may sit in the index or in the value
                lets, e1 = [], env
                if has_incdec(n):
                    self.check_effects(n)
                    e1 = dict(env)
                    self.eff = []
                try:
                    it = self.toZ(self.ex(mk[1], e1))
                    vt = self.toZ(self.ex(n["inner"][1], e1))
                    lets = self.eff or []
                finally:
                    self.eff = None
                return self.with_lets(lets, self.elem_store(mk[0], it, vt, e1, k))
            v = self.lhs_name(n["inner"][0])
            if v is None:
                raise Unsupported("assignment to something that is not a scalar variable or a declared cell")
            if v in self.cfg.get("override", {}):
                if not self.pure(n["inner"][1]):
                    raise Unsupported("overridden assignment to '%s' has a side effect" % v)
                return self.assign(v, self.cfg["override"][v], env, k)
            if has_incdec(n):
                self.check_effects(n)
                lets, e1, val = self.exe(n["inner"][1], env)
                return self.with_lets(lets, self.assign(v, val, e1, k))
            r = strip(n["inner"][1])
            if r.get("kind") == "MemberExpr" and r.get("name") == self.cfg.get("alias_field", "Store"):
                b = strip(r["inner"][0])
                self.alias[v] = self.alias.get(b["referencedDecl"]["name"], b["referencedDecl"]["name"])
                return k(env)
            return self.assign(v, self.ex(n["inner"][1], env), env, k)
        if kind == "CompoundAssignOperator":
            op = n["opcode"][:-1]
            mk = self.mem_key(strip_lv(n["inner"][0])) if self.cfg.get("mem") else None
            if mk and mk[1] is not None:
                if op not in "+-*" or has_incdec(n):
                    raise Unsupported("compound assignment %s on an array element" % n["opcode"])
                it = self.toZ(self.ex(mk[1], env))
                old = self.mem_read(mk[0], mk[1], env)[0]
                return self.elem_store(mk[0], it, "(%s %s %s)" % (old, op, self.toZ(self.ex(n["inner"][1], env))), env, k)
            v = self.lhs_name(n["inner"][0])
            if v is None or op not in "+-*" or has_incdec(n):
                raise Unsupported("compound assignment %s" % n["opcode"])
            return self.assign(v, ("(%s %s %s)" % (self.toZ(self.var(v, env)), op, self.toZ(self.ex(n["inner"][1], env))), "Z"), env, k)
        if kind == "UnaryOperator" and n["opcode"] in ("++", "--"):
            mk = self.mem_key(strip_lv(n["inner"][0])) if self.cfg.get("mem") else None
            if (mk and mk[1] is not None) or has_incdec(n["inner"][0]):
                lets, e1, _ = self.exe(n, env)
                return self.with_lets(lets, k(e1))
            v = self.lhs_name(n["inner"][0])
            if v is None:
                raise Unsupported("++/-- of something that is not a variable, a cell or declared memory")
            return self.assign(v, ("(%s %s 1)" % (self.toZ(self.var(v, env)), "+" if n["opcode"] == "++" else "-"), "Z"), env, k)
        if kind == "CallExpr":
            cal = strip(n["inner"][0])
            name = cal.get("referencedDecl", {}).get("name")
            e2 = self.lock_call(name, n, env)
            if e2 is not None:
                return k(e2)
            if name in self.cfg.get("ignore_calls", ()):
                return k(env)
            raise Unsupported("call statement of '%s' (not on the ignore list)" % name)
        if kind == "ReturnStmt":
            val = self.ex(n["inner"][0], env) if n.get("inner") else None
            return self.cfg["on_return"](self, env, val)
        if kind == "LabelStmt":
            return self.stmt(n["inner"][0], env, k)
        if kind == "GotoStmt":
            tgt = n.get("targetLabelDeclId")
            if not self.gorder:
                raise Unsupported("goto (the function body was not numbered: use translate_slice)")
            if self.gorder.get("L" + str(tgt), -1) < self.gorder.get(n["id"], 1 << 60):
                raise Unsupported("backward goto")
            if tgt not in self.labels:
                raise Unsupported("goto into a block that does not enclose it")
            return self.labels[tgt](env)
        if kind == "IfStmt":
            inner = n["inner"]
            clets, env, cval = self.exe(inner[0], env)
            if clets:
                return self.with_lets(clets, self.if_stmt(n, self.toB(cval), False, env, k))
            return self.if_stmt(n, self.toB(cval), True, env, k)
        if kind == "ForStmt":
            self.loops.append(None)
            try:
                return self.for_stmt(n, env, k)
            finally:
                self.loops.pop()
        if kind == "WhileStmt":
            return self.while_stmt(n, env, k)
        if kind in ("BreakStmt", "ContinueStmt"):
            if not self.loops or self.loops[-1] is None:
                raise Unsupported("%s outside a while loop (or inside a for loop)" % kind)
            return self.loops[-1][0 if kind == "BreakStmt" else 1](env)
        raise Unsupported("statement kind %s" % kind)

    def if_stmt(self, n, c, pure_cond, env, k):
            inner = n["inner"]
            th = inner[1]
            el = inner[2] if len(inner) > 2 else {"kind": "NullStmt"}
            d0 = set(self.dirty)
            vs = []
            self.assigned(th, vs)
            self.assigned(el, vs)
            loc = [v for v in vs if v not in env]
            if loc and self.cfg.get("join_both"):
                # c2gal_pm: a cell / variable without a value before the `if` that BOTH branches assign unconditionally (a plain
                # `v = e;` among the statements of the branch itself) is joined like a variable that had one; the placeholder 0 it is
                # given before the `if` is overwritten on both paths, so it never reaches the generated term
                both = [v for v in loc if v in self.pm_def_assigned(th) and v in self.pm_def_assigned(el)]
                if both:
                    env = dict(env)
                    for v in both:
                        env[v] = ("0", "Z")
                    loc = [v for v in loc if v not in both]
            part = bool(loc) and self.cfg.get("partial_init") == "dup" and not self.cfg.get("local_temps")
            if self.may_return(th) or self.may_return(el) or self.cfg.get("dup_ifs") or part:
                # every path carries its own continuation: the dropped-store bookkeeping is exact per path
                facts = env.get("#facts", ("#facts", {}))[1]
                if self.cfg.get("known_tests") and pure_cond and c in facts:
                    # the same test (same term over the same SSA names) was decided earlier on this path
                    return self.stmt(th if facts[c] else el, env, k)
                e1, e2 = env, env
                if self.cfg.get("known_tests") and pure_cond:
                    e1, e2 = dict(env), dict(env)
                    e1["#facts"] = ("#facts", dict(facts, **{c: True}))
                    e2["#facts"] = ("#facts", dict(facts, **{c: False}))
                self.ifdepth += 1
                try:
                    t1 = self.stmt(th, e1, k)
                    d1 = set(self.dirty)
                    self.dirty = set(d0)
                    t2 = self.stmt(el, e2, k)
                    self.dirty |= d1
                finally:
                    self.ifdepth -= 1
                return "(if %s\n then %s\n else %s)" % (c, t1, t2)
            if loc and not self.cfg.get("local_temps"):
                raise Unsupported("variable '%s' is assigned in one branch of an if without a value before it" % loc[0])
            vs = self.order([v for v in vs if v in env])
            envl = {x: y for x, y in env.items()}
            if not vs:
                # nothing that lives on is assigned: the statement is dropped, but its dropped stores count
                self.stores_in(th, self.dirty)
                self.stores_in(el, self.dirty)
                return k(env)
            fin = lambda e: self.tup([self.conv(e[v], env[v][1]) for v in vs])
            news = [self.fresh(self.short(v), env[v][1]) for v in vs]
            env2 = dict(env)
            for v, nm in zip(vs, news):
                env2[v] = (nm, env[v][1])
            t1 = self.stmt(th, envl, fin)
            d1 = set(self.dirty)
            self.dirty = set(d0)
            t2 = self.stmt(el, envl, fin)
            self.dirty |= d1
            return "let %s :=\n  (if %s\n   then %s\n   else %s) in\n%s" % (self.pat(news), c, t1, t2, k(env2))

    def frees_of(self, text, bound, env, n0):
        """[(gallina name, type)] the binders of the generated definition and the outer let-bound names a lifted body mentions"""
        import re
        toks = set(re.findall(r"[A-Za-z_][A-Za-z0-9_']*", text))
        frees = [(g, t) for (g, t) in self.cfg.get("params", []) if g in toks and g not in bound]
        outer = [(nm, GTYPE[ty]) for nm, ty in self.lets.items() if nm in toks and nm not in bound
                 and any(e[0] == nm for e in env.values())]
        outer.sort(key=lambda x: int(x[0].rsplit("_", 1)[1]))
        return frees + outer

    def localise(self, n0, frees=()):
        """with cfg dedupe_loops: a renaming of the names created after counter value n0 (x_57 -> x'1, x'2 .. in the order of
        their creation), so that the text of a lifted loop does not depend on where it sits; otherwise the identity"""
        if not self.cfg.get("dedupe_loops"):
            return lambda t: t
        import re
        inner = sorted((nm for nm in self.lets if int(nm.rsplit("_", 1)[1]) > n0), key=lambda nm: int(nm.rsplit("_", 1)[1]))
        ren = {nm: "%s'%d" % (nm.rsplit("_", 1)[0], i + 1) for i, nm in enumerate(inner)}
        outer = [f[0] for f in frees if f[0] in self.lets]           # outer let-bound names: binders x'o1, x'o2 .. of the definition
        ren.update({nm: "%s'o%d" % (nm.rsplit("_", 1)[0], i + 1) for i, nm in enumerate(outer)})
        return lambda t: re.sub(r"[A-Za-z_][A-Za-z0-9_']*", lambda m: ren.get(m.group(0), m.group(0)), t)

    def add_lifted(self, kind, text, vs, frees):
        """register a lifted definition (text with @NAME@ for its name); with cfg dedupe_loops an identical one is reused"""
        if self.cfg.get("dedupe_loops"):
            for l in self.lifted:
                if len(l) > 4 and l[4] == text:
                    return l[0]
        cnt = sum(1 for l in self.lifted if l[0].rsplit("_", 1)[1].startswith(kind)) + 1
        name = "%s_%s%d" % (self.cfg["lift_loops"], kind, cnt)
        self.lifted.append((name, text.replace("@NAME@", name), vs, frees, text))
        return name

    def while_stmt(self, n, env, k):
        """while (c) body  /  while (1) { .. break; .. }   ==>
             Fixpoint <f>_while<k> (fuel : nat) <free names> (st_ : T) {struct fuel} : option T :=
               match fuel with O => None | S fuel_ => let '(..) := st_ in <body> end
           where the end of the body / continue is the recursive call on fuel_, break (or a false condition) is Some (..);
           at the loop:  match <f>_while<k> <fuel> <free names> (..) with Some (..) => <rest> | None => <on_fuel> end"""
        fuel = self.cfg.get("fuel")
        if not fuel or not self.cfg.get("lift_loops") or "on_fuel" not in self.cfg:
            raise Unsupported("while loop (needs cfg fuel, lift_loops, on_fuel)")
        if len(n["inner"]) != 2:
            raise Unsupported("while loop with a condition variable")
        cond, body = n["inner"]
        if mentions(body, lambda x: x.get("kind") in ("ReturnStmt", "GotoStmt", "LabelStmt")):
            raise Unsupported("return, goto or a label inside a while loop")
        vs = []
        self.effects(cond, vs)
        self.assigned(body, vs)
        vs = self.order([v for v in vs if v in env])
        if not vs:
            raise Unsupported("while loop that assigns nothing that lives on")
        self.stores_in(body, self.dirty)
        n0 = self.n
        stn = [self.fresh(self.short(v), env[v][1]) for v in vs]
        envb = dict(env)
        for v, nm in zip(vs, stn):
            envb[v] = (nm, env[v][1])
        envb.pop("#facts", None)          # facts about names assigned in the loop do not survive an iteration
        state = lambda e: self.tup([self.conv(e[v], env[v][1]) for v in vs])
        rec = lambda e: "@NAME@ fuel_ @FREES@ %s" % (state(e) if len(vs) > 1 else "(%s)" % state(e))
        brk = lambda e: "Some %s" % (state(e) if len(vs) > 1 else "(%s)" % state(e))
        self.loops.append((brk, rec))
        self.ifdepth += 1
        try:
            c0 = strip(cond)
            if c0.get("kind") == "IntegerLiteral" and int(c0["value"]) != 0:
                bodyt = self.stmt(body, envb, rec)
            else:
                clets, envc, cval = self.exe(cond, envb)
                bodyt = self.with_lets(clets, "(if %s\n then %s\n else %s)" % (self.toB(cval), self.stmt(body, envc, rec), brk(envc)))
        finally:
            self.loops.pop()
            self.ifdepth -= 1
        frees = self.frees_of(bodyt, set(stn) | {"fuel_"}, env, n0)
        frees = [f for f in frees if f[0] != fuel]
        fr = " ".join(f[0] for f in frees)
        bodyt = bodyt.replace("@FREES@", fr)
        sty = " * ".join(GTYPE[env[v][1]] for v in vs)
        loc_ = self.localise(n0, frees)
        name = self.add_lifted("while", "Fixpoint @NAME@ (fuel : nat) %s (st_ : %s) {struct fuel} : option (%s) :=\n  match fuel with\n  | O => None\n  | S fuel_ =>\n    let %s := st_ in\n    %s\n  end.\n" % (
            " ".join("(%s : %s)" % (loc_(f[0]), f[1]) for f in frees), sty, sty, loc_(self.pat(stn)), loc_(bodyt)), [v for v in vs],
            [loc_(f[0]) for f in frees])
        news = [self.fresh(self.short(v), env[v][1]) for v in vs]
        env2 = dict(env)
        for v, nm in zip(vs, news):
            env2[v] = (nm, env[v][1])
        env2.pop("#facts", None)
        init = self.tup([env[v][0] for v in vs])
        return "match %s %s %s %s with\n | Some %s => %s\n | None => %s\n end" % (
            name, fuel, fr, init if len(vs) > 1 else "(%s)" % init, self.tup(news) if len(vs) > 1 else news[0], k(env2), self.cfg["on_fuel"](self, env))

    def for_stmt(self, n, env, k):
            init, _cv, cond, inc, body = (n["inner"] + [None] * 5)[:5]
            if self.may_return(body):
                raise Unsupported("return, goto, break, continue or a while loop inside a for loop")
            if any(x and has_incdec(x) for x in (init, cond)):
                raise Unsupported("++/-- in the bounds of a for loop")
            # init: i = a
            if not init or init.get("kind") != "BinaryOperator" or init["opcode"] != "=":
                raise Unsupported("for-loop initialiser is not `i = a`")
            iv = self.lhs_name(init["inner"][0])
            a = self.toZ(self.ex(init["inner"][1], env))
            cnd = strip(cond) if cond else {}
            if cnd.get("kind") != "BinaryOperator" or cnd["opcode"] not in ("<", "<=") or self.lhs_name(cnd["inner"][0]) != iv:
                raise Unsupported("for-loop condition is not `i < b` / `i <= b`")
            b = self.toZ(self.ex(cnd["inner"][1], env))
            if cnd["opcode"] == "<=":
                b = "(%s + 1)" % b
            ic = strip(inc) if inc else {}
            if not (ic.get("kind") == "UnaryOperator" and ic["opcode"] == "++" and self.lhs_name(ic["inner"][0]) == iv):
                raise Unsupported("for-loop increment is not ++i / i++")
            vs = []
            self.assigned(body, vs)
            if iv in vs:
                raise Unsupported("for-loop body assigns the loop variable")
            loc = [v for v in vs if v not in env]
            if loc and not self.cfg.get("local_temps"):
                raise Unsupported("variable '%s' is assigned in a loop body without a value before the loop" % loc[0])
            vs = self.order([v for v in vs if v in env])
            # a store dropped anywhere in the body is visible to every read in the body (next iteration)
            self.stores_in(body, self.dirty)
            n0 = self.n
            ivn = self.fresh(iv)
            stn = [self.fresh(self.short(v), env[v][1]) for v in vs]
            envb = dict(env)
            envb[iv] = (ivn, "Z")
            for v, nm in zip(vs, stn):
                envb[v] = (nm, env[v][1])
            fin = lambda e: self.tup([self.conv(e[v], env[v][1]) for v in vs])
            bodyt = self.stmt(body, envb, fin)
            news = [self.fresh(self.short(v), env[v][1]) for v in vs]
            env2 = dict(env)
            for v, nm in zip(vs, news):
                env2[v] = (nm, env[v][1])
            env2[iv] = ("(Z.max %s %s)" % (a, b), "Z")
            if not vs:
                return k(env2)
            init = self.tup([env[v][0] for v in vs])
            if self.cfg.get("lift_loops"):
                # the body as a definition of its own, abstracted over the outer names it mentions
                frees = self.frees_of(bodyt, set(stn) | {ivn}, env, n0)
                sty = " * ".join(GTYPE[env[v][1]] for v in vs)
                loc_ = self.localise(n0, frees)
                lname = self.add_lifted("loop", "Definition @NAME@ %s (st_ : %s) (%s : Z) : %s :=\n  let %s := st_ in\n    %s.\n" % (
                    " ".join("(%s : %s)" % (loc_(f[0]), f[1]) for f in frees), sty, loc_(ivn), sty, loc_(self.pat(stn)), loc_(bodyt)),
                    [v for v in vs], [f[0] for f in frees])
                return "let %s :=\n  fold_left (%s)\n    (zrange %s %s) %s in\n%s" % (
                    self.pat(news), " ".join([lname] + [f[0] for f in frees]), a, b, init, k(env2))
            return "let %s :=\n  fold_left (fun st_ %s => let %s := st_ in\n    %s)\n    (zrange %s %s) %s in\n%s" % (
                self.pat(news), ivn, self.pat(stn), bodyt, a, b, init, k(env2))


    # ------------------------------------------------------------------ extensions added for ParallelInit / pxgstrf_relax_snode
    # (all behind new cfg keys; without them the three hooks stmt_ext / assigned_ext / may_return_ext do nothing)
    #   general_for     True: a `for` loop that is not of the fold shape `for (i = a; i < b; ++i)` (no increment, the body assigns
    #                   the loop variable or something the bound mentions, break / while / a nested general loop inside) becomes
    #                   `init; while (cond) { body; inc; }`, i.e. a fuel Fixpoint like every while loop (continue is refused when
    #                   there is an increment).  Nested while loops take the fuel that is left to the enclosing loop.
    #   chained_assign  True: `a = b = e;` is `b = e; a = b;` (b a side-effect free lvalue)
    #   alloc           {callee: (unit, fill)}  `p = [cast] callee(arg);` gives every declared memory array under p (p a pointer local:
    #                   "p[]", "p[].f"; p an object path: "<path>[]", "<path>[].f") the fresh value `repeat <fill> (Z.to_nat <len>)`;
    #                   unit "count": len = arg; unit "bytes": arg must be `len * sizeof(T)` with T the element type of p.
    #                   fill is a Gallina term ("0" for calloc; e.g. a parameter name for the indeterminate contents of malloc)
    #   ignore_alloc    set of object paths whose allocation statement is dropped (opaque objects: the mutex array)
    #   ignore_mem      set of array paths (statistics): statements `X[i] = e;` `X[i] op= e;` `X[i]++;` on them are dropped when
    #                   index and value are side-effect free; the path must not be declared in "mem", so every read of it stops
    #                   the translation
    #   abort_calls     set of callees that never return: the path ends with cfg["on_abort"](tr, env)
    #   fun_calls       {callee: {"gname": Gallina function translated separately, "args": [("val",) | ("ptr", path)] per parameter,
    #                             "reads": [paths], "writes": [paths], "ret": bool, "extra": [terms], "option": bool}}
    #                   a call (statement `f(..);`, `v = f(..);`, `if ((v = f(..)))`, `if (f(..))`) becomes
    #                   `let '(ret, w1, .., wk) := (gname <val args> <reads> <extra>) in`; a pointer argument must denote exactly the
    #                   object path the callee was translated for.  "option": the callee may run out of fuel (it gets cfg fuel).
    def call_of(self, n):
        """(callee name, call node) when n is, under casts and parentheses, a call; else (None, None)"""
        n = strip(n)
        if n.get("kind") != "CallExpr":
            return None, None
        return strip(n["inner"][0]).get("referencedDecl", {}).get("name"), n

    def is_plain_assign(self, n):
        return n.get("kind") == "BinaryOperator" and n.get("opcode") == "="

    def dropped_mem_stmt(self, n):
        ig = self.cfg.get("ignore_mem")
        if not ig:
            return False
        kind = n.get("kind")
        if self.is_plain_assign(n) or kind == "CompoundAssignOperator":
            lv, others = n["inner"][0], [n["inner"][1]]
        elif kind == "UnaryOperator" and n.get("opcode") in ("++", "--"):
            lv, others = n["inner"][0], []
        else:
            return False
        l = strip_lv(lv)
        if l.get("kind") not in ("ArraySubscriptExpr", "MemberExpr"):
            return False
        try:
            p = self.path(l)
        except Unsupported:
            return False
        if p is None or p[0] not in ig:
            return False
        if (p[1] is not None and not self.pure(p[1])) or any(not self.pure(o) for o in others):
            raise Unsupported("dropped statement on '%s' has a side effect in its index or value" % p[0])
        return True

    def for_is_general(self, n):
        """syntactic: the for loop does not have the fold shape for_stmt translates"""
        init, _cv, cond, inc, body = (n["inner"] + [None] * 5)[:5]
        if not init or not cond or not inc or not body:
            return True
        if self.may_return(body):
            return True
        if not self.is_plain_assign(init):
            return True
        try:
            iv = self.lhs_name(init["inner"][0])
            cnd = strip(cond)
            if cnd.get("kind") != "BinaryOperator" or cnd.get("opcode") not in ("<", "<=") or self.lhs_name(cnd["inner"][0]) != iv:
                return True
            ic = strip(inc)
            if not (ic.get("kind") == "UnaryOperator" and ic.get("opcode") == "++" and self.lhs_name(ic["inner"][0]) == iv):
                return True
            vs = []
            self.assigned(body, vs)
            if iv in vs or any(self.occurrences(cnd["inner"][1], v) for v in vs):
                return True
        except Unsupported:
            return True
        return False

    def for_general(self, n, env, k):
        init, _cv, cond, inc, body = (n["inner"] + [None] * 5)[:5]
        if _cv:
            raise Unsupported("for loop with a condition variable")
        if inc and mentions(body, lambda x: x.get("kind") == "ContinueStmt"):
            raise Unsupported("continue inside a for loop that is translated as a while loop")
        if cond is None:
            cond = {"kind": "IntegerLiteral", "value": "1"}
        w = {"kind": "WhileStmt", "inner": [cond, {"kind": "CompoundStmt", "inner": [x for x in (body, inc) if x]}]}
        if init:
            return self.stmt(init, env, lambda e: self.while_stmt(w, e, k))
        return self.while_stmt(w, env, k)

    def alloc_target(self, lhs, register):
        """the memory keys (cfg mem) that an allocation assigned to the pointer lvalue lhs creates; [] for an ignored object"""
        l = strip_lv(lhs)
        if l.get("kind") == "DeclRefExpr" and l["referencedDecl"]["name"] not in self.ptr or \
                (l.get("kind") == "DeclRefExpr" and self.ptr.get(l["referencedDecl"]["name"]) == l["referencedDecl"]["name"]):
            root = l["referencedDecl"]["name"]
            if not l.get("type", {}).get("qualType", "").rstrip().endswith("*"):
                raise Unsupported("allocation assigned to '%s', which is not a pointer" % root)
            if register:
                if self.loops:
                    raise Unsupported("allocation of the pointer local '%s' inside a loop" % root)
                self.ptr[root] = root
        else:
            p = self.path(l)
            if p is None or p[1] is not None:
                raise Unsupported("allocation assigned to something that is not a pointer local or an object path")
            root = p[0]
        keys = [key for key in self.cfg.get("mem", {}) if key == root + "[]" or key.startswith(root + "[].")]
        if not keys:
            if root in self.cfg.get("ignore_alloc", ()):
                return []
            raise Unsupported("allocation of undeclared memory '%s'" % root)
        for key in keys:
            if self.cfg["mem"][key][1] != "array" or self.cfg["mem"][key][2]:
                raise Unsupported("allocation of '%s', which is declared read-only or as a cell" % key)
        return keys

    def alloc_stmt(self, lhs, cname, call, env, k, rhs=None):
        unit, fill = self.cfg["alloc"][cname]
        if not self.alloc_target(lhs, False):
            return k(env)          # cfg ignore_alloc: an opaque object
        args = call["inner"][1:]
        if len(args) != 1:
            raise Unsupported("%s with %d arguments" % (cname, len(args)))
        cnt = args[0]
        if unit == "bytes":
            a = strip(cnt)
            if a.get("kind") != "BinaryOperator" or a.get("opcode") != "*":
                raise Unsupported("size of %s is not `count * sizeof(T)`" % cname)
            x, y = strip(a["inner"][0]), strip(a["inner"][1])
            issz = lambda z: z.get("kind") == "UnaryExprOrTypeTraitExpr" and z.get("name") == "sizeof"
            if issz(y) and not issz(x):
                cnt, sz = a["inner"][0], y
            elif issz(x) and not issz(y):
                cnt, sz = a["inner"][1], x
            else:
                raise Unsupported("size of %s is not `count * sizeof(T)`" % cname)
            clean = lambda t: " ".join(w for w in t.replace("*", " * ").split() if w not in ("const", "volatile", "register"))
            elt = clean(strip_lv(lhs).get("type", {}).get("qualType", ""))
            szt = sz.get("argType", {}).get("qualType")
            if szt is None and sz.get("inner"):
                szt = sz["inner"][0].get("type", {}).get("qualType")
            # the element type: the pointee of the assigned pointer, or of the explicit cast `(T *) malloc(..)` (typedef names)
            cands = [elt]
            if rhs is not None and strip_lv(rhs).get("kind") == "CStyleCastExpr":
                cands.append(clean(strip_lv(rhs).get("type", {}).get("qualType", "")))
            if szt is None or not any(c_.endswith("*") and clean(szt) == c_[:-1].strip() for c_ in cands):
                raise Unsupported("%s: sizeof(%s) does not match the element type of '%s'" % (cname, szt, elt))
        if not self.pure(cnt):
            raise Unsupported("allocation size with a side effect")
        lent = self.toZ(self.ex(cnt, env))
        keys = self.alloc_target(lhs, True)
        env2 = dict(env)
        lines = []
        for key in keys:
            self.guard(key, env, "write")
            nm = self.fresh(self.short(key), "L")
            lines.append("let %s := (repeat %s (Z.to_nat %s)) in" % (nm, fill, lent))
            env2[key] = (nm, "L")
        return self.with_lets(lines, k(env2))

    def fun_call(self, cname, call, env, kont):
        """kont(env after the call, (value term, 'Z') or None)"""
        sp = self.cfg["fun_calls"][cname]
        args = call["inner"][1:]
        if len(args) != len(sp["args"]):
            raise Unsupported("%s called with %d arguments" % (cname, len(args)))
        vals = []
        for a, s_ in zip(args, sp["args"]):
            if s_[0] == "val":
                if not self.pure(a):
                    raise Unsupported("argument of %s with a side effect" % cname)
                vals.append(self.toZ(self.ex(a, env)))
            else:
                p = self.path(a)
                if p is None or p[1] is not None or p[0] != s_[1]:
                    raise Unsupported("a pointer argument of %s is not the object '%s' it was translated for" % (cname, s_[1]))
        reads = [self.var(p, env)[0] for p in sp.get("reads", [])]
        env2 = dict(env)
        names = []
        ret = None
        if sp.get("ret"):
            ret = self.fresh(cname + "_ret")
            names.append(ret)
        for p in sp.get("writes", []):
            self.guard(p, env, "write")
            m = self.cfg["mem"][p]
            if m[2]:
                raise Unsupported("%s writes the read-only memory '%s'" % (cname, p))
            ty = "L" if m[1] == "array" else "Z"
            nm = self.fresh(m[0], ty)
            env2[p] = (nm, ty)
            names.append(nm)
        env2.pop("#facts", None)
        extra = list(sp.get("extra", []))
        term = "(%s)" % " ".join([sp["gname"]] + vals + reads + extra + ([self.cfg["fuel"]] if sp.get("option") else []))
        rest = kont(env2, (ret, "Z") if ret else None)
        if not names:
            return rest
        if sp.get("option"):
            return "match %s with\n | Some %s => %s\n | None => %s\n end" % (term, self.tup(names), rest, self.cfg["on_fuel"](self, env))
        return "let %s := %s in\n%s" % (self.pat(names), term, rest)

    def cond_call(self, cond):
        """an if-condition that is `f(..)` or `(v = f(..))` with f in cfg fun_calls: (lvalue node or None, callee, call node)"""
        c0 = strip_lv(cond)
        if self.is_plain_assign(c0):
            cname, call = self.call_of(c0["inner"][1])
            if cname in self.cfg.get("fun_calls", {}):
                return c0["inner"][0], cname, call
            return None
        cname, call = self.call_of(c0) if c0.get("kind") == "CallExpr" else (None, None)
        if cname in self.cfg.get("fun_calls", {}):
            return None, cname, call
        return None

    def stmt_ext(self, n, env, k):
        kind = n.get("kind")
        r_pm = self.pm_stmt(n, env, k)          # c2gal_pm extension: ptr_assign / comma statements / free_calls
        if r_pm is not None:
            return r_pm
        if self.dropped_mem_stmt(n):
            return k(env)
        if kind == "ForStmt" and self.cfg.get("general_for") and self.for_is_general(n):
            return self.for_general(n, env, k)
        if self.is_plain_assign(n):
            r0 = strip_lv(n["inner"][1])
            if self.cfg.get("chained_assign") and self.is_plain_assign(r0):
                lv2 = strip_lv(r0["inner"][0])
                if not self.pure(lv2):
                    raise Unsupported("chained assignment through an lvalue with a side effect")
                outer = dict(n)
                outer["inner"] = [n["inner"][0], lv2]
                return self.stmt(r0, env, lambda e: self.stmt(outer, e, k))
            cname, call = self.call_of(n["inner"][1])
            if cname is not None and cname in self.cfg.get("alloc", {}):
                return self.alloc_stmt(n["inner"][0], cname, call, env, k, n["inner"][1])
            if cname is not None and cname in self.cfg.get("fun_calls", {}):
                if not self.cfg["fun_calls"][cname].get("ret"):
                    raise Unsupported("the value of %s is used but it was translated without one" % cname)
                return self.fun_call(cname, call, env, lambda e, val: self.store(strip_lv(n["inner"][0]), val, e, k))
        if kind == "CallExpr":
            cname, call = self.call_of(n)
            if cname is not None and cname in self.cfg.get("abort_calls", ()):
                return self.cfg["on_abort"](self, env)
            if cname is not None and cname in self.cfg.get("fun_calls", {}):
                return self.fun_call(cname, call, env, lambda e, val: k(e))
        if kind == "IfStmt" and self.cfg.get("fun_calls"):
            cc = self.cond_call(n["inner"][0])
            if cc:
                lv, cname, call = cc
                if not self.cfg["fun_calls"][cname].get("ret"):
                    raise Unsupported("the value of %s is used but it was translated without one" % cname)
                if lv is None:
                    return self.fun_call(cname, call, env, lambda e, val: self.if_stmt(n, self.toB(val), False, e, k))
                return self.fun_call(cname, call, env, lambda e, val: self.store(
                    strip_lv(lv), val, e, lambda e2: self.if_stmt(n, self.toB(self.ex(strip_lv(lv), e2)), False, e2, k)))
        return None

    # ------------------------------------------------------------------ c2gal_pm extension (?PresetMap of p?memory.c)
    def mark_toplevel(self, body):
        """remember the statements of the function body's top level (cfg ptr_assign / free_calls are only understood there: every
        path that reaches a later statement has passed through them)"""
        self.toplevel = {c["id"] for c in body.get("inner", []) if c}

    def pm_def_assigned(self, n):
        """the variables / cells that the statement n assigns on every path through it by a plain `v = e;` statement of its own
        statement list (nested ifs and loops are not looked into)"""
        out = set()
        stmts = n.get("inner", []) if n.get("kind") == "CompoundStmt" else [n]
        for s_ in stmts:
            if s_ and self.is_plain_assign(s_) and not has_incdec(s_):
                try:
                    v = self.lhs_name(s_["inner"][0])
                except Unsupported:
                    v = None
                if v is not None:
                    mk = self.mem_key(strip_lv(s_["inner"][0])) if self.cfg.get("mem") else None
                    if not (mk and mk[1] is not None):
                        out.add(v)
        return out

    def pm_stmt(self, n, env, k):
        """cfg keys added for ?PresetMap:
             ptr_assign  True: `v = <pointer expression with a path>;` on a pointer LOCAL v, as a statement of the function's top
                         level (mark_toplevel), makes v a declared pointer to that path (`Astore = A->Store; asub = Astore->rowind;`,
                         and the second half of `map_in_sup = Glu->map_in_sup = intCalloc(n+1);` after cfg chained_assign split it);
                         v cannot be given a second, different value
             comma_stmt  True: an expression statement `a, b` (the increment `k = i, i += super_bnd[i]` of a general for loop) is
                         the statement sequence `a; b;`
             free_calls  set of callees: `callee(v)` at the top level on a pointer local v that holds an allocation made in the
                         routine (cfg alloc) ends the life of v[] (a later access stops the translation)
             join_both   True: see if_stmt -- a variable with no value before an `if` that both branches assign is joined
             (calls such as getenv("NAME") / sp_ienv(3) are ordinary cfg "calls" handlers of the driver)"""
        kind = n.get("kind")
        if kind == "BinaryOperator" and n.get("opcode") == "," and self.cfg.get("comma_stmt"):
            return self.seq(list(n["inner"]), env, k)
        if self.is_plain_assign(n) and self.cfg.get("ptr_assign"):
            l = strip_lv(n["inner"][0])
            if l.get("kind") == "DeclRefExpr" and l.get("type", {}).get("qualType", "").rstrip().endswith("*") \
                    and l["referencedDecl"].get("kind") == "VarDecl":
                v = l["referencedDecl"]["name"]
                r0 = strip_lv(n["inner"][1])
                if not self.is_plain_assign(r0) and self.call_of(n["inner"][1])[0] is None:
                    try:
                        p = self.path(n["inner"][1])
                    except Unsupported:
                        p = None
                    if p is not None and p[1] is None:
                        if n.get("id") not in getattr(self, "toplevel", ()):
                            raise Unsupported("pointer assignment `%s = ..` that is not a statement of the function's top level" % v)
                        if self.ptr.get(v, p[0]) != p[0] or v in env:
                            raise Unsupported("pointer '%s' is given two different values" % v)
                        self.ptr[v] = p[0]
                        return k(env)
        if kind == "CallExpr" and self.cfg.get("free_calls"):
            cname, call = self.call_of(n)
            if cname in self.cfg["free_calls"]:
                a = strip(call["inner"][1]) if len(call["inner"]) == 2 else {}
                v = a.get("referencedDecl", {}).get("name") if a.get("kind") == "DeclRefExpr" else None
                key = (v or "") + "[]"
                if v is None or self.ptr.get(v) != v or key not in env:
                    raise Unsupported("%s of something that is not a live array allocated in the routine" % cname)
                if n.get("id") not in getattr(self, "toplevel", ()):
                    raise Unsupported("%s(%s) that is not a statement of the function's top level" % (cname, v))
                env2 = dict(env)
                del env2[key]
                return k(env2)
        return None

    def assigned_ext(self, n, acc):
        """True when the statement has been accounted for (acc extended as needed)"""
        kind = n.get("kind")
        add = lambda v: acc.append(v) if v not in acc else None
        if kind == "BinaryOperator" and n.get("opcode") == "," and self.cfg.get("comma_stmt"):
            for c in n["inner"]:
                self.assigned(c, acc)
            return True
        if self.dropped_mem_stmt(n):
            return True
        if self.is_plain_assign(n):
            r0 = strip_lv(n["inner"][1])
            if self.cfg.get("chained_assign") and self.is_plain_assign(r0):
                self.assigned(r0, acc)
                v = self.lhs_name(n["inner"][0])
                if v is None:
                    raise Unsupported("assignment to something that is not a scalar variable or a declared cell")
                add(v)
                return True
            cname, call = self.call_of(n["inner"][1])
            if cname is not None and cname in self.cfg.get("alloc", {}):
                for key in self.alloc_target(n["inner"][0], False):
                    add(key)
                return True
            if cname is not None and cname in self.cfg.get("fun_calls", {}):
                for p in self.cfg["fun_calls"][cname].get("writes", []):
                    add(p)
                v = self.lhs_name(n["inner"][0])
                if v is None:
                    raise Unsupported("assignment to something that is not a scalar variable or a declared cell")
                add(v)
                return True
        if kind == "CallExpr":
            cname, call = self.call_of(n)
            if cname is not None and cname in self.cfg.get("abort_calls", ()):
                return True
            if cname is not None and cname in self.cfg.get("fun_calls", {}):
                for p in self.cfg["fun_calls"][cname].get("writes", []):
                    add(p)
                return True
        if kind == "IfStmt" and self.cfg.get("fun_calls"):
            cc = self.cond_call(n["inner"][0])
            if cc:
                for p in self.cfg["fun_calls"][cc[1]].get("writes", []):
                    add(p)
                if cc[0] is not None:
                    v = self.lhs_name(cc[0])
                    if v is None:
                        raise Unsupported("assignment to something that is not a scalar variable or a declared cell")
                    add(v)
                for c in n["inner"][1:]:
                    if c:
                        self.assigned(c, acc)
                return True
        return False

    def may_return_ext(self, n):
        kind = n.get("kind")
        if kind == "CallExpr":
            cname, call = self.call_of(n)
            if cname is not None and cname in self.cfg.get("abort_calls", ()):
                return True
            if cname is not None and self.cfg.get("fun_calls", {}).get(cname, {}).get("option"):
                return True
        if kind == "ForStmt" and self.cfg.get("general_for"):
            init, _cv, cond, inc, body = (n["inner"] + [None] * 5)[:5]
            if not init or not cond or not inc or not body:
                return True
            # (the other reasons for a general loop are found by the recursion: break / while inside; a body that assigns
            #  the loop variable or its bound is decided by for_is_general)
            if not any(self.may_return(c) for c in n.get("inner", []) if c) and self.for_is_general(n):
                return True
        return False


def translate_slice(fn_ast, cfg, start=None, stop=None, final=None):
    """translate the statements of the function body from the first one for which start(stmt) holds (default: the first) up to,
    not including, the first later one for which stop(stmt) holds; `final(tr, env)` gives the result expression"""
    body = [c for c in fn_ast["inner"] if c.get("kind") == "CompoundStmt"][0]
    stmts = body.get("inner", [])
    i0 = 0
    if start:
        i0 = next((i for i, s in enumerate(stmts) if start(s)), None)
        if i0 is None:
            raise Unsupported("start of the slice not found")
    i1 = len(stmts)
    if stop:
        i1 = next((i for i in range(i0, len(stmts)) if stop(stmts[i])), None)
        if i1 is None:
            raise Unsupported("end of the slice not found")
    tr = Tr(cfg)
    tr.number(body)
    env = dict(cfg.get("inputs", {}))
    # declarations before the slice may set up aliases (Xstore = X->Store) and plain initialised locals
    for s in stmts[:i0]:
        if s.get("kind") == "DeclStmt":
            for d in s.get("inner", []):
                if d.get("kind") == "VarDecl" and tr.is_alias_init(d):
                    b = strip(strip(d["inner"][0])["inner"][0])
                    tr.alias[d["name"]] = tr.alias.get(b["referencedDecl"]["name"], b["referencedDecl"]["name"])
    return tr.seq(stmts[i0:i1], env, lambda e: final(tr, e))


def decl_order(fn_ast):
    """the variables of a function in the order of their declaration: cells `*p` / parameters first, then locals"""
    out = []

    def go(n):
        if n.get("kind") in ("ParmVarDecl", "VarDecl") and n.get("name"):
            for nm in (n["name"], "*" + n["name"]):
                if nm not in out:
                    out.append(nm)
        for c in n.get("inner", []):
            if c:
                go(c)
    go(fn_ast)
    return out


def mentions(n, pred):
    if pred(n):
        return True
    return any(mentions(c, pred) for c in n.get("inner", []) if c)
