#!/usr/bin/env python3
"""usage: gen_trans.py <repo> <coqdir>  -- re-translate decision logic of /repo/SRC into Gallina (tools/c2gal.py) on every run:
     coq/ArgCheckGen.v   the argument tests of p?gssv, ?gstrs, ?gsrfs, ?gscon, ?gsequ, sp_?trsv, sp_?gemv (4 precisions each)
     coq/PivotGen.v      the pivot search and pivot policy of p?gstrf_pivotL (4 precisions)
     coq/UstackGen.v     the two-ended user stack of p?memory.c: ?user_malloc, ?user_free (4 precisions)
     coq/SchedGen.v      the panel scheduler pxgstrf_scheduler (one source file for all precisions)
     coq/SchedInitGen.v  the initial state: pxgstrf_relax_snode, queue_init, EnqueueRelaxSnode, ParallelInit (gen_init)
   The tie theorems (generated definition = hand-written model) live in the hand-written coq/*Tie.v files.
   A piece that cannot be translated is left out of the generated file with the reason in a comment: its tie theorem then
   fails to compile, which the checks report as a broken obligation."""
# NOTE: this file is the scheduler part of the translator driver, kept separate because it was developed against its own extension of
# tools/c2gal.py (tools/c2gal_sched.py: while loops with fuel, shared-memory paths, list cells); tools/gen_trans.py calls gen_sched().
import sys, os
sys.path.insert(0, os.path.dirname(os.path.abspath(__file__)))
import c2gal_sched as c2gal
from c2gal_sched import Unsupported, strip, mentions

REPO = sys.argv[1] if len(sys.argv) > 1 else "/repo"
COQ = sys.argv[2] if len(sys.argv) > 2 else os.path.join(os.path.dirname(os.path.dirname(os.path.abspath(__file__))), "coq")
SRC = os.path.join(REPO, "SRC")

MAT_FIELDS = {"nrow": "m_nr", "ncol": "m_nc", "Stype": "m_st", "Dtype": "m_dt", "Mtype": "m_mt", "lda": "m_lda"}


def write_if_changed(path, txt):
    if os.path.exists(path) and open(path).read() == txt:
        return
    open(path, "w").write(txt)


def h_lsame(tr, args, env):
    a = strip(args[0])
    if a.get("kind") != "DeclRefExpr":
        raise Unsupported("lsame_ first argument")
    s = strip(args[1])
    if s.get("kind") != "StringLiteral":
        raise Unsupported("lsame_ second argument is not a string literal")
    lit = s["value"].strip('"')
    return ("(lsame %s %d)" % (tr.var(a["referencedDecl"]["name"], env)[0], ord(lit[0])), "B")


def is_assign_to(s, name):
    """statement `name = ...` / `*name = ...`"""
    if s.get("kind") != "BinaryOperator" or s.get("opcode") != "=":
        return False
    l = strip(s["inner"][0])
    if l.get("kind") == "UnaryOperator" and l.get("opcode") == "*":
        l = strip(l["inner"][0])
    return l.get("kind") == "DeclRefExpr" and l["referencedDecl"]["name"] == name


def calls(n, fname):
    return mentions(n, lambda x: x.get("kind") == "CallExpr" and strip(x["inner"][0]).get("referencedDecl", {}).get("name") == fname)


# routine table: file pattern, function pattern, parameters of the generated function (C name, Gallina binder), info variable
ROUTINES = [
    ("gssv",  "p%sgssv.c",    "p%sgssv",   [("nprocs", "nprocs", "Z"), ("A", "A", "mat"), ("B", "B", "mat")], "*info", []),
    ("gstrs", "%sgstrs.c",    "%sgstrs",   [("trans", "trans", "Z"), ("L", "L", "mat"), ("U", "U", "mat"), ("B", "B", "mat")], "*info", []),
    ("gsrfs", "%sgsrfs.c",    "%sgsrfs",   [("trans", "trans", "Z"), ("A", "A", "mat"), ("L", "L", "mat"), ("U", "U", "mat"), ("B", "B", "mat"), ("X", "X", "mat")], "*info", []),
    ("gscon", "%sgscon.c",    "%sgscon",   [("norm", "norm", "Z"), ("L", "L", "mat"), ("U", "U", "mat")], "*info", []),
    ("gsequ", "%sgsequ.c",    "%sgsequ",   [("A", "A", "mat")], "*info", []),
    ("trsv",  "%ssp_blas2.c", "sp_%strsv", [("uplo", "uplo", "Z"), ("trans", "trans", "Z"), ("diag", "diag", "Z"), ("L", "L", "mat"), ("U", "U", "mat")], "*info", []),
    ("gemv",  "%ssp_blas2.c", "sp_%sgemv", [("trans", "trans", "Z"), ("A", "A", "mat"), ("incx", "incx", "Z"), ("incy", "incy", "Z")], "info", ["notran"]),
]


def gen_argcheck():
    out = ["(* GENERATED on every run by tools/gen_trans.py (translator tools/c2gal.py, clang AST) from the argument tests at the top of",
           "   p?gssv, ?gstrs, ?gsrfs, ?gscon, ?gsequ, sp_?trsv, sp_?gemv in %s -- do not edit.  gen_<routine>_check returns the value" % SRC,
           "   the C code has in its info variable when it reaches `if ( info != 0 ) { ... xerbla_ ... return; }`. *)",
           "Require Import ZArith List Bool.", "From SLU Require Import Consts ArgCheckModel.", "Local Open Scope Z_scope.", "Local Open Scope bool_scope.", ""]
    ok = 0
    for (rname, fpat, fnpat, params, infovar, pre) in ROUTINES:
        for p in "sdcz":
            cfile = os.path.join(SRC, fpat % p)
            fname = fnpat % p
            gname = "gen_%s_check" % fname
            try:
                fn = c2gal.load_function(cfile, fname, incdir=SRC)
                inputs = {}
                cells = set()
                for (cn, gn, ty) in params:
                    inputs[cn] = (gn, "Z")
                    if ty == "Z" and cn in ("norm",):
                        inputs["*" + cn] = (gn, "Z")
                        cells.add(cn)
                iv = infovar.lstrip("*")
                if infovar.startswith("*"):
                    cells.add(iv)
                cfg = {"inputs": inputs, "cells": cells, "fields": MAT_FIELDS, "calls": {"lsame_": h_lsame}, "ignore_calls": set()}
                body = [c for c in fn["inner"] if c.get("kind") == "CompoundStmt"][0]["inner"]

                def pick(stmts):
                    i0 = next((i for i, s in enumerate(stmts) if is_assign_to(s, iv) and strip(s["inner"][1]).get("kind") == "IntegerLiteral"), None)
                    if i0 is None:
                        raise Unsupported("`%s = 0` not found" % infovar)
                    i1 = next((i for i in range(i0, len(stmts)) if stmts[i].get("kind") == "IfStmt" and calls(stmts[i]["inner"][1], "xerbla_")
                               and not is_assign_to(stmts[i]["inner"][1], iv)), None)
                    if i1 is None:
                        raise Unsupported("`if ( %s != 0 ) { xerbla_ ... }` not found" % infovar)
                    # plain assignments before `info = 0` that the translator understands (Xstore = X->Store; ldb = Bstore->lda;
                    # notran = lsame_(trans, "N"); ...) are part of the slice: the tests read these locals
                    first = []
                    for s in stmts[:i0]:
                        if s.get("kind") == "BinaryOperator" and s.get("opcode") == "=":
                            try:
                                t2 = c2gal.Tr(cfg); t2.alias = dict(tr.alias)
                                t2.seq(first + [s], dict(inputs), lambda e: "")
                                first.append(s)
                            except Unsupported:
                                pass
                    return first + stmts[i0:i1]
                tr = c2gal.Tr(cfg)
                env = dict(inputs)
                for s in body:      # aliases set up by declarations (XStore = X->Store)
                    if s.get("kind") == "DeclStmt":
                        for d in s.get("inner", []):
                            if d.get("kind") == "VarDecl" and tr.is_alias_init(d):
                                b = strip(strip(d["inner"][0])["inner"][0])
                                tr.alias[d["name"]] = b["referencedDecl"]["name"]
                term = tr.seq(pick(body), env, lambda e: e[infovar][0] if infovar in e else e[iv][0])
                binders = " ".join("(%s : %s)" % (gn, ty) for (_, gn, ty) in params)
                out.append("(* %s : %s *)" % (os.path.basename(cfile), fname))
                out.append("Definition %s %s : Z :=\n%s.\n" % (gname, binders, term))
                ok += 1
            except Unsupported as e:
                out.append("(* %s NOT TRANSLATED: %s *)\n" % (gname, str(e).replace("*)", "* )")))
    write_if_changed(os.path.join(COQ, "ArgCheckGen.v"), "\n".join(out) + "\n")
    return ok


# ------------------------------------------------------------------------------------------------ pivot search and policy
def reads_array(n, names):
    return mentions(n, lambda x: x.get("kind") == "ArraySubscriptExpr" and strip(x["inner"][0]).get("kind") == "DeclRefExpr"
                    and strip(x["inner"][0])["referencedDecl"]["name"] in names)


def is_store_to(s, name):
    if s.get("kind") != "BinaryOperator" or s.get("opcode") != "=":
        return False
    l = strip(s["inner"][0])
    return l.get("kind") == "ArraySubscriptExpr" and strip(l["inner"][0]).get("kind") == "DeclRefExpr" \
        and strip(l["inner"][0])["referencedDecl"]["name"] == name


def h_at_jcol(gname):
    """inv_perm_r[jcol] / inv_perm_c[jcol]: only the entry of the current column is an input"""
    def h(tr, idx, env):
        i = strip(idx)
        if i.get("kind") == "DeclRefExpr" and i["referencedDecl"]["name"] == "jcol":
            return (gname, "Z")
        raise Unsupported("read of %s at an index other than jcol" % gname)
    return h


def h_mag(by_address):
    """fabs(lu_col_ptr[i]) / z_abs1(&lu_col_ptr[i]) / c_abs1(&lu_col_ptr[i])  ==>  (mag i): the magnitude the code compares"""
    def h(tr, args, env):
        if len(args) != 1:
            raise Unsupported("magnitude call with %d arguments" % len(args))
        a = strip(args[0])
        if by_address:
            if a.get("kind") != "UnaryOperator" or a.get("opcode") != "&":
                raise Unsupported("?_abs1 argument is not &lu_col_ptr[i]")
            a = strip(a["inner"][0])
        if a.get("kind") != "ArraySubscriptExpr" or strip(a["inner"][0]).get("kind") != "DeclRefExpr" \
                or strip(a["inner"][0])["referencedDecl"]["name"] != "lu_col_ptr":
            raise Unsupported("magnitude of something that is not lu_col_ptr[i]")
        return ("(mag %s)" % tr.toZ(tr.ex(a["inner"][1], env)), "Z")
    return h


PIVOT_PARAMS = [("jcol", "Z"), ("nsupc", "Z"), ("nsupr", "Z"), ("usepr", "Z"), ("pivrow0", "Z"), ("oldrow", "Z"), ("diagind", "Z"),
                ("row", "Z -> Z"), ("mag", "Z -> Z"), ("thr", "Z")]
PIVOT_ABS = {"s": {"fabs": h_mag(False)}, "d": {"fabs": h_mag(False)}, "c": {"c_abs1": h_mag(True)}, "z": {"z_abs1": h_mag(True)}}


def gen_pivot():
    out = ["(* GENERATED on every run by tools/gen_trans.py (translator tools/c2gal.py, clang AST built WITHOUT -DSLU_MT_VERIF) from the",
           "   pivot search and pivot policy of p?gstrf_pivotL in %s -- do not edit." % SRC,
           "   Slice: from the first statement that reads inv_perm_r[] / inv_perm_c[] up to, not including, `perm_r[*pivrow] = jcol;`.",
           "   Inputs: jcol; nsupc, nsupr (set up before the slice, not translated); usepr = *usepr and pivrow0 = *pivrow on entry;",
           "   oldrow = inv_perm_r[jcol]; diagind = inv_perm_c[jcol]; row i = lsub_ptr[i]; mag i = the magnitude the code computes",
           "   from lu_col_ptr[i] (fabs, c_abs1, z_abs1), scaled to an integer; 0.0 is 0; thr = the value of `thresh = u * pivmax`.",
           "   Stores to perm_r[] / inv_perm_r[] are dropped (neither array is read after such a store inside the slice).",
           "   Result (returned, info, pivptr, *pivrow, *usepr): returned = true, info = the returned value for the early return of the",
           "   singular branch; returned = false, info = 0 when the slice runs to its end (the routine then ends with `return 0;`).",
           "   Loop bodies are definitions of their own (gen_<routine>_loop<k>); tuples list variables in declaration order. *)",
           "Require Import ZArith List Bool.", "From SLU Require Import Consts C2GalLib.", "Local Open Scope Z_scope.", "Local Open Scope bool_scope.", ""]
    ok = 0
    for p in "sdcz":
        fname = "p%sgstrf_pivotL" % p
        gname = "gen_" + fname
        cfile = os.path.join(SRC, fname + ".c")
        try:
            fn = c2gal.load_function(cfile, fname, incdir=SRC)
            body = [c for c in fn["inner"] if c.get("kind") == "CompoundStmt"][0]["inner"]
            i0 = next((i for i, s in enumerate(body) if reads_array(s, ("inv_perm_r", "inv_perm_c"))), None)
            if i0 is None:
                raise Unsupported("start of the slice (first read of inv_perm_r / inv_perm_c) not found")
            i1 = next((i for i in range(i0, len(body)) if is_store_to(body[i], "perm_r")), None)
            if i1 is None:
                raise Unsupported("end of the slice (`perm_r[*pivrow] = jcol;` at the top level) not found")
            rest = body[i1:]
            last = rest[-1] if rest else {}
            if last.get("kind") != "ReturnStmt" or strip(last["inner"][0]).get("kind") != "IntegerLiteral" or strip(last["inner"][0])["value"] != "0" \
                    or any(mentions(s, lambda x: x.get("kind") == "ReturnStmt") for s in rest[:-1]):
                raise Unsupported("after the slice the routine does not simply end with `return 0;`")
            for s in body[:i0]:
                if mentions(s, lambda x: x.get("kind") == "ReturnStmt"):
                    raise Unsupported("a return before the slice")

            def result(tr, env, returned, info):
                try:
                    return "(%s, %s, %s, %s, %s)" % (returned, info, tr.toZ(env["pivptr"]), tr.toZ(env["*pivrow"]), tr.toZ(env["*usepr"]))
                except KeyError as e:
                    raise Unsupported("%s has no value at an exit of the slice" % e)
            cfg = {"inputs": {"jcol": ("jcol", "Z"), "nsupc": ("nsupc", "Z"), "nsupr": ("nsupr", "Z"),
                              "*usepr": ("usepr", "Z"), "*pivrow": ("pivrow0", "Z")},
                   "cells": {"usepr", "pivrow"},
                   "arrays": {"lsub_ptr": "row", "inv_perm_r": h_at_jcol("oldrow"), "inv_perm_c": h_at_jcol("diagind")},
                   "calls": PIVOT_ABS[p], "ignore_calls": set(), "ignore_stores": {"perm_r", "inv_perm_r"},
                   "override": {"thresh": ("thr", "Z")}, "zero_float": True, "local_temps": True,
                   "state_order": c2gal.decl_order(fn), "lift_loops": gname, "params": PIVOT_PARAMS,
                   "on_return": lambda tr, env, val: result(tr, env, "true", tr.toZ(val) if val else "0")}
            tr = c2gal.Tr(cfg)
            term = tr.seq(body[i0:i1], dict(cfg["inputs"]), lambda e: result(tr, e, "false", "0"))
            out.append("(* %s : %s *)" % (os.path.basename(cfile), fname))
            for l in tr.lifted:
                out.append("(* state %s; outer names %s *)" % (", ".join(l[2]), ", ".join(l[3])))
                out.append(l[1])
            out.append("Definition %s %s : bool * Z * Z * Z * Z :=\n%s.\n" % (gname, " ".join("(%s : %s)" % b for b in PIVOT_PARAMS), term))
            ok += 1
        except Unsupported as e:
            out.append("(* %s NOT TRANSLATED: %s *)\n" % (gname, str(e).replace("*)", "* )")))
    write_if_changed(os.path.join(COQ, "PivotGen.v"), "\n".join(out) + "\n")
    return ok


# ---------------------------------------------------------------------------------------------------
# the two-ended user stack of p?memory.c
USTACK_VAR = "stack"
USTACK_CELLS = ["size", "used", "top1", "top2"]          # int_t fields: inputs and outputs of the generated functions
USTACK_BASE = "array"                                    # void *array: the tracked base pointer (its address is a parameter)
USTACK_LOCK = "lock"
USTACK_ENUMS = ["HEAD", "TAIL"]


def gen_ustack():
    out = ["(* GENERATED on every run by tools/gen_trans.py (translator tools/c2gal.py, clang AST, built WITHOUT -DSLU_MT_VERIF) from",
           "   ?user_malloc / ?user_free of p?memory.c in %s -- do not edit." % SRC,
           "   gen_<p>user_malloc stk_size stk_used stk_top1 stk_top2 stk_array <bytes> <which_end> = (returned pointer, (size, used, top1, top2)):",
           "   the stk_* are the fields of the file-static `stack` before the call, stk_array is the ADDRESS held in stack.array; the result",
           "   pointer is a C2GalLib.cptr: None = NULL, Some off = (char * ) stack.array + off.  The second component holds the fields after",
           "   the call.  int_t arithmetic is arithmetic in Z (no wrap-around); the critical section (pthread_mutex_lock / unlock of",
           "   &stack.lock) is checked by the translator: every access to a field happens with the lock held, every path releases it. *)",
           "Require Import ZArith List Bool.", "From SLU Require Import C2GalLib.", "Local Open Scope Z_scope.", "Local Open Scope bool_scope.", ""]
    ok = 0
    cellnames = ["%s.%s" % (USTACK_VAR, f) for f in USTACK_CELLS]
    basename = "%s.%s" % (USTACK_VAR, USTACK_BASE)
    for p in "sdcz":
        cfile = os.path.join(SRC, "p%smemory.c" % p)
        enums = {}
        try:
            vals = c2gal.int_constants(cfile, USTACK_ENUMS, incdir=SRC)
            out.append("(* %s : the values of the enumeration stack_end_t *)" % os.path.basename(cfile))
            for x in USTACK_ENUMS:
                out.append("Definition gen_%s_%s : Z := %d." % (p, x, vals[x]))
                enums[x] = "gen_%s_%s" % (p, x)
            out.append("")
        except Unsupported as e:
            out.append("(* gen_%s_HEAD / gen_%s_TAIL NOT TRANSLATED: %s *)\n" % (p, p, str(e).replace("*)", "* )")))
        for which in ("malloc", "free"):
            fname = "%suser_%s" % (p, which)
            gname = "gen_" + fname
            try:
                fn = c2gal.load_function(cfile, fname, incdir=SRC)
                params = [c for c in fn.get("inner", []) if c.get("kind") == "ParmVarDecl"]
                if len(params) != 2 or any("name" not in c or c["type"].get("desugaredQualType", c["type"]["qualType"]) not in ("int", "long", "long long") for c in params):
                    raise Unsupported("%s does not have two named integer parameters" % fname)
                inputs = {cn: ("stk_" + f, "Z") for cn, f in zip(cellnames, USTACK_CELLS)}
                for c in params:
                    if c["name"].startswith("stk_") or c["name"].startswith("gen_"):
                        raise Unsupported("parameter name %s clashes with the generated binders" % c["name"])
                    inputs[c["name"]] = (c2gal.gallina_ident(c["name"]), "Z")

                def result(val, env):
                    if "#lock" in env:
                        raise Unsupported("%s returns while the lock is held" % fname)
                    return "(%s, (%s))" % (val, ", ".join(env[cn][0] for cn in cellnames))

                def on_return(tr, env, val, which=which):
                    if which == "malloc":
                        if val is None or val[1] != "P":
                            raise Unsupported("%s returns something that is not a pointer" % fname)
                        return result(val[0], env)
                    if val is not None:
                        raise Unsupported("%s returns a value" % fname)
                    return result("tt", env)

                def final(tr, env, which=which):
                    if which == "malloc":
                        raise Unsupported("%s can reach its end without a return" % fname)
                    return result("tt", env)
                cfg = {"inputs": inputs, "globals": {USTACK_VAR: set(USTACK_CELLS)}, "base_ptr": {basename: "stk_array"},
                       "enums": enums, "dup_ifs": True, "on_return": on_return, "ignore_calls": set(),
                       "lock": {"acquire": {"pthread_mutex_lock"}, "release": {"pthread_mutex_unlock"}, "object": (USTACK_VAR, USTACK_LOCK),
                                "guards": set(cellnames) | {basename}}}
                term = c2gal.translate_slice(fn, cfg, final=final)
                rty = "cptr" if which == "malloc" else "unit"
                out.append("(* %s : %s *)" % (os.path.basename(cfile), fname))
                out.append("Definition %s (stk_size stk_used stk_top1 stk_top2 : Z) (stk_array : Z) (%s : Z) : %s * (Z * Z * Z * Z) :=\n%s.\n"
                           % (gname, " ".join(c2gal.gallina_ident(c["name"]) for c in params), rty, term))
                ok += 1
            except Unsupported as e:
                out.append("(* %s NOT TRANSLATED: %s *)\n" % (gname, str(e).replace("*)", "* )")))
    write_if_changed(os.path.join(COQ, "UstackGen.v"), "\n".join(out) + "\n")
    return ok


# ---------------------------------------------------------------------------------------------------
# the panel scheduler pxgstrf_scheduler.c (one file for all precisions; pthread build: no DOMAINS, no PROFILE)
SCHED_SH = "pxgstrf_shared"
# (path, gallina binder, kind, read-only, guarded by SCHED_LOCK)
SCHED_MEM = [
    ("etree[]",                          "etr",          "array", True,  False),
    (SCHED_SH + ".pan_status[].state",   "pan_state",    "array", False, True),
    (SCHED_SH + ".pan_status[].size",    "pan_size",     "array", True,  False),
    (SCHED_SH + ".pan_status[].ukids",   "pan_ukids",    "array", False, True),
    (SCHED_SH + ".fb_cols[]",            "fb_cols",      "array", False, True),
    (SCHED_SH + ".taskq.queue[]",        "queue",        "array", False, True),
    (SCHED_SH + ".taskq.head",           "head",         "cell",  False, True),
    (SCHED_SH + ".taskq.tail",           "tail",         "cell",  False, True),
    (SCHED_SH + ".taskq.count",          "count",        "cell",  False, True),
    (SCHED_SH + ".tasks_remain",         "tasks_remain", "cell",  False, True),
    (SCHED_SH + ".spin_locks[]",         "spin_locks",   "array", False, True),
]


def gen_sched():
    gname = "gen_pxgstrf_scheduler"
    out = ["(* GENERATED on every run by tools/gen_trans.py (translator tools/c2gal.py, clang AST, pthread build, built WITHOUT -DSLU_MT_VERIF,",
           "   no DOMAINS, no PROFILE) from pxgstrf_scheduler of %s/pxgstrf_scheduler.c -- do not edit." % SRC,
           "   %s n etr pan_state pan_size pan_ukids fb_cols queue head tail count tasks_remain spin_locks cur_pan bcol fuel:" % gname,
           "     n = the argument n; etr = etree[]; pan_state / pan_size / pan_ukids = the fields state / size / ukids of",
           "     pxgstrf_shared->pan_status[]; fb_cols, spin_locks = pxgstrf_shared->fb_cols[], ->spin_locks[]; queue, head, tail, count = the",
           "     fields of pxgstrf_shared->taskq; tasks_remain = pxgstrf_shared->tasks_remain; cur_pan, bcol = *cur_pan, *bcol on entry.",
           "   Arrays are lists read with nthZ and written with updZ (SchedModel.v: total, default 0 / no effect out of range); int_t",
           "   arithmetic is arithmetic in Z; the enum pipe_state_t is compared as an integer.  Distinct arrays / fields do not overlap.",
           "   Result: None when a while loop ran out of fuel, else Some (pan_state, pan_ukids, fb_cols, queue, head, tail, count,",
           "   tasks_remain, spin_locks, *cur_pan, *bcol) at the return.  Checked by the translator: every access to the mutable shared",
           "   state (everything but etree[] and pan_status[].size, which the routine never writes) happens between",
           "   pthread_mutex_lock and pthread_mutex_unlock of &pxgstrf_shared->lu_locks[SCHED_LOCK], and the lock is released at the return. *)",
           "Require Import ZArith List Bool.", "From SLU Require Import Consts C2GalLib SchedModel.", "Local Open Scope Z_scope.", "Local Open Scope bool_scope.", ""]
    ok = 0
    cfile = os.path.join(SRC, "pxgstrf_scheduler.c")
    try:
        fn = c2gal.load_function(cfile, "pxgstrf_scheduler", incdir=SRC)
        pnames = [c.get("name") for c in fn.get("inner", []) if c.get("kind") == "ParmVarDecl"]
        if pnames != ["pnum", "n", "etree", "cur_pan", "bcol", SCHED_SH]:
            raise Unsupported("unexpected parameter list %s" % pnames)
        mem = {p: (g, kind, ro) for (p, g, kind, ro, _) in SCHED_MEM}
        inputs = {p: (g, "L" if kind == "array" else "Z") for (p, g, kind, ro, _) in SCHED_MEM}
        inputs.update({"n": ("n", "Z"), "pnum": ("pnum", "Z"), "*cur_pan": ("cur_pan", "Z"), "*bcol": ("bcol", "Z")})
        outs = [p for (p, g, kind, ro, _) in SCHED_MEM if not ro] + ["*cur_pan", "*bcol"]
        params = [("n", "Z")] + [(g, "list Z" if kind == "array" else "Z") for (p, g, kind, ro, _) in SCHED_MEM] + \
                 [("cur_pan", "Z"), ("bcol", "Z"), ("fuel", "nat")]

        def result(tr, env):
            if "#lock" in env:
                raise Unsupported("the routine returns while the lock is held")
            return "Some (%s)" % ", ".join(tr.toZ(env[o]) if env[o][1] != "L" else env[o][0] for o in outs)

        def on_return(tr, env, val):
            if val is not None:
                raise Unsupported("the routine returns a value")
            return result(tr, env)
        cfg = {"inputs": inputs, "cells": {"cur_pan", "bcol"}, "pointers": {SCHED_SH: SCHED_SH, "etree": "etree"}, "mem": mem,
               "ignore_calls": set(), "on_return": on_return, "on_fuel": lambda tr, env: "None", "fuel": "fuel",
               "lift_loops": gname, "dedupe_loops": True, "known_tests": True, "partial_init": "dup", "params": params,
               "state_order": c2gal.decl_order(fn) + [p for (p, _, _, _, _) in SCHED_MEM],
               "lock": {"acquire": {"pthread_mutex_lock"}, "release": {"pthread_mutex_unlock"}, "object": None,
                        "object_path": (SCHED_SH + ".lu_locks", "SCHED_LOCK"),
                        "guards": {p for (p, _, _, _, g) in SCHED_MEM if g}}}
        tr_holder = []

        def final(tr, env):
            return result(tr, env)
        body = [c for c in fn["inner"] if c.get("kind") == "CompoundStmt"][0]
        tr = c2gal.Tr(cfg)
        tr.number(body)
        term = tr.seq(body.get("inner", []), dict(inputs), lambda e: final(tr, e))
        out.append("(* %s : pxgstrf_scheduler *)" % os.path.basename(cfile))
        for l in tr.lifted:
            out.append("(* state %s; outer names %s *)" % (", ".join(l[2]), ", ".join(l[3])))
            out.append(l[1])
        rty = " * ".join("list Z" if (o in mem and mem[o][1] == "array") else "Z" for o in outs)
        out.append("Definition %s %s : option (%s) :=\n%s.\n" % (gname, " ".join("(%s : %s)" % b for b in params), rty, term))
        ok += 1
    except Unsupported as e:
        out.append("(* %s NOT TRANSLATED: %s *)\n" % (gname, str(e).replace("*)", "* )")))
    write_if_changed(os.path.join(COQ, "SchedGen.v"), "\n".join(out) + "\n")
    return ok


# ---------------------------------------------------------------------------------------------------
# the INITIAL state of the scheduler: pxgstrf_relax_snode (pxgstrf_relax_snode.c) and ParallelInit with its helpers queue_init and
# EnqueueRelaxSnode (pxgstrf_synch.c; pthread build, SPLIT_TOP defined in the file, no DOMAINS, no PROFILE, no PREDICT_OPT)
INIT_OPT = "superlumt_options"
INIT_RLX = "pxgstrf_relax"
# allocation functions: (unit of the argument, fill): intCalloc zero-fills; the contents of intMalloc / superlu_malloc memory are
# indeterminate in C: every such entry holds the value of the parameter `junk` of the generated function
INIT_ALLOC = {"intCalloc": ("count", "0"), "intMalloc": ("count", "junk"), "superlu_malloc": ("bytes", "junk")}
INIT_IGNORE_CALLS = {"superlu_free", "pthread_mutex_init", "fprintf", "sprintf", "printf", "fflush"}
INIT_ABORT = {"superlu_abort_and_exit", "exit", "abort"}
# (path, gallina binder, kind)
INIT_SH_MEM = [
    (SCHED_SH + ".pan_status[].type",    "pan_type",     "array"),
    (SCHED_SH + ".pan_status[].state",   "pan_state",    "array"),
    (SCHED_SH + ".pan_status[].size",    "pan_size",     "array"),
    (SCHED_SH + ".pan_status[].ukids",   "pan_ukids",    "array"),
    (SCHED_SH + ".fb_cols[]",            "fb_cols",      "array"),
    (SCHED_SH + ".taskq.queue[]",        "queue",        "array"),
    (SCHED_SH + ".taskq.head",           "head",         "cell"),
    (SCHED_SH + ".taskq.tail",           "tail",         "cell"),
    (SCHED_SH + ".taskq.count",          "count",        "cell"),
    (SCHED_SH + ".tasks_remain",         "tasks_remain", "cell"),
    (SCHED_SH + ".num_splits",           "num_splits",   "cell"),
    (SCHED_SH + ".spin_locks[]",         "spin_locks",   "array"),
]
INIT_Q = [SCHED_SH + ".taskq.queue[]", SCHED_SH + ".taskq.head", SCHED_SH + ".taskq.tail", SCHED_SH + ".taskq.count"]
INIT_ENQ_W = [SCHED_SH + ".taskq.queue[]", SCHED_SH + ".taskq.tail", SCHED_SH + ".taskq.count", SCHED_SH + ".tasks_remain"]


def _gty(kind):
    return "list Z" if kind == "array" else "Z"


def _params_of(fn):
    return [c.get("name") for c in fn.get("inner", []) if c.get("kind") == "ParmVarDecl"]


def _emit(out, tr, gname, params, rty, term, cfile, fname):
    out.append("(* %s : %s *)" % (os.path.basename(cfile), fname))
    for l in tr.lifted:
        out.append("(* state %s *)" % ", ".join(l[2]))
        out.append(l[1])
    out.append("Definition %s %s : %s :=\n%s.\n" % (gname, " ".join("(%s : %s)" % b for b in params), rty, term))


def _translate(fn, cfg, final):
    body = [c for c in fn["inner"] if c.get("kind") == "CompoundStmt"][0]
    tr = c2gal.Tr(cfg)
    tr.number(body)
    term = tr.seq(body.get("inner", []), dict(cfg["inputs"]), lambda e: final(tr, e))
    return tr, term


def gen_init():
    out = ["(* GENERATED on every run by tools/gen_trans.py (translator tools/c2gal_sched.py, clang AST, pthread build, built WITHOUT",
           "   -DSLU_MT_VERIF; SPLIT_TOP is defined in pxgstrf_synch.c; no DOMAINS, no PROFILE, no PREDICT_OPT, PRNTlevel 0) from",
           "   pxgstrf_relax_snode of %s/pxgstrf_relax_snode.c and queue_init, EnqueueRelaxSnode, ParallelInit of" % SRC,
           "   %s/pxgstrf_synch.c -- do not edit." % SRC,
           "   Arrays are lists read with nthZ and written with updZ (SchedModel.v: total, default 0 / no effect out of range); int_t",
           "   arithmetic is arithmetic in Z (/ is Z.quot); enums are compared as integers.  Distinct arrays / fields do not overlap.",
           "   etr = superlumt_options->etree[], panel_size / relax = superlumt_options->panel_size / ->relax; rfcol / rsize = the fields",
           "   fcol / size of pxgstrf_relax[] (allocated by the caller); pan_type / pan_state / pan_size / pan_ukids = the fields of",
           "   pxgstrf_shared->pan_status[]; queue, head, tail, count = the fields of pxgstrf_shared->taskq.",
           "   ALLOCATION: `p = intCalloc(len)` gives the arrays under p the value `repeat 0 (Z.to_nat len)`; memory from intMalloc /",
           "   SUPERLU_MALLOC (contents indeterminate in C) is `repeat junk (Z.to_nat len)` with the parameter junk; for SUPERLU_MALLOC the",
           "   argument must be `len * sizeof(element type)`.  The mutex array lu_locks is opaque: its allocation and the",
           "   pthread_mutex_init calls are dropped.  Stores to the statistics array Gstat->panel_histo[] are dropped (it is never read).",
           "   Loops that are not of the shape `for (i = a; i < b; ++i)` without break (the two `for (..; ..; )` loops without increment,",
           "   the two search loops with break) and while loops are Fixpoints over fuel; an inner loop takes the fuel left to the outer",
           "   one; None = the fuel ran out.  ParallelInit: Some Aborted = SUPERLU_ABORT was reached (queue_init fails for n < 1).",
           "   Calls of queue_init / EnqueueRelaxSnode in ParallelInit are calls of gen_queue_init / gen_EnqueueRelaxSnode, translated",
           "   from their own C definitions for the objects &pxgstrf_shared->taskq, pxgstrf_relax, pxgstrf_shared (the translator checks",
           "   that the actual arguments are these objects). *)",
           "Require Import ZArith List Bool.", "From SLU Require Import Consts C2GalLib SchedModel.", "Local Open Scope Z_scope.", "Local Open Scope bool_scope.", ""]
    ok = 0
    base = {"ignore_calls": INIT_IGNORE_CALLS, "abort_calls": INIT_ABORT, "alloc": INIT_ALLOC, "general_for": True, "chained_assign": True,
            "local_temps": True, "dedupe_loops": True, "fuel": "fuel", "on_fuel": lambda tr, env: "None"}

    # ---------------- pxgstrf_relax_snode
    gname = "gen_pxgstrf_relax_snode"
    cfile = os.path.join(SRC, "pxgstrf_relax_snode.c")
    try:
        fn = c2gal.load_function(cfile, "pxgstrf_relax_snode", incdir=SRC)
        if _params_of(fn) != ["n", INIT_OPT, INIT_RLX]:
            raise Unsupported("unexpected parameter list %s" % _params_of(fn))
        memt = [(INIT_OPT + ".etree[]", "etr", "array", True), (INIT_OPT + ".relax", "relax", "cell", True),
                (INIT_RLX + "[].fcol", "rfcol", "array", False), (INIT_RLX + "[].size", "rsize", "array", False),
                ("desc[]", "desc", "array", False)]
        mem = {p: (g, kind, ro) for (p, g, kind, ro) in memt}
        inputs = {p: (g, "L" if kind == "array" else "Z") for (p, g, kind, ro) in memt if p != "desc[]"}
        inputs["n"] = ("n", "Z")
        params = [("n", "Z"), ("etr", "list Z"), ("relax", "Z"), ("rfcol", "list Z"), ("rsize", "list Z"), ("fuel", "nat")]
        outs = [INIT_RLX + "[].fcol", INIT_RLX + "[].size"]

        def result(tr, env):
            return "Some (%s)" % ", ".join(env[o][0] for o in outs)

        def on_return(tr, env, val):
            if val is not None:
                raise Unsupported("the routine returns a value")
            return result(tr, env)
        cfg = dict(base, inputs=inputs, pointers={INIT_OPT: INIT_OPT, INIT_RLX: INIT_RLX}, mem=mem, on_return=on_return,
                   on_abort=lambda tr, env: "None", lift_loops=gname, params=params,
                   state_order=c2gal.decl_order(fn) + [p for (p, _, _, _) in memt])
        tr, term = _translate(fn, cfg, result)
        _emit(out, tr, gname, params, "option (list Z * list Z)", term, cfile, "pxgstrf_relax_snode")
        ok += 1
    except Unsupported as e:
        out.append("(* %s NOT TRANSLATED: %s *)\n" % (gname, str(e).replace("*)", "* )")))

    # ---------------- queue_init, EnqueueRelaxSnode, ParallelInit
    cfile = os.path.join(SRC, "pxgstrf_synch.c")
    shmem = {p: (g, kind, False) for (p, g, kind) in INIT_SH_MEM}
    rlxmem = {INIT_RLX + "[].fcol": ("rfcol", "array", True), INIT_RLX + "[].size": ("rsize", "array", True)}
    fun_calls = {}

    gname = "gen_queue_init"
    try:
        fn = c2gal.load_function(cfile, "queue_init", incdir=SRC)
        if _params_of(fn) != ["q", "n"]:
            raise Unsupported("unexpected parameter list %s" % _params_of(fn))
        mem = {p: shmem[p] for p in INIT_Q}
        inputs = {p: (mem[p][0], "L" if mem[p][1] == "array" else "Z") for p in INIT_Q}
        inputs["n"] = ("n", "Z")
        params = [("n", "Z")] + [(mem[p][0], _gty(mem[p][1])) for p in INIT_Q] + [("junk", "Z")]

        def on_return_q(tr, env, val):
            if val is None:
                raise Unsupported("queue_init returns no value")
            return "(%s)" % ", ".join([tr.toZ(val)] + [env[p][0] for p in INIT_Q])

        def final_q(tr, env):
            raise Unsupported("queue_init can reach its end without a return")
        cfg = dict(base, inputs=inputs, pointers={"q": SCHED_SH + ".taskq"}, mem=mem, on_return=on_return_q,
                   on_abort=lambda tr, env: (_ for _ in ()).throw(Unsupported("queue_init can abort")), lift_loops=gname, params=params,
                   state_order=c2gal.decl_order(fn) + INIT_Q)
        tr, term = _translate(fn, cfg, final_q)
        if tr.lifted and any("while" in l[0] for l in tr.lifted):
            raise Unsupported("queue_init has a loop over fuel")
        _emit(out, tr, gname, params, " * ".join(["Z"] + [_gty(mem[p][1]) for p in INIT_Q]), term, cfile, "queue_init")
        fun_calls["queue_init"] = {"gname": gname, "args": [("ptr", SCHED_SH + ".taskq"), ("val",)], "reads": list(INIT_Q),
                                   "writes": list(INIT_Q), "ret": True, "extra": ["junk"]}
        ok += 1
    except Unsupported as e:
        out.append("(* %s NOT TRANSLATED: %s *)\n" % (gname, str(e).replace("*)", "* )")))

    gname = "gen_EnqueueRelaxSnode"
    try:
        fn = c2gal.load_function(cfile, "EnqueueRelaxSnode", incdir=SRC)
        if _params_of(fn) != ["q", "n", INIT_RLX, SCHED_SH]:
            raise Unsupported("unexpected parameter list %s" % _params_of(fn))
        mem = dict(rlxmem)
        mem.update({p: shmem[p] for p in INIT_ENQ_W})
        reads = list(rlxmem) + INIT_ENQ_W
        inputs = {p: (mem[p][0], "L" if mem[p][1] == "array" else "Z") for p in reads}
        inputs["n"] = ("n", "Z")
        params = [("n", "Z")] + [(mem[p][0], _gty(mem[p][1])) for p in reads]

        def on_return_e(tr, env, val):
            if val is None:
                raise Unsupported("EnqueueRelaxSnode returns no value")
            return "(%s)" % ", ".join([tr.toZ(val)] + [env[p][0] for p in INIT_ENQ_W])

        def final_e(tr, env):
            raise Unsupported("EnqueueRelaxSnode can reach its end without a return")
        cfg = dict(base, inputs=inputs, pointers={"q": SCHED_SH + ".taskq", INIT_RLX: INIT_RLX, SCHED_SH: SCHED_SH}, mem=mem,
                   on_return=on_return_e, on_abort=lambda tr, env: (_ for _ in ()).throw(Unsupported("EnqueueRelaxSnode can abort")),
                   lift_loops=gname, params=params, state_order=c2gal.decl_order(fn) + reads)
        tr, term = _translate(fn, cfg, final_e)
        if any("while" in l[0] for l in tr.lifted):
            raise Unsupported("EnqueueRelaxSnode has a loop over fuel")
        _emit(out, tr, gname, params, " * ".join(["Z"] + [_gty(mem[p][1]) for p in INIT_ENQ_W]), term, cfile, "EnqueueRelaxSnode")
        fun_calls["EnqueueRelaxSnode"] = {"gname": gname, "args": [("ptr", SCHED_SH + ".taskq"), ("val",), ("ptr", INIT_RLX), ("ptr", SCHED_SH)],
                                          "reads": reads, "writes": list(INIT_ENQ_W), "ret": True}
        ok += 1
    except Unsupported as e:
        out.append("(* %s NOT TRANSLATED: %s *)\n" % (gname, str(e).replace("*)", "* )")))

    gname = "gen_ParallelInit"
    try:
        fn = c2gal.load_function(cfile, "ParallelInit", incdir=SRC)
        if _params_of(fn) != ["n", INIT_RLX, INIT_OPT, SCHED_SH]:
            raise Unsupported("unexpected parameter list %s" % _params_of(fn))
        for f in ("queue_init", "EnqueueRelaxSnode"):
            if f not in fun_calls:
                raise Unsupported("%s, which it calls, was not translated" % f)
        optmem = {INIT_OPT + ".etree[]": ("etr", "array", True), INIT_OPT + ".panel_size": ("panel_size", "cell", True),
                  INIT_OPT + ".relax": ("relax", "cell", True)}
        mem = dict(optmem)
        mem.update(rlxmem)
        mem.update(shmem)
        inputs = {p: (g, "L" if kind == "array" else "Z") for p, (g, kind, ro) in list(optmem.items()) + list(rlxmem.items())}
        inputs.update({p: (shmem[p][0] + "0", "L" if shmem[p][1] == "array" else "Z") for p in INIT_Q})   # taskq on entry
        inputs["n"] = ("n", "Z")
        params = [("n", "Z"), ("etr", "list Z"), ("panel_size", "Z"), ("relax", "Z"), ("rfcol", "list Z"), ("rsize", "list Z")] + \
                 [(shmem[p][0] + "0", _gty(shmem[p][1])) for p in INIT_Q] + [("junk", "Z"), ("fuel", "nat")]
        outs = [p for (p, _, _) in INIT_SH_MEM]

        def result_p(tr, env):
            try:
                return "Some (Returned (%s))" % ", ".join(env[o][0] for o in outs)
            except KeyError as e:
                raise Unsupported("%s has no value at the return" % e)

        def on_return_p(tr, env, val):
            if val is None:
                raise Unsupported("ParallelInit returns no value")
            return result_p(tr, env)

        def final_p(tr, env):
            raise Unsupported("ParallelInit can reach its end without a return")
        cfg = dict(base, inputs=inputs, pointers={INIT_OPT: INIT_OPT, INIT_RLX: INIT_RLX, SCHED_SH: SCHED_SH}, mem=mem,
                   on_return=on_return_p, on_abort=lambda tr, env: "Some Aborted", lift_loops=gname, params=params,
                   fun_calls=fun_calls, ignore_alloc={SCHED_SH + ".lu_locks"}, ignore_mem={SCHED_SH + ".Gstat.panel_histo[]"},
                   state_order=c2gal.decl_order(fn) + list(mem))
        tr, term = _translate(fn, cfg, final_p)
        _emit(out, tr, gname, params, "option (outcome (%s))" % " * ".join(_gty(k) for (_, _, k) in INIT_SH_MEM), term, cfile, "ParallelInit")
        ok += 1
    except Unsupported as e:
        out.append("(* %s NOT TRANSLATED: %s *)\n" % (gname, str(e).replace("*)", "* )")))
    write_if_changed(os.path.join(COQ, "SchedInitGen.v"), "\n".join(out) + "\n")
    return ok


if __name__ == "__main__":
    n = gen_sched()
    print("gen_trans: SchedGen.v %s" % n)
    n = gen_init()
    print("gen_trans: SchedInitGen.v %s/4" % n)
