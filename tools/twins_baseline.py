#!/usr/bin/env python3
"""tools/twins_baseline.py -- (re)write corpus/twins_baseline.json from the CURRENT /repo tree: the differences between the
precision twins (s<->d, c<->z) after normalisation, for every routine family any check ties (lib/twins.py).  Run it only on a tree
whose twins were reviewed (the pinned tree and the `fix:` commits); the checks never write this file."""
import sys, os, json
sys.path.insert(0, os.path.join(os.path.dirname(os.path.abspath(__file__)), "..", "lib"))
import vf, twins
out = {}
for k in range(1, 21):
    pid = "C%02d" % k
    for key, hs in twins.current(pid).items():
        out[key] = sorted(set(hs))
json.dump(out, open(twins.BASE, "w"), indent=0, sort_keys=True)
print("pairs:", len(out), "hunks:", sum(len(v) for v in out.values()))
big = sorted(out.items(), key=lambda kv: -len(kv[1]))[:12]
for k, v in big:
    print("  %-40s %d" % (k, len(v)))
