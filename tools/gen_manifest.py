#!/usr/bin/env python3
"""Compose MANIFEST.json from the MANIFEST dicts of checks/cXX.py (properties without a module
are listed under not_applicable with the reason recorded in tools/not_applicable.json)."""
import json, os, sys, importlib
V = os.path.dirname(os.path.dirname(os.path.abspath(__file__)))
sys.path.insert(0, V); sys.path.insert(0, os.path.join(V, "lib"))
props = [json.loads(l) for l in open(os.path.join(V, "properties.jsonl"))]
na_reasons = json.load(open(os.path.join(V, "tools", "not_applicable.json")))
integrated = set(json.load(open(os.path.join(V, "tools", "integrated.json"))))   # checks reviewed and committed by the lead
checks, na = [], []
for p in props:
    pid = p["id"]
    if pid not in integrated or not os.path.exists(os.path.join(V, "checks", pid.lower() + ".py")):
        na.append({"property_id": pid, "reason": na_reasons.get(pid, "check not built yet in this round (planned: see DESIGN.md section 5)")})
        continue
    m = importlib.import_module("checks." + pid.lower())
    M = m.MANIFEST
    checks.append({
        "property_id": pid,
        "quick_cmd": "./check %s --tier quick" % pid,
        "thorough_cmd": "./check %s --tier thorough" % pid,
        "evidence_file": "/verif/evidence/%s.json" % pid,
        "replay_cmd_template": "./check %s --replay {path}" % pid,
        "engine": "coq+extract+harness",
        "level_claimed": {"category": "proof", "text": M["text"], "design_ref": M.get("design_ref", "DESIGN.md section 5 / " + pid)},
        "level_note": M["note"],
        "technique": M.get("technique", "Coq theorems about a hand-written Gallina model + executed model-vs-C correspondence"),
    })
man = {
    "version": 1,
    "setup_cmd": "./setup.sh",
    "hooks": {
        "guard": "SLU_MT_VERIF",
        "enable": "checks compile /repo/SRC/*.c and /repo/CBLAS/*.c themselves (lib/vf.py build_lib) with -D__PTHREAD -DAdd_ -DSLU_MT_VERIF into /verif/build; the repository's own cmake build never defines the guard",
        "baseline_off_cmd": "cmake --build /repo/_build && ctest --test-dir /repo/_build -j8 --timeout 900",
        "source_commits": json.load(open(os.path.join(V, "tools", "hook_commits.json"))),
        "add_only": True,
    },
    "engines": [
        {"name": "coq", "path": "/verif/coq", "kind_free_text": "Coq 8.16.1 models, proofs and Properties_<id>.v theorem files; full .vo build", "serves_properties": [c["property_id"] for c in checks]},
        {"name": "extract", "path": "/verif/extract", "kind_free_text": "OCaml drivers around the extracted models (ExtrOcamlBasic only)", "serves_properties": [c["property_id"] for c in checks]},
        {"name": "harness", "path": "/verif/harness", "kind_free_text": "C harnesses linked against the library rebuilt from the current /repo tree with hooks on", "serves_properties": [c["property_id"] for c in checks]},
    ],
    "checks": checks,
    "not_applicable": na,
    "notes": "Technique family: machine-checked proof in Coq 8.16.1 about hand-written executable models, tied to /repo by a correspondence check executed on every run (see DESIGN.md).",
}
json.dump(man, open(os.path.join(V, "MANIFEST.json"), "w"), indent=1)
print("checks:", [c["property_id"] for c in checks], "not_applicable:", [n["property_id"] for n in na])
