"""Allocation call sites of the library (used by checks/c14.py and checks/c17.py).

A site is named  file:function:ordinal  where ordinal is the 1-based rank of the call line among the
allocation call lines of that function in the *current* source (stable against edits elsewhere in the file).
Return addresses recorded by harness/ledger_trace.c are mapped with addr2line (the harnesses are linked -no-pie).
"""
import os, re, subprocess, functools

WRAPPERS = {"intMalloc", "intCalloc", "doubleMalloc", "doubleCalloc", "floatMalloc", "floatCalloc",
            "complexMalloc", "complexCalloc", "doublecomplexMalloc", "doublecomplexCalloc",
            "mxCallocInt", "superlu_malloc", "ledger_plain_malloc", "__wrap_verif_malloc", "verif_malloc",
            "user_malloc"}
ALLOC_RE = re.compile(r"\b(SUPERLU_MALLOC|USER_MALLOC|intMalloc|intCalloc|doubleMalloc|doubleCalloc|floatMalloc|"
                      r"floatCalloc|complexMalloc|complexCalloc|doublecomplexMalloc|doublecomplexCalloc|"
                      r"mxCallocInt|malloc|calloc|p[sdcz]gstrf_expand|StatAlloc)\s*\(")


@functools.lru_cache(maxsize=None)
def functions(path):
    """crude K&R/ANSI parser good enough for SRC/*.c: a '{' in column 0 opens a body whose name is the last
    identifier followed by '(' in the lines since the previous '}' / ';' at column 0; '}' in column 0 closes it"""
    try:
        lines = open(path, errors="replace").read().split("\n")
    except OSError:
        return []
    out, start, name, hdr_from = [], None, None, 0
    for i, ln in enumerate(lines):
        if start is None:
            if ln.startswith("{"):
                hdr = " ".join(lines[hdr_from:i])
                hdr = re.sub(r"/\*.*?\*/", " ", hdr)
                m = re.findall(r"([A-Za-z_][A-Za-z0-9_]*)\s*\(", hdr)
                name = m[0] if m else "?"
                start = i + 1
            elif ln.startswith("}") or ln.rstrip().endswith(";") and not ln.startswith((" ", "\t")):
                hdr_from = i + 1
        else:
            if ln.startswith("}"):
                out.append((name, start, i + 1))
                start, name, hdr_from = None, None, i + 1
    return out


@functools.lru_cache(maxsize=None)
def alloc_lines(path):
    """{function: [line numbers of allocation calls]}"""
    res = {}
    try:
        lines = open(path, errors="replace").read().split("\n")
    except OSError:
        return res
    for name, a, b in functions(path):
        ls = [i + 1 for i in range(a - 1, min(b, len(lines))) if ALLOC_RE.search(re.sub(r"/\*.*?\*/", "", lines[i]))]
        res.setdefault(name, [])
        res[name] += ls
    return res


_a2l_cache = {}


def addr2line(exe, addrs):
    """[(function, file, line)] for return addresses (the call is at addr-1)"""
    need = [a for a in addrs if (exe, a) not in _a2l_cache]
    if need:
        q = ["0x%x" % (int(a, 16) - 1) for a in need]
        try:
            out = subprocess.run(["addr2line", "-f", "-e", exe] + q, stdout=subprocess.PIPE, stderr=subprocess.DEVNULL,
                                 timeout=60).stdout.decode("utf-8", "replace").split("\n")
        except Exception:
            out = []
        for i, a in enumerate(need):
            fn = out[2 * i] if 2 * i < len(out) else "??"
            loc = out[2 * i + 1] if 2 * i + 1 < len(out) else "??:0"
            f, _, l = loc.partition(":")
            l = re.match(r"\d+", l)
            _a2l_cache[(exe, a)] = (fn, f, int(l.group(0)) if l else 0)
    return [_a2l_cache[(exe, a)] for a in addrs]


def site_of(exe, frames, depth=1):
    """name of the allocation site for a list of return addresses (innermost first).
    depth > 1 appends the callers (used by C17 to tell apart the users of a common helper)."""
    res = addr2line(exe, [f for f in frames if re.fullmatch(r"0x[0-9a-f]+", f)])
    names = []
    for fn, path, line in res:
        if fn in WRAPPERS or fn == "??" or not path or path.startswith("??"):
            continue
        base = os.path.basename(path)
        if not base.endswith(".c") or "/harness/" in path:
            if names:
                break
            continue
        al = alloc_lines(path).get(fn, [])
        # the statement may span lines: take the nearest allocation line at or before the reported line
        cand = [l for l in al if l <= line]
        if cand:
            ordn = al.index(cand[-1]) + 1
        elif al:
            ordn = 1
        else:
            ordn = 0
        names.append("%s:%s:%d" % (base, fn, ordn) if not names else "%s:%s" % (base, fn))
        if len(names) >= depth:
            break
    return "<-".join(names) if names else "unknown"
