#!/usr/bin/env python3
"""demo_alloc.py -- demonstration for the Glu_alloc / DynamicSetMap tie: edit a scratch copy of pmemory.c (/tmp/trD/srcmut/SRC),
regenerate coqmut/AllocGen.v with tools/gen_trans.py and recompile coqmut/AllocTie.v.  Harmless rewrites must keep it compiling,
semantic changes must break it (or be refused by the translator: `NOT TRANSLATED` in AllocGen.v)."""
import os, re, shutil, subprocess, sys
ROOT = os.path.dirname(os.path.dirname(os.path.abspath(__file__)))
MUT, COQMUT = os.path.join(ROOT, "srcmut"), os.path.join(ROOT, "coqmut")
ORIG = open("/repo/SRC/pmemory.c").read()


def sub(s, a, b, count=1):
    assert s.count(a) == count, (s.count(a), a)
    return s.replace(a, b)


U_BLOCK = ORIG[ORIG.index("      case UCOL: case USUB:"):ORIG.index("\tcase LSUB:")]
L_BLOCK = ORIG[ORIG.index("\tcase LSUB:"):ORIG.index("    }\n    \n    return 0;\n}\n\n/*\n * Dynamically")]


def h1(s):
    """switch -> if / else-if chain; the alias Glu dropped in the U part; test restated; num + nextu"""
    a = s.index("    switch ( mem_type ) {")
    b = s.index("    return 0;\n}\n\n/*\n * Dynamically")
    new = r'''
    if ( mem_type == LSUB ) {
	pthread_mutex_lock( &pxgstrf_shared->lu_locks[LLOCK] );
	nextl = Glu->nextl;
	new_next = nextl + num;
	if ( new_next > Glu->nzlmax ) {
	    XPAND_HINT("L subscripts", new_next, jcol, 8);
	}
	*prev_next = nextl;
	Glu->nextl = new_next;
	pthread_mutex_unlock( &pxgstrf_shared->lu_locks[LLOCK]);
    } else if ( mem_type == USUB || mem_type == UCOL ) {
	pthread_mutex_lock( &pxgstrf_shared->lu_locks[ULOCK] );
	nextu = pxgstrf_shared->Glu->nextu;
	new_next = num + nextu;
	if ( !(pxgstrf_shared->Glu->nzumax >= new_next) ) {
	    XPAND_HINT("U columns", new_next, jcol, 7);
	}
	*prev_next = nextu;
	pxgstrf_shared->Glu->nextu = new_next;
	pthread_mutex_unlock( &pxgstrf_shared->lu_locks[ULOCK] );
    } else if ( mem_type == LUSUP ) {
	if ( Glu->map_in_sup[jcol] < 0 )
	    fsupc = jcol + Glu->map_in_sup[jcol];
	else fsupc = jcol;
	*prev_next = Glu->map_in_sup[fsupc];
	Glu->map_in_sup[fsupc] += num;
    }

'''
    return s[:a] + new + s[b:]


def h2(s):
    """cases reordered (LSUB before UCOL/USUB); stores reordered inside the critical section; new_next dropped in the L part;
    ?: for fsupc and a[i] = a[i] + num in the LUSUP part; an early return instead of break; int_t *map local in DynamicSetMap dropped"""
    s = sub(s, U_BLOCK + L_BLOCK, L_BLOCK.replace("\t  break;\n", "\t  return 0;\n") + "\n" + U_BLOCK)
    s = sub(s, "\t    *prev_next = nextu;\n\t    Glu->nextu = new_next;\n", "\t    Glu->nextu = new_next;\n\t    *prev_next = nextu;\n")
    s = sub(s, "\t  new_next = nextl + num;\n\t  if ( new_next > Glu->nzlmax ) {\n\t      XPAND_HINT(\"L subscripts\", new_next, jcol, 8);",
            "\t  if ( num + nextl > Glu->nzlmax ) {\n\t      XPAND_HINT(\"L subscripts\", nextl + num, jcol, 8);")
    s = sub(s, "\t  Glu->nextl = new_next;\n", "\t  Glu->nextl = nextl; Glu->nextl += num;\n")
    s = sub(s, "\tif ( Glu->map_in_sup[jcol] < 0 )\n\t    fsupc = jcol + Glu->map_in_sup[jcol];\n\telse fsupc = jcol;\n",
            "\tfsupc = Glu->map_in_sup[jcol] < 0 ? Glu->map_in_sup[jcol] + jcol : jcol;\n")
    s = sub(s, "\tGlu->map_in_sup[fsupc] += num;\n", "\tGlu->map_in_sup[fsupc] = num + Glu->map_in_sup[fsupc];\n")
    s = sub(s, "\tmap_in_sup[jcol] = nextlu;\n\tnew_next = nextlu + num;\n", "\tnew_next = nextlu + num;\n\tGlu->map_in_sup[jcol] = nextlu;\n")
    return s


MUTANTS = [
    ("H0 unchanged source", "harmless", lambda s: s),
    ("H1 switch -> if-chain, alias dropped, test restated, num + nextu", "harmless", h1),
    ("H2 cases / stores reordered, local dropped, ?:, a[i] = num + a[i], return for break", "harmless", h2),
    ("S1 capacity test of the U storage `>` -> `>=`", "semantic", lambda s: sub(s, "if ( new_next > Glu->nzumax ) {", "if ( new_next >= Glu->nzumax ) {")),
    ("S2 read of Glu->nextu moved before the lock is taken", "semantic",
     lambda s: sub(sub(s, "\t    nextu = Glu->nextu;\n", ""), "#if ( MACH==SUN )\n\tmutex_lock( &pxgstrf_shared->lu_locks[ULOCK] );",
                   "\tnextu = Glu->nextu;\n#if ( MACH==SUN )\n\tmutex_lock( &pxgstrf_shared->lu_locks[ULOCK] );")),
    ("S3 nextu bumped by next + 1", "semantic", lambda s: sub(s, "\t    Glu->nextu = new_next;\n", "\t    Glu->nextu = new_next + 1;\n")),
    ("S4 U storage bumped under LLOCK instead of ULOCK", "semantic",
     lambda s: sub(sub(s, "\tpthread_mutex_lock( &pxgstrf_shared->lu_locks[ULOCK] );", "\tpthread_mutex_lock( &pxgstrf_shared->lu_locks[LLOCK] );"),
                   "\tpthread_mutex_unlock( &pxgstrf_shared->lu_locks[ULOCK] );", "\tpthread_mutex_unlock( &pxgstrf_shared->lu_locks[LLOCK] );")),
    ("S5 unlock of LLOCK dropped", "semantic", lambda s: sub(s, "\tpthread_mutex_unlock( &pxgstrf_shared->lu_locks[LLOCK]);\n", "")),
    ("S6 *prev_next gets the NEW next-pointer in the L part", "semantic", lambda s: sub(s, "\t  *prev_next = nextl;\n", "\t  *prev_next = new_next;\n")),
    ("S7 `break` after the LUSUP part dropped (falls through into the U part)", "semantic",
     lambda s: sub(s, "#endif\t\n\tbreak;\n", "#endif\t\n")),
    ("S8 DynamicSetMap: capacity test `>` -> `>=`", "semantic", lambda s: sub(s, "if ( new_next > Glu->nzlumax ) {", "if ( new_next >= Glu->nzlumax ) {")),
    ("S9 USUB gets its own case that bumps nextl", "semantic",
     lambda s: sub(sub(s, "case UCOL: case USUB:", "case UCOL:"), "\tcase LSUB:\n", "\tcase LSUB: case USUB:\n")),
]


def run(only=None):
    rows = []
    for name, kind, f in MUTANTS:
        if only and not name.startswith(only):
            continue
        open(os.path.join(MUT, "SRC", "pmemory.c"), "w").write(f(ORIG))
        g = subprocess.run([sys.executable, os.path.join(ROOT, "tools", "gen_trans.py"), MUT, COQMUT], stdout=subprocess.PIPE, stderr=subprocess.STDOUT, universal_newlines=True)
        gen = open(os.path.join(COQMUT, "AllocGen.v")).read()
        refused = re.findall(r"\(\* (gen_\w+) NOT TRANSLATED: (.*?) \*\)", gen)
        m = subprocess.run("cd %s && timeout 900 make AllocTie.vo 2>&1 | tail -12" % COQMUT, shell=True, stdout=subprocess.PIPE, universal_newlines=True)
        okc = os.path.exists(os.path.join(COQMUT, "AllocTie.vo")) and "Error" not in m.stdout
        err = ""
        if not okc:
            mm = re.search(r'File "\./(\w+\.v)", line (\d+)', m.stdout)
            err = "%s line %s" % (mm.group(1), mm.group(2)) if mm else m.stdout[-200:]
            if mm and mm.group(1) == "AllocTie.v":
                ln = open(os.path.join(COQMUT, "AllocTie.v")).read().split("\n")
                j = int(mm.group(2)) - 1
                while j > 0 and not re.match(r"(Theorem|Lemma|Example) ", ln[j]):
                    j -= 1
                err += " (%s)" % ln[j].split(":")[0].strip()
        verdict = "OK" if (okc == (kind == "harmless")) else "UNEXPECTED"
        rows.append((name, kind, g.stdout.strip().split("\n")[-1], "; ".join("%s: %s" % r for r in refused), "compiles" if okc else "FAILS at " + err, verdict))
        print("%-80s %-9s | %s | %s | %s | %s" % rows[-1]); sys.stdout.flush()
    open(os.path.join(MUT, "SRC", "pmemory.c"), "w").write(ORIG)
    subprocess.run([sys.executable, os.path.join(ROOT, "tools", "gen_trans.py"), MUT, COQMUT], stdout=subprocess.PIPE)
    return rows


if __name__ == "__main__":
    rows = run(sys.argv[1] if len(sys.argv) > 1 else None)
    sys.exit(0 if all(r[-1] == "OK" for r in rows) else 1)
