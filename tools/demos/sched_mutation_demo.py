#!/usr/bin/env python3
"""usage: sched_mut_demo.py <pristine repo> <scratch repo> <coq dir> <scratch coq dir>
Demonstration for coq/SchedTie.v: every edit below is applied to a scratch copy of SRC/pxgstrf_scheduler.c, the scheduler is
re-translated (tools/gen_trans.py <scratch repo> <scratch coq dir>) and SchedGen.v + SchedTie.v are recompiled in the scratch
copy of the Coq development.  Harmless rewrites must keep SchedTie.v compiling; semantic changes must make it fail."""
import sys, os, re, shutil, subprocess, time

REPO, MUT, COQ, COQMUT = (sys.argv[1:5] + [None] * 4)[:4] if len(sys.argv) >= 5 else ("/repo", "/tmp/trC/srcmut", "/tmp/trC/coq", "/tmp/trC/coqmut")
HERE = os.path.dirname(os.path.abspath(__file__))
F = "SRC/pxgstrf_scheduler.c"


def sub(txt, old, new, count=0):
    """replace `old` (a literal) by `new`; count = 0: every occurrence (at least one)"""
    n = txt.count(old)
    if n == 0:
        raise SystemExit("pattern not found: %r" % old)
    return txt.replace(old, new) if count == 0 else txt.replace(old, new, count)


EDITS = [
    ("H0 unchanged source", "harmless", []),
    ("H1 `count <= 0` -> `count < 1` (both loops); operands of && swapped in the take-dad test; `CANGO <= STATE(jcol)`; `DONE == STATE(*bcol)`",
     "harmless",
     [("taskq->count <= 0", "taskq->count < 1"),
      ("dad_ukids == 0 && STATE( dad ) > BUSY", "STATE( dad ) > BUSY && dad_ukids == 0"),
      ("STATE( jcol ) >= CANGO ) { /* CANGO or CANPIPE */", "CANGO <= STATE( jcol ) ) { /* CANGO or CANPIPE */"),
      ("while ( STATE( *bcol ) == DONE )", "while ( DONE == STATE( *bcol ) )")]),
    ("H2 `head++` as a statement of its own; `count -= 1`; `tasks_remain = tasks_remain - 1`; local w renamed; `1 == ukids`; `n > dad`",
     "harmless",
     [("jcol = taskq->queue[taskq->head++];", "jcol = taskq->queue[taskq->head]; taskq->head++;"),
      ("--taskq->count;", "taskq->count -= 1;"),
      ("--pxgstrf_shared->tasks_remain;", "pxgstrf_shared->tasks_remain = pxgstrf_shared->tasks_remain - 1;"),
      ("register int_t dad, dad_ukids, jcol, w, j;", "register int_t dad, dad_ukids, jcol, width, j;"),
      ("w = pxgstrf_shared->pan_status[jcol].size;", "width = pxgstrf_shared->pan_status[jcol].size;"),
      ("j < jcol+w;", "j < jcol+width;"),
      ("dad < n && pxgstrf_shared->pan_status[dad].ukids == 1", "n > dad && 1 == pxgstrf_shared->pan_status[dad].ukids")]),
    ("H3 the queue updates of the enqueue reordered; `for (..; j <= jcol+w-1; ..)`; `while (1)` of the second loop with an explicit `continue`",
     "harmless",
     [("taskq->queue[taskq->tail++] = dad;\n\t\t++taskq->count;", "++taskq->count;\n\t\ttaskq->queue[taskq->tail] = dad; taskq->tail += 1;"),
      ("j < jcol+w;", "j <= jcol+w-1;"),
      ("\t\t    break;\n\t\t}\n\t    }\n\t} /* while */", "\t\t    break;\n\t\t}\n\t\tcontinue;\n\t    }\n\t} /* while */")]),
    ("S1 dad_ukids read BEFORE the decrement (`ukids--` for `--ukids`)", "semantic",
     [("dad_ukids = --pxgstrf_shared->pan_status[dad].ukids;", "dad_ukids = pxgstrf_shared->pan_status[dad].ukids--;")]),
    ("S2 `STATE(jcol) >= CANGO` -> `> CANGO` in the first dequeue loop (CANGO panels are skipped)", "semantic",
     [("STATE( jcol ) >= CANGO", "STATE( jcol ) > CANGO", 1)]),
    ("S3 `--tasks_remain` dropped", "semantic",
     [("--pxgstrf_shared->tasks_remain;", ";")]),
    ("S4 the parent is marked CANGO instead of CANPIPE", "semantic",
     [("STATE( dad ) = CANPIPE;", "STATE( dad ) = CANGO;")]),
    ("S5 `fb_cols[jcol] = *bcol` instead of `fb_cols[dad] = *bcol`", "semantic",
     [("fb_cols[dad] = *bcol;", "fb_cols[jcol] = *bcol;")]),
    ("S6 one spin lock too many (`j <= jcol+w`)", "semantic",
     [("j < jcol+w;", "j <= jcol+w;")]),
    ("S7 `STATE(dad) > BUSY` -> `>= BUSY` (a busy parent can be taken again)", "semantic",
     [("STATE( dad ) > BUSY", "STATE( dad ) >= BUSY")]),
    ("S8 pthread_mutex_lock removed (the translator refuses: shared state touched outside the critical section)", "semantic",
     [("    pthread_mutex_lock( &pxgstrf_shared->lu_locks[SCHED_LOCK] );", "    ;")]),
    ("S9 the climb stops at BUSY instead of going on while DONE (`!= BUSY` for `== DONE`)", "semantic",
     [("while ( STATE( *bcol ) == DONE )", "while ( STATE( *bcol ) != BUSY )")]),
]


def run(cmd, cwd, timeout):
    t0 = time.time()
    try:
        p = subprocess.run(cmd, cwd=cwd, stdout=subprocess.PIPE, stderr=subprocess.STDOUT, universal_newlines=True, timeout=timeout)
        return p.returncode, p.stdout, time.time() - t0
    except subprocess.TimeoutExpired:
        return 124, "timeout", time.time() - t0


def main():
    pristine = open(os.path.join(REPO, F)).read()
    rows = []
    for (name, kind, edits) in EDITS:
        txt = pristine
        for e in edits:
            txt = sub(txt, *e)
        open(os.path.join(MUT, F), "w").write(txt)
        rc, out, _ = run([sys.executable, os.path.join(HERE, "gen_trans.py"), MUT, COQMUT], HERE, 600)
        gen = open(os.path.join(COQMUT, "SchedGen.v")).read()
        translated = "NOT TRANSLATED" not in gen
        why = ""
        if not translated:
            why = gen[gen.index("NOT TRANSLATED"):].split("*)")[0].strip()
        rc1, out1, t1 = run(["coqc", "-Q", ".", "SLU", "-w", "-notation-overridden", "SchedGen.v"], COQMUT, 600)
        rc2, out2, t2 = (1, "SchedGen.v does not compile", 0.0)
        if rc1 == 0:
            rc2, out2, t2 = run(["coqc", "-Q", ".", "SLU", "-w", "-notation-overridden", "SchedTie.v"], COQMUT, 1500)
        tie_ok = (rc1 == 0 and rc2 == 0)
        where = ""
        if not tie_ok:
            m = re.search(r'File "\./(\w+\.v)", line (\d+)', out2 if rc1 == 0 else out1)
            where = "%s:%s" % (m.group(1), m.group(2)) if m else (out2 if rc1 == 0 else out1)[-200:]
            err = [l for l in (out2 if rc1 == 0 else out1).splitlines() if l.startswith("Error")]
            where += " " + (err[0][:120] if err else "")
        expected = (tie_ok if kind == "harmless" else not tie_ok)
        rows.append((name, kind, translated, tie_ok, expected, why or where, t2))
        print("%-9s translated=%-5s tie=%-8s %s  %s  [%s] (%.0fs)" % (kind, translated, "compiles" if tie_ok else "FAILS", "as expected" if expected else "UNEXPECTED", name, why or where, t2), flush=True)
    # leave the scratch copies in the pristine state
    shutil.copy(os.path.join(REPO, F), os.path.join(MUT, F))
    run([sys.executable, os.path.join(HERE, "gen_trans.py"), MUT, COQMUT], HERE, 600)
    bad = [r for r in rows if not r[4]]
    print("sched_mut_demo: %d edits, %d as expected" % (len(rows), len(rows) - len(bad)))
    return 1 if bad else 0


if __name__ == "__main__":
    sys.exit(main())
