(* GENERATED on every run by tools/gen_trans.py (tools/gen_trans_busy.py, translator tools/c2gal_busy.py, clang AST, pthread build,
   built WITHOUT -DSLU_MT_VERIF, DEBUGlevel 0) from pxgstrf_mark_busy_descends of /tmp/trH/srcmut/SRC/pxgstrf_mark_busy_descends.c -- do not edit.
   gen_pxgstrf_mark_busy_descends jcol etr pan_type pan_size xsup supno bcol lbusy fuel:
     jcol = the argument jcol (pnum is only printed under DEBUGlevel: it is not an input); etr = etree[]; pan_type / pan_size =
     the fields type / size of pxgstrf_shared->pan_status[]; xsup / supno = pxgstrf_shared->Glu->xsup[] / ->supno[] (the dynamic
     supernode table, read through the macro SUPER_FSUPC); bcol = *bcol on entry; lbusy = lbusy[] on entry.
   Arrays are lists read with nthZ and written with updZ (SchedModel.v: total, default 0 / no effect out of range); int_t
   arithmetic is arithmetic in Z; the enum panel_t is compared as an integer.  Distinct arrays / fields do not overlap.
   Result: None when the climb `for (kcol = bcol_reg; kcol < jcol; kcol = etree[kcol])` (a Fixpoint over fuel, it is not of the
   shape `for (i = a; i < b; ++i)`) ran out of fuel, else Some (lbusy[], *bcol) at the end of the routine.  The routine takes no
   lock: lbusy[] is private to the calling thread, and what it reads of the shared state is either never written after
   ParallelInit (etree, type, size) or read without synchronisation on purpose (xsup / supno: the `pessimistic assumption' of the
   comment in the source; the tie theorem holds for EVERY content of these two arrays). *)
Require Import ZArith List Bool.
From SLU Require Import Consts C2GalLib SchedModel.
Local Open Scope Z_scope.
Local Open Scope bool_scope.

(* pxgstrf_mark_busy_descends.c : pxgstrf_mark_busy_descends *)
(* state lbusy[]; outer names jcol *)
Definition gen_pxgstrf_mark_busy_descends_loop1 (jcol : Z) (st_ : list Z) (kcol'1 : Z) : list Z :=
  let lbusy'2 := st_ in
    let lbusy'3 := (updZ lbusy'2 kcol'1 jcol) in
lbusy'3.

(* state kcol, lbusy[]; outer names jcol, etr *)
Fixpoint gen_pxgstrf_mark_busy_descends_while1 (fuel : nat) (jcol : Z) (etr : list Z) (st_ : Z * list Z) {struct fuel} : option (Z * list Z) :=
  match fuel with
  | O => None
  | S fuel_ =>
    let '(kcol'1, lbusy'2) := st_ in
    (if (kcol'1 <? jcol)
 then let lbusy'3 := (updZ lbusy'2 kcol'1 jcol) in
let kcol'4 := (nthZ etr kcol'1) in
gen_pxgstrf_mark_busy_descends_while1 fuel_ jcol etr (kcol'4, lbusy'3)
 else Some (kcol'1, lbusy'2))
  end.

Definition gen_pxgstrf_mark_busy_descends (jcol : Z) (etr : list Z) (pan_type : list Z) (pan_size : list Z) (xsup : list Z) (supno : list Z) (bcol : Z) (lbusy : list Z) (fuel : nat) : option (list Z * Z) :=
let bcol_reg_1 := bcol in
(if (bcol_reg_1 <? jcol)
 then (if ((nthZ pan_type bcol_reg_1) =? c_RELAXED_SNODE)
 then let fsupc_2 := bcol_reg_1 in
let w_3 := (nthZ pan_size fsupc_2) in
let bcol_reg_4 := (bcol_reg_1 + w_3) in
let lbusy_8 :=
  fold_left (gen_pxgstrf_mark_busy_descends_loop1 jcol)
    (zrange fsupc_2 bcol_reg_4) lbusy in
let kcol_9 := bcol_reg_4 in
match gen_pxgstrf_mark_busy_descends_while1 fuel jcol etr (kcol_9, lbusy_8) with
 | Some (kcol_14, lbusy_15) => let bcol_16 := fsupc_2 in
Some (lbusy_15, bcol_16)
 | None => None
 end
 else let fsupc_17 := (nthZ xsup (nthZ supno bcol_reg_1)) in
let lbusy_21 :=
  fold_left (gen_pxgstrf_mark_busy_descends_loop1 jcol)
    (zrange fsupc_17 bcol_reg_1) lbusy in
let kcol_22 := bcol_reg_1 in
match gen_pxgstrf_mark_busy_descends_while1 fuel jcol etr (kcol_22, lbusy_21) with
 | Some (kcol_27, lbusy_28) => let bcol_29 := fsupc_17 in
Some (lbusy_28, bcol_29)
 | None => None
 end)
 else Some (lbusy, bcol)).

