#!/bin/bash
# demo.sh: for every rewrite: fresh copy of /repo/SRC -> /tmp/trH/srcmut/SRC, apply, regenerate into /tmp/trH/coqmut, compile the tie
T=/tmp/trH
for m in "$@"; do
  rm -rf $T/srcmut/SRC; mkdir -p $T/srcmut; cp -r /repo/SRC $T/srcmut/SRC
  if [ $m != H0 ]; then python3 $T/out/mut/apply.py $m $T/srcmut/SRC/pxgstrf_mark_busy_descends.c || exit 1; fi
  diff /repo/SRC/pxgstrf_mark_busy_descends.c $T/srcmut/SRC/pxgstrf_mark_busy_descends.c > $T/out/mut/$m.diff
  cp $T/coq/BusyTie.v $T/coq/Properties_C03.v $T/coqmut/
  python3 $T/tools/gen_trans.py $T/srcmut $T/coqmut > $T/out/mut/$m.gen.log 2>&1
  cp $T/coqmut/BusyGen.v $T/out/mut/$m.BusyGen.v
  changed=$(cd $T/coqmut; for f in *Gen.v; do sed "s#$T/srcmut/SRC#/repo/SRC#g" $f | cmp -s - $T/coq/$f || echo -n "$f "; done)
  (cd $T/coqmut && timeout 900 make BusyTie.vo Properties_C03.vo > $T/out/mut/$m.make.log 2>&1); rc=$?
  echo "== $m: generated files that differ from coq/ (modulo the source path in the header): [$changed] ; make BusyTie.vo Properties_C03.vo exit code $rc"
  grep -A6 "^Error\|Error:" $T/out/mut/$m.make.log | head -12
done
