#!/usr/bin/env python3
"""apply.py <name> <file>: apply the named rewrite to a copy of pxgstrf_mark_busy_descends.c"""
import sys
name, path = sys.argv[1], sys.argv[2]
s = open(path).read()

def rep(old, new, count=1):
    global s
    assert s.count(old) == count, (old, s.count(old))
    s = s.replace(old, new)

CLIMB = """	for (kcol = bcol_reg; kcol < jcol; kcol = etree[kcol]) {
	    lbusy[kcol] = jcol;
	}
"""
if name == "H1":      # harmless: statement-level rewrites (order of two independent assignments, += spelled out, kcol++ for ++kcol, braces)
    rep("""	    fsupc = bcol_reg;
	    w = pxgstrf_shared->pan_status[fsupc].size;
	    bcol_reg += w;
	    for (kcol = fsupc; kcol < bcol_reg; ++kcol)
		lbusy[kcol] = jcol;
""", """	    w = pxgstrf_shared->pan_status[bcol_reg].size;
	    fsupc = bcol_reg;
	    bcol_reg = bcol_reg + w;
	    for (kcol = fsupc; kcol < bcol_reg; kcol++) {
		lbusy[kcol] = jcol;
	    }
""")
elif name == "H2":    # harmless: the climb as a while loop, the local pointer xsup initialised at its declaration
    rep(CLIMB, """	kcol = bcol_reg;
	while (kcol < jcol) {
	    lbusy[kcol] = jcol;
	    kcol = etree[kcol];
	}
""")
    rep("    int_t *xsup;\n", "    int_t *xsup = Glu->xsup;\n")
    rep("	    xsup = Glu->xsup;\n", "")
elif name == "M1":    # semantic: a busy relaxed supernode is marked along its etree path only (not all its columns)
    rep("""	    bcol_reg += w;
	    for (kcol = fsupc; kcol < bcol_reg; ++kcol)
		lbusy[kcol] = jcol;
""", "")
elif name == "M2":    # semantic: the climb stops one parent early
    rep("for (kcol = bcol_reg; kcol < jcol; kcol = etree[kcol]) {", "for (kcol = bcol_reg; etree[kcol] < jcol; kcol = etree[kcol]) {")
elif name == "M3":    # semantic: the supernode of bcol instead of the supernode of bcol-1
    rep("SUPER_FSUPC ( Glu->supno[bcol_reg-1] )", "SUPER_FSUPC ( Glu->supno[bcol_reg] )")
elif name == "M4":    # semantic: the relaxed supernode's columns are marked, but the climb starts at its first column's parent
    rep("""	for (kcol = bcol_reg; kcol < jcol; kcol = etree[kcol]) {""", """	for (kcol = etree[fsupc]; kcol < jcol; kcol = etree[kcol]) {""")
else:
    raise SystemExit("unknown rewrite " + name)
open(path, "w").write(s)
