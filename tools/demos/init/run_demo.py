#!/usr/bin/env python3
"""demonstration: apply one edit to a scratch copy of the source, re-translate, rebuild the tie.
   usage: run_demo.py   (runs every case; writes out/demo/<case>.diff, <case>.log and prints a summary)"""
import os, shutil, subprocess, sys
ROOT = "/tmp/trE"
SRC0 = "/repo/SRC"
MUT = ROOT + "/srcmut"
COQM = ROOT + "/coqmut"
OUT = ROOT + "/out/demo"

# (name, kind, file, [(old, new)])
CASES = [
 ("H1_relax_snode_rewrites", "harmless", "pxgstrf_relax_snode.c", [
    ("desc[parent] += desc[j] + 1;", "desc[parent] = desc[parent] + desc[j] + 1;"),
    ("while ( desc[j] != 0 && j < n ) j++;", "while ( desc[j] != 0 && j < n ) { j += 1; }"),
    ("register int_t fcol;", "register int_t first;"),
    ("fcol = j;", "first = j;"),
    ("pxgstrf_relax[rs].fcol = fcol;", "pxgstrf_relax[rs].fcol = first;"),
    ("pxgstrf_relax[rs].size = j - fcol + 1;", "pxgstrf_relax[rs].size = 1 + j - first;"),
    ("pxgstrf_relax[0].size = rs-1;", "pxgstrf_relax[0].size = rs - 1;"),
 ]),
 ("H2_parallel_init_rewrites", "harmless", "pxgstrf_synch.c", [
    ("\tukids = k = 0;", "\tk = 0; ukids = 0;"),
    ("\t    w = pxgstrf_relax[rs++].size;", "\t    w = pxgstrf_relax[rs].size; rs++;"),
    ("\t    ++pxgstrf_shared->tasks_remain;\n\t    /*printf", "\t    pxgstrf_shared->tasks_remain += 1;\n\t    /*printf"),
    ("\t    pxgstrf_shared->pan_status[j].size = k--;\n\t    pxgstrf_shared->pan_status[j].type = panel_type;",
     "\t    pxgstrf_shared->pan_status[j].type = panel_type;\n\t    pxgstrf_shared->pan_status[j].size = k; k = k - 1;"),
    ("\ti += w;    /* move to the next panel */", "\ti = w + i;"),
    ("\tq->count++;\n\t++pxgstrf_shared->tasks_remain;", "\t++pxgstrf_shared->tasks_remain;\n\t++q->count;"),
    ("    q->count = 0;\n    q->head = 0;\n    q->tail = 0;", "    q->head = 0;\n    q->tail = 0;\n    q->count = 0;"),
    ("    pxgstrf_shared->pan_status[n].size = 1;\n    pxgstrf_shared->pan_status[n].state = UNREADY;",
     "    pxgstrf_shared->pan_status[n].state = UNREADY;\n    pxgstrf_shared->pan_status[n].size = 1;"),
 ]),
 ("H3_split_test_rewrites", "harmless", "pxgstrf_synch.c", [
    ("if ( do_split && w > w_top ) {", "if ( w_top < w && do_split != 0 ) {"),
    ("\t    if ( !do_split ) {\n\t  \tif ( (n-i) < panel_size * P ) do_split = 1;\n\t    }",
     "\t    if ( do_split == 0 && n - i < P * panel_size ) do_split = 1;"),
    ("if ( pxgstrf_shared->pan_status[j].ukids > 1 ) break;", "if ( 1 < pxgstrf_shared->pan_status[j].ukids ) break;"),
    ("if ( k == pxgstrf_relax[rs].fcol ) {", "if ( pxgstrf_relax[rs].fcol == k ) {"),
    ("\tif ( pxgstrf_relax[rs].fcol == i ) {", "\tif ( i == pxgstrf_relax[rs].fcol ) {"),
 ]),
 ("S1_relaxed_snode_clamped_to_panel_size", "semantic", "pxgstrf_synch.c", [
    ("\t    w = pxgstrf_relax[rs++].size;", "\t    w = pxgstrf_relax[rs++].size;\n\t    if ( w > panel_size ) w = panel_size;"),
 ]),
 ("S2_ukids_counted_per_column", "semantic", "pxgstrf_synch.c", [
    ("pxgstrf_shared->pan_status[i].ukids = ukids - (w-1);", "pxgstrf_shared->pan_status[i].ukids = ukids;"),
 ]),
 ("S3_tasks_remain_one_too_small", "semantic", "pxgstrf_synch.c", [
    ("    pxgstrf_shared->tasks_remain = 0;\n    rs = 1;", "    pxgstrf_shared->tasks_remain = -1;\n    rs = 1;"),
 ]),
 ("S4_relax_bound_inclusive", "semantic", "pxgstrf_relax_snode.c", [
    ("desc[parent] < relax", "desc[parent] <= relax"),
 ]),
 ("S5_enqueue_skips_last_snode", "semantic", "pxgstrf_synch.c", [
    ("for (rs = 1; rs <= m; ++rs) {", "for (rs = 1; rs < m; ++rs) {"),
 ]),
 ("S6_split_test_inclusive", "semantic", "pxgstrf_synch.c", [
    ("if ( do_split && w > w_top ) {", "if ( do_split && w >= w_top ) {"),
 ]),
 ("S7_branch_point_test_weaker", "semantic", "pxgstrf_synch.c", [
    ("if ( pxgstrf_shared->pan_status[j].ukids > 1 ) break;", "if ( pxgstrf_shared->pan_status[j].ukids > 2 ) break;"),
 ]),
 ("S8_relaxed_panel_state_unready", "semantic", "pxgstrf_synch.c", [
    ("pxgstrf_shared->pan_status[i].state = CANGO;", "pxgstrf_shared->pan_status[i].state = CANPIPE;"),
 ]),
 ("S9_queue_not_reset", "semantic", "pxgstrf_synch.c", [
    ("    q->count = 0;\n    q->head = 0;", "    q->head = 0;"),
 ]),
 ("U1_reads_the_dropped_statistics_array", "untranslatable", "pxgstrf_synch.c", [
    ("\tpanel_histo[w]++;", "\tpanel_histo[w]++;\n\tif ( panel_histo[w] > 3 ) w_top = 1;"),
 ]),
]


def sh(cmd, **kw):
    return subprocess.run(cmd, shell=True, stdout=subprocess.PIPE, stderr=subprocess.STDOUT, universal_newlines=True, **kw)


def main():
    only = sys.argv[1:]
    summary = []
    for name, kind, fname, edits in CASES:
        if only and name not in only:
            continue
        # fresh scratch source
        shutil.rmtree(MUT + "/SRC", ignore_errors=True)
        shutil.copytree(SRC0, MUT + "/SRC")
        p = os.path.join(MUT, "SRC", fname)
        txt = open(p).read()
        for old, new in edits:
            if txt.count(old) != 1:
                print("%s: edit target not unique: %r (%d)" % (name, old, txt.count(old)))
                sys.exit(1)
            txt = txt.replace(old, new)
        open(p, "w").write(txt)
        d = sh("diff -u %s/%s %s" % (SRC0, fname, p)).stdout
        open(os.path.join(OUT, name + ".diff"), "w").write(d)
        g = sh("python3 %s/tools/gen_trans.py %s %s" % (ROOT, MUT, COQM)).stdout
        changed = sh("cd %s && for f in ArgCheckGen PivotGen UstackGen AllocGen SchedGen SchedInitGen; do sed 's#%s/SRC#/repo/SRC#g' $f.v | cmp -s - %s/coq/$f.v || echo $f; done" % (COQM, MUT, ROOT)).stdout.split()
        sh("cp %s/coq/SchedInitTie.v %s/coq/Properties_C04.v %s/" % (ROOT, ROOT, COQM))
        b = sh("cd %s && timeout 900 make SchedInitTie.vo Properties_C04.vo 2>&1 | grep -v '^Closed under\\|deprecat\\|^Warning' | tail -60" % COQM).stdout
        ok = os.path.exists(COQM + "/SchedInitTie.vo") and "Error" not in b
        nt = sh("grep 'NOT TRANSLATED' %s/SchedInitGen.v" % COQM).stdout
        open(os.path.join(OUT, name + ".log"), "w").write(g + "\nchanged generated files: %s\n%s\n" % (changed, nt) + b)
        first_err = next((l for l in b.splitlines() if l.startswith("File ")), "")
        summary.append((name, kind, changed, "TIE COMPILES" if ok else "TIE FAILS", first_err))
        print(summary[-1])
    open(os.path.join(OUT, "summary.txt"), "a").write("\n".join(repr(x) for x in summary) + "\n")
    if True:
        # leave the scratch copies in the pristine, compiling state
        shutil.rmtree(MUT + "/SRC", ignore_errors=True)
        shutil.copytree(SRC0, MUT + "/SRC")
        sh("python3 %s/tools/gen_trans.py %s %s" % (ROOT, MUT, COQM))
        sh("cp %s/coq/SchedInitTie.v %s/coq/Properties_C04.v %s/" % (ROOT, ROOT, COQM))
        b = sh("cd %s && timeout 900 make SchedInitTie.vo Properties_C04.vo 2>&1 | grep -c 'Closed under'" % COQM).stdout
        print("restored pristine source in srcmut; coqmut rebuilt: %s theorems closed" % b.strip())


main()
