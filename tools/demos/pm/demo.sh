#!/bin/bash
# usage: demo.sh <label> <sed-script>   applies the sed script to p[dscz]memory.c of a fresh copy of /repo/SRC, regenerates, compiles the tie
label=$1; script=$2
cd /tmp/trG
rm -rf srcmut/SRC && cp -r /repo/SRC srcmut/SRC
for p in d s c z; do sed -i -E "$script" srcmut/SRC/p${p}memory.c; done
echo "=== $label"; diff <(sed -n 900,1015p /repo/SRC/pdmemory.c) <(sed -n 900,1015p srcmut/SRC/pdmemory.c)
python3 tools/gen_trans.py /tmp/trG/srcmut /tmp/trG/coqmut | tail -1
cd coqmut && (timeout 2400 make PresetMapGen.vo PresetMapTie.vo 2>&1 | grep -v "^COQDEP\|^WARNING" | grep -v "^COQC\|Closed under" | head -12); echo "exit: ${PIPESTATUS[0]}"
