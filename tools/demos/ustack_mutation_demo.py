#!/usr/bin/env python3
"""demonstration: mutants of SRC/pdmemory.c -> regenerate UstackGen.v -> does UstackTie.v still compile?
usage: demo.py            (writes /tmp/trB/out/demo.log; the last variant stays in /tmp/trB/srcmut and /tmp/trB/coqmut)"""
import os, shutil, subprocess, sys, time
ROOT = "/tmp/trB"
SRCMUT, COQMUT = ROOT + "/srcmut", ROOT + "/coqmut"

ORIG_MALLOC_BODY_START = "void *duser_malloc(int_t bytes, int_t which_end)"

A1 = '''void *duser_malloc(int_t nbytes, int_t end)
{
    void *buf = NULL;
    char *base;

    pthread_mutex_lock( &stack.lock );
    base = (char *) stack.array;
    if ( stack.size > stack.used + nbytes ) {          /* !StackFull(nbytes) */
        if ( end != HEAD ) {
	    int_t slack = NotDoubleAlign( base + stack.top2 - nbytes );
	    int_t take = slack + nbytes;
	    if ( !StackFull(take) ) {
	        stack.top2 = stack.top2 - take;
	        stack.used = take + stack.used;
	        buf = base + stack.top2;
	    }
        } else {
	    buf = &base[stack.top1];
	    stack.top1 = nbytes + stack.top1;
	    stack.used += nbytes;
        }
    }
    pthread_mutex_unlock( &stack.lock );
    return buf;
}
'''
# &base[i] is not in the subset: variant A1 uses base + stack.top1 instead (kept above to show a refused construct: A4)
A1 = A1.replace("buf = &base[stack.top1];", "buf = base + stack.top1;")
A2 = '''void *duser_malloc(int_t bytes, int_t which_end)
{
    int_t extra;
    pthread_mutex_lock( &stack.lock );
    if ( bytes + stack.used >= stack.size ) {
        pthread_mutex_unlock( &stack.lock );
        return NULL;
    }
    if ( which_end == HEAD ) {
        void *p = (char*) stack.array + stack.top1;
        stack.used += bytes;
        stack.top1 += bytes;
        pthread_mutex_unlock( &stack.lock );
        return p;
    }
    extra = (int_t) ( ((long long int) stack.array + stack.top2 - bytes) & 7 );
    if ( StackFull(extra + bytes) ) {
        pthread_mutex_unlock( &stack.lock );
        return NULL;
    }
    stack.used += bytes + extra;
    stack.top2 -= bytes + extra;
    {
        void *q = (char*) stack.array + stack.top2;
        pthread_mutex_unlock( &stack.lock );
        return q;
    }
}
'''
A3_FREE = '''void duser_free(int_t n, int_t e)
{
    pthread_mutex_lock( &stack.lock );
    stack.used = stack.used - n;
    if ( e != HEAD ) stack.top2 = n + stack.top2;
    else stack.top1 = stack.top1 - n;
    pthread_mutex_unlock( &stack.lock );
}
'''


def replace_function(txt, name, new):
    """replace the definition `name(...) { ... }` (starting at the line of its header, up to the closing brace in column 0)"""
    i = txt.index("\nvoid " + ("*" if "malloc" in name else "") + name + "(") + 1
    j = txt.index("\n}\n", i) + 3
    return txt[:i] + new + txt[j:]


def sub(old, new, count=1):
    def f(txt):
        assert txt.count(old) >= 1, old
        return txt.replace(old, new, count)
    return f


VARIANTS = [
    # name, kind, expected, [(file, edit)]
    ("a0_unchanged", "baseline", "PASS", []),
    ("a1_restructured", "harmless: no goto, nested if/else, NULL initialiser, local base pointer, NotDoubleAlign macro, operands swapped, tests restated, parameters renamed",
     "PASS", [("pdmemory.c", lambda t: replace_function(t, "duser_malloc", A1))]),
    ("a2_early_returns", "harmless: early returns (each one unlocks), updates reordered, integer cast before the addition",
     "PASS", [("pdmemory.c", lambda t: replace_function(t, "duser_malloc", A2))]),
    ("a3_free_rewritten", "harmless: ?user_free with the statements reordered and the test negated",
     "PASS", [("pdmemory.c", lambda t: replace_function(t, "duser_free", A3_FREE))]),
    ("a4_enum_renumbered", "harmless: typedef enum {TAIL, HEAD} stack_end_t (the values change, the symbolic use does not)",
     "PASS", [("pdmemory.c", sub("typedef enum {HEAD, TAIL}   stack_end_t;", "typedef enum {TAIL, HEAD}   stack_end_t;"))]),
    ("c1_outside_subset", "harmless for C, but `&base[i]` is outside the translated subset: the piece is LEFT OUT with the reason, the obligation is reported broken",
     "FAIL", [("pdmemory.c", lambda t: replace_function(t, "duser_malloc", A1.replace("buf = base + stack.top1;", "buf = &base[stack.top1];")))]),
    ("b1_capacity_gt", "semantic: StackFull tests > instead of >=",
     "FAIL", [("pdmemory.c", sub("#define StackFull(x)         ( x + stack.used >= stack.size )", "#define StackFull(x)         ( x + stack.used > stack.size )"))]),
    ("b2_tail_not_aligned", "semantic: the alignment slack of TAIL blocks is dropped (extra = 0)",
     "FAIL", [("pdmemory.c", sub("((char*) stack.array + stack.top2 - bytes) & 7 );", "((char*) stack.array + stack.top2 - bytes) & 0 );"))]),
    ("b3_mask_3", "semantic: & 3 instead of & 7",
     "FAIL", [("pdmemory.c", sub("((char*) stack.array + stack.top2 - bytes) & 7 );", "((char*) stack.array + stack.top2 - bytes) & 3 );"))]),
    ("b4_second_test_dropped", "semantic: the TAIL request is not re-tested with the slack",
     "FAIL", [("pdmemory.c", sub("if ( StackFull(bytes + extra) ) {", "if ( 0 ) {"))]),
    ("b5_free_keeps_used", "semantic: ?user_free does not decrease stack.used",
     "FAIL", [("pdmemory.c", sub("        stack.used -= bytes;\n    }\n\n#if ( MACH==PTHREAD ) /* Use pthread ... */\n    pthread_mutex_unlock( &stack.lock );\n#endif\n\n}",
                                 "    }\n\n#if ( MACH==PTHREAD ) /* Use pthread ... */\n    pthread_mutex_unlock( &stack.lock );\n#endif\n\n}"))]),
    ("b6_no_lock", "semantic: ?user_malloc does not take the lock",
     "FAIL", [("pdmemory.c", sub("void *duser_malloc(int_t bytes, int_t which_end)\n{\n    void *buf;\n\n#if ( MACH==PTHREAD ) /* Use pthread ... */\n    pthread_mutex_lock( &stack.lock );",
                                 "void *duser_malloc(int_t bytes, int_t which_end)\n{\n    void *buf;\n\n#if ( MACH==PTHREAD ) /* Use pthread ... */\n    ;"))]),
    ("b7_head_after_bump", "semantic: the HEAD block is computed after top1 was advanced",
     "FAIL", [("pdmemory.c", sub("\t    buf = (char*) stack.array + stack.top1;\n\t    stack.top1 += bytes;", "\t    stack.top1 += bytes;\n\t    buf = (char*) stack.array + stack.top1;"))]),
    ("b8_z_precision_only", "semantic, z precision only: zuser_malloc TAIL takes top2 -= bytes before adding the slack",
     "FAIL", [("pzmemory.c", sub("\t    bytes += extra;\n\t    stack.top2 -= bytes;", "\t    stack.top2 -= bytes;\n\t    bytes += extra;"))]),
]


def run(cmd, cwd=None, timeout=900):
    p = subprocess.run(cmd, cwd=cwd, stdout=subprocess.PIPE, stderr=subprocess.STDOUT, universal_newlines=True, timeout=timeout)
    return p.returncode, p.stdout


def main():
    only = sys.argv[1:]
    log = []
    allok = True
    for (name, kind, expect, edits) in VARIANTS:
        if only and name not in only:
            continue
        shutil.rmtree(SRCMUT, ignore_errors=True)
        shutil.rmtree(COQMUT, ignore_errors=True)
        os.makedirs(SRCMUT)
        shutil.copytree("/repo/SRC", SRCMUT + "/SRC")
        shutil.copytree(ROOT + "/coq", COQMUT)
        for (f, ed) in edits:
            path = os.path.join(SRCMUT, "SRC", f)
            txt = ed(open(path).read())
            open(path, "w").write(txt)
        os.makedirs(ROOT + "/out/demo_src", exist_ok=True)
        os.makedirs(ROOT + "/out/demo_gen", exist_ok=True)
        _, d = run(["diff", "-ru", "/repo/SRC", SRCMUT + "/SRC"])
        open(ROOT + "/out/demo_src/%s.diff" % name, "w").write(d)
        rc, o = run(["python3", ROOT + "/tools/gen_trans.py", SRCMUT, COQMUT])
        shutil.copy(COQMUT + "/UstackGen.v", ROOT + "/out/demo_gen/%s.UstackGen.v" % name)
        gen = o.strip().replace("\n", " | ")
        nt = [l for l in open(COQMUT + "/UstackGen.v").read().split("\n") if "NOT TRANSLATED" in l]
        t0 = time.time()
        rc, o = run(["timeout", "900", "make", "UstackTie.vo"], cwd=COQMUT)
        res = "PASS" if rc == 0 else "FAIL"
        err = ""
        if rc != 0:
            ls = o.strip().split("\n")
            k = next((i for i, l in enumerate(ls) if l.startswith("File ")), max(0, len(ls) - 4))
            err = " ".join(ls[k:k + 3])
        good = (res == expect)
        allok = allok and good
        line = "%-24s expected %s  got %s  %s  (%.1fs)  [%s]\n      %s\n      gen: %s%s%s" % (
            name, expect, res, "ok" if good else "UNEXPECTED", time.time() - t0, kind, "", gen,
            ("\n      " + " ".join(nt)) if nt else "", ("\n      coq: " + err) if err else "")
        print(line); sys.stdout.flush()
        log.append(line)
    open(ROOT + "/out/demo.log", "w").write("\n".join(log) + "\n" + ("ALL AS EXPECTED\n" if allok else "SOME UNEXPECTED\n"))


main()
