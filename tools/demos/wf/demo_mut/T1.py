# not translatable: the scratch array is used after it has been freed
R = [("    xlsub[n] = nextl;\n    SUPERLU_FREE (order);\n", "    SUPERLU_FREE (order);\n    xlsub[n] = nextl + order[0] - order[0];\n", 1)]
