# semantic: the ordering pass never looks at slot 0 of order[]
R = [("for (j = i - 1; j >= 0 && ", "for (j = i - 1; j >= 1 && ", 1)]
