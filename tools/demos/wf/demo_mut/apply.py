#!/usr/bin/env python3
"""apply.py <mutation.py> <file>: mutation.py defines R = [(old, new, expected number of occurrences)]; every replacement must hit"""
import sys
ns = {}
exec(open(sys.argv[1]).read(), ns)
s = open(sys.argv[2]).read()
for old, new, cnt in ns["R"]:
    if s.count(old) != cnt:
        sys.exit("mutation %r: %d occurrences, expected %d" % (old, s.count(old), cnt))
    s = s.replace(old, new)
open(sys.argv[2], "w").write(s)
