# semantic (same shape of the generated definitions): the end pointer of a supernode is one short
R = [("\txlsub_end[fsupc] = nextl;\n", "\txlsub_end[fsupc] = nextl - 1;\n", 1)]
