# semantic: the row permutation is not applied to the subscripts
R = [("lsub[nextl] = perm_r[lsub[j]];", "lsub[nextl] = lsub[j];", 1)]
