# semantic: countnz takes the end of supernode i from xsup[i+1] instead of xsup_end[i]
R = [("for (j = fsupc; j < xsup_end[i]; j++) {", "for (j = fsupc; j < xsup[i+1]; j++) {", 1)]
