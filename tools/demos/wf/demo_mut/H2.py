# harmless: a renamed local, statements in another order, operands swapped, pointer set-up in another order
R = [("jstrt", "start0", 8),
     ("j >= 0 && ", "0 <= j && ", 1),
     ("order[j+1]", "order[1 + j]", 2),
     ("\t    *nnzL += jlen;\n\t    *nnzU += j - fsupc + 1;\n", "\t    *nnzU += j - fsupc + 1;\n\t    *nnzL = jlen + *nnzL;\n", 1),
     ("    xsup      = Glu->xsup;\n    xsup_end  = Glu->xsup_end;\n", "    xsup_end  = Glu->xsup_end;\n    xsup      = Glu->xsup;\n", 2),
     ("\tk = order[i];\n\tstart0 = xlsub[xsup[k]];\n", "\tstart0 = xlsub[xsup[order[i]]];\n\tk = order[i];\n", 1),
     ("    nextl     = 0;\n", "", 1),
     ("    order = intMalloc(nsuper + 1);\n", "    order = intMalloc(nsuper + 1);\n    nextl = 0;\n", 1)]
