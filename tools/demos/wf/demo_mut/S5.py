# semantic: the scan compares with >= (equal keys are moved too)
R = [("xlsub[xsup[order[j]]] > jstrt", "xlsub[xsup[order[j]]] >= jstrt", 1)]
