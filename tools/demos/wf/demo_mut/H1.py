# harmless: other spellings of the same tests, increments and arithmetic
R = [("jlen--;", "jlen -= 1;", 1),
     ("*nnzU += j - fsupc + 1;", "*nnzU += 1 + (j - fsupc);", 1),
     ("for (i = 0; i <= nsuper; i++)", "for (i = 0; i < nsuper + 1; ++i)", 4),
     ("xlsub[xsup[order[j]]] > jstrt; j--", "jstrt < xlsub[xsup[order[j]]]; --j", 1),
     ("nextl++;", "nextl += 1;", 1),
     ("if ( n <= 1 ) return;", "if ( n < 2 ) return;", 2)]
