# semantic: compaction in supernode-NUMBER order (finding F1: the code before the repair)
R = [("\ti = order[k];\n", "\ti = k;\n", 1)]
