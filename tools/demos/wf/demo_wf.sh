#!/bin/bash
# usage: demo_wf.sh <name>   -- applies tools/demo_mut/<name>.py (a list R of (old, new, count) text replacements) to a scratch copy of SRC/util.c;   -- scratch copy of the source, regenerate, rebuild the tie
# prints: the number of translated functions, whether WellFormedGen.v changed, and whether WellFormedTie.v still compiles
set -u
NAME="$1"
ROOT=/tmp/trF
rm -rf $ROOT/srcmut $ROOT/coqmut
mkdir -p $ROOT/srcmut
cp -a /repo/SRC $ROOT/srcmut/SRC
cp -a $ROOT/coq $ROOT/coqmut
python3 $ROOT/tools/demo_mut/apply.py $ROOT/tools/demo_mut/$NAME.py $ROOT/srcmut/SRC/util.c || exit 2
echo "=== $NAME"
diff <(sed -n '150,270p' /repo/SRC/util.c) <(sed -n '150,270p' $ROOT/srcmut/SRC/util.c) | grep '^[<>]'
python3 $ROOT/tools/gen_trans.py $ROOT/srcmut $ROOT/coqmut | grep WellFormed
if cmp -s $ROOT/coq/WellFormedGen.v <(sed "s#$ROOT/srcmut/SRC#/repo/SRC#g" $ROOT/coqmut/WellFormedGen.v); then echo "WellFormedGen.v: identical"; else echo "WellFormedGen.v: CHANGED"; fi
for f in ArgCheckGen PivotGen UstackGen AllocGen SchedGen; do cmp -s $ROOT/coq/$f.v <(sed "s#$ROOT/srcmut/SRC#/repo/SRC#g" $ROOT/coqmut/$f.v) || echo "$f.v differs"; done
cd $ROOT/coqmut && timeout 900 make WellFormedTie.vo > $ROOT/scratch/demo_$NAME.log 2>&1
if [ $? -eq 0 ]; then echo "RESULT $NAME: tie COMPILES"; else echo "RESULT $NAME: tie FAILS"; grep -A6 "^File\|Error" $ROOT/scratch/demo_$NAME.log | head -14; fi
