#!/usr/bin/env python3
"""usage: tools/mk_round.py <dir> [<id> ...]  -- prepare a round of seeded-change requests: for every property id create a scratch
worktree <dir>/<id> of /repo HEAD and a prompt file <dir>/<id>.prompt.txt made of the template (property text only, nothing from
/verif) plus one-line summaries of the changes other authors already delivered for that property (so that a different one is
produced) and an optional hint file tools/prompts/hints_<roundname>.json {id: hint}."""
import json, os, subprocess, sys

V = os.path.dirname(os.path.dirname(os.path.abspath(__file__)))
root = sys.argv[1]
ids = sys.argv[2:] or ["C%02d" % k for k in range(1, 21)]
props = {json.loads(l)["id"]: json.loads(l) for l in open(os.path.join(V, "properties.jsonl"))}
tmpl = open(os.path.join(V, "tools/prompts/mutant_template.txt")).read()
hints = {}
hf = os.path.join(V, "tools/prompts/hints_%s.json" % os.path.basename(root.rstrip("/")))
if os.path.exists(hf):
    hints = json.load(open(hf))
os.makedirs(root, exist_ok=True)
for pid in ids:
    wt = os.path.join(root, pid)
    if not os.path.isdir(wt):
        subprocess.check_call(["git", "-C", "/repo", "worktree", "add", "-q", "--detach", wt, "HEAD"])
    p = props[pid]
    txt = tmpl.format(wt=wt, pid=pid, title=p["title"], statement=p["statement"], quant=p["quantifier"]["text"],
                      why=p["why_tests_cant"], files=", ".join(p["anchors"]["files"]))
    txt = txt.replace("/tmp/mut/my_", root.rstrip("/") + "/my_")
    prev = []
    for d in sorted(os.listdir(os.path.join(V, "seeded"))):
        if d[:3] == pid:
            try:
                m = json.load(open(os.path.join(V, "seeded", d, "meta.json")))
                prev.append("  PREVIOUS: " + " ".join(str(m.get("what_it_breaks", "")).split())[:260])
            except Exception:
                pass
    txt += "\n\nADDITIONAL CONSTRAINTS FOR THIS ROUND: other contributors already produced the following changes for this property - " \
           "produce a DIFFERENT one (different file or clearly different mechanism)" + \
           ("; " + hints[pid] if pid in hints else "") + ".\n" + "\n".join(prev) + "\n" + \
           "Configure your own build directory (e.g. _b) inside the worktree with the same cmake options (an untracked _build may be absent). " \
           "Never use `git stash` (shared between worktrees); use `git diff > p; git apply -R p` to unapply. In run.sh derive the worktree " \
           "root from the script's own location. Budget: if after about 45 tool calls no candidate both passes the test-suite and breaks " \
           "the property, deliver the best candidate with an honest account.\n"
    open(os.path.join(root, pid + ".prompt.txt"), "w").write(txt)
    print(pid, wt, len(prev), "previous")
