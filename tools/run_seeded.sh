#!/bin/sh
# For every seeded change kept under /verif/seeded/<id>/: apply it to /repo, run the quick check of that property (evidence to a
# scratch directory), undo it.  Prints one line per change.  usage: tools/run_seeded.sh [<id> ...]
cd /verif
ids=${*:-$(ls seeded)}
for id in $ids; do
  p=seeded/$id/patch.diff
  [ -f $p ] || continue
  if [ -n "$(git -C /repo status --porcelain -- SRC CBLAS)" ]; then echo "/repo is not clean"; exit 2; fi
  if ! git -C /repo apply $PWD/$p; then echo "$id: patch does not apply"; continue; fi
  ev=$(mktemp -d /tmp/seedev.XXXXXX)
  cid=$(echo $id | cut -c1-3)
  # a change delivered for one property whose breakage lives in another property's domain names the check that decides it
  cw=$(python3 -c "import json,sys; print(json.load(open('seeded/$id/meta.json')).get('check_with',''))" 2>/dev/null); [ -n "$cw" ] && cid=$cw
  VERIF_EVIDENCE_DIR=$ev timeout 3000 ./check $cid --tier quick > $ev/log 2>&1; rc=$?
  git -C /repo checkout -- SRC CBLAS
  nv=$(grep -c "^VIOLATION" $ev/log); nf=$(grep "^VIOLATION" $ev/log | grep -vc "no-failing-input-found")
  echo "$id: exit $rc, $nv VIOLATION lines ($nf with a failing input): $(grep -m1 -A1 '^VIOLATION' $ev/log | tail -1 | cut -c1-200)"
  rm -rf $ev
done
