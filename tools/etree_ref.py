"""Independent quadratic reference (property oracle) for C10, written from the definitions only
(no union-find, no first-column trick): column sets are Python ints used as bit sets.

pattern representation used by checks/c10.py:  (m, n, colptr, rowind)   duplicate-free CSC
"""
import itertools


def is_perm(p, n):
    return len(p) == n and sorted(p) == list(range(n))


def cols_of(m, n, colptr, rowind):
    """list of row bit-sets, one per column"""
    out = []
    for j in range(n):
        s = 0
        for p in range(colptr[j], colptr[j + 1]):
            s |= 1 << rowind[p]
        out.append(s)
    return out


def cols_of_ncp(n, colbeg, colend, rowind):
    out = []
    for j in range(n):
        s = 0
        for p in range(colbeg[j], colend[j]):
            s |= 1 << rowind[p]
        out.append(s)
    return out


def ata_adj(colsets, m):
    """adjacency bit-sets of the graph of M^T M (off-diagonal): i~j iff columns i and j share a row"""
    n = len(colsets)
    rowmask = [0] * m
    for j, s in enumerate(colsets):
        r = 0
        while s:
            if s & 1:
                rowmask[r] |= 1 << j
            s >>= 1
            r += 1
    adj = []
    for j, s in enumerate(colsets):
        a = 0
        r = 0
        t = s
        while t:
            if t & 1:
                a |= rowmask[r]
            t >>= 1
            r += 1
        adj.append(a & ~(1 << j))
    return adj


def apa_adj(colsets):
    """adjacency bit-sets of the graph of M + M^T (off-diagonal), M square"""
    n = len(colsets)
    adj = [0] * n
    for j, s in enumerate(colsets):
        r = 0
        t = s
        while t:
            if t & 1 and r != j and r < n:
                adj[j] |= 1 << r
                adj[r] |= 1 << j
            t >>= 1
            r += 1
    return adj


def etree_of_adj(adj):
    """elimination game on the graph; parent[j] = least i>j adjacent to j in the filled graph, n if none.
    Also returns the column counts of the Cholesky factor (including the diagonal)."""
    n = len(adj)
    adj = list(adj)
    parent = [n] * n
    cnt = [1] * n
    for k in range(n):
        hi = (adj[k] >> (k + 1)) << (k + 1)
        if hi:
            parent[k] = (hi & -hi).bit_length() - 1
            cnt[k] = 1 + bin(hi).count("1")
            t = hi
            while t:
                low = t & -t
                i = low.bit_length() - 1
                adj[i] |= hi & ~low
                t ^= low
    return parent, cnt


def ref_coletree(m, colsets):
    return etree_of_adj(ata_adj(colsets, m))[0]


def ref_symetree(colsets):
    return etree_of_adj(apa_adj(colsets))[0]


def forest_ok(parent, n):
    return len(parent) == n and all(j < parent[j] <= n for j in range(n))


def postordered_ok(parent, n):
    """j < parent[j] <= n and every subtree is a contiguous index range ending at its root"""
    if not forest_ok(parent, n):
        return False
    sz = [1] * (n + 1)
    fd = list(range(n + 1))
    for j in range(n):          # children have smaller numbers than parents: one upward sweep suffices
        p = parent[j]
        sz[p] += sz[j]
        fd[p] = min(fd[p], fd[j])
    return all(fd[j] == j - sz[j] + 1 for j in range(n))


def block_partition_ok(part, n):
    """part[k] = size of the block starting at k, 0 elsewhere; blocks tile 0..n-1"""
    if len(part) != n:
        return False
    k = 0
    while k < n:
        s = part[k]
        if s < 1 or k + s > n:
            return False
        if any(part[t] != 0 for t in range(k + 1, k + s)):
            return False
        k += s
    return True


def is_postorder_of(post, tree, n):
    """post (n entries, a permutation) lists every child before its parent and keeps subtrees contiguous:
    i.e. renumbering `tree` by post gives a postordered_ok tree"""
    if not is_perm(post, n):
        return False
    t2 = [None] * n
    for i in range(n):
        t2[post[i]] = n if tree[i] == n else post[tree[i]]
    return postordered_ok(t2, n)


def householder_colcnt(m, n, colsets, etree):
    """column counts of the Householder matrix H for a square matrix with zero-free diagonal
    (George, Liu & Ng): row i of H is the etree path from fnz(i) (first nonzero column of row i) up to i.
    Returns None when not applicable (some row has no nonzero or fnz(i) does not reach i)."""
    if m != n:
        return None
    fnz = [None] * m
    for j in range(n):
        s = colsets[j]
        r = 0
        while s:
            if s & 1 and fnz[r] is None:
                fnz[r] = j
            s >>= 1
            r += 1
    cnt = [0] * n
    for i in range(m):
        if fnz[i] is None:
            return None
        k = fnz[i]
        while True:
            if k > i or k >= n:
                return None
            cnt[k] += 1
            if k == i:
                break
            k = etree[k]
    return cnt


def all_patterns(m, n):
    """every m x n 0/1 pattern as duplicate-free CSC with increasing row indices"""
    for bits in range(1 << (m * n)):
        colptr, rowind = [0], []
        for j in range(n):
            for i in range(m):
                if (bits >> (j * m + i)) & 1:
                    rowind.append(i)
            colptr.append(len(rowind))
        yield bits, colptr, rowind
