/* C10 finding: sp_colorder() on a matrix with n = 0 columns writes part_super_h[0] (and the internal
 * part_super_ata[0]) although the arrays have 0 entries. */
#include <stdio.h>
#include <stdlib.h>
#include "slu_mt_ddefs.h"

int main(void)
{
    int_t colptr[1] = {0};
    int_t rowind[1] = {0};
    double nzval[1] = {0.0};
    int_t guard[4] = {111, 222, 333, 444};          /* stand-ins for "the memory after the 0-length arrays" */
    SuperMatrix A, AC;
    superlumt_options_t opt;
    int sym;
    for (sym = 0; sym <= 1; ++sym) {
        dCreate_CompCol_Matrix(&A, 0, 0, 0, nzval, rowind, colptr, SLU_NC, SLU_D, SLU_GE);
        opt.refact = NO; opt.SymmetricMode = sym ? YES : NO;
        opt.etree = &guard[0]; opt.colcnt_h = &guard[1]; opt.part_super_h = &guard[2];   /* n = 0: no entry may be written */
        guard[2] = 333;
        sp_colorder(&A, &guard[3], &opt, &AC);
        printf("SymmetricMode=%d: memory behind the empty part_super_h: %d (expected 333, untouched)\n", sym, (int) guard[2]);
    }
    return 0;
}
