/* C20-descriptor-grammar reproducer: links only SRC/dreadhb.c of SuperLU_MT */
#include <stdio.h>
#include <stdlib.h>
#include "slu_mt_ddefs.h"
void dallocateA(int_t n, int_t nnz, double **a, int_t **asub, int_t **xa)
{ *a = malloc(sizeof(double) * (nnz + 1)); *asub = malloc(sizeof(int_t) * (nnz + 1)); *xa = malloc(sizeof(int_t) * (n + 2)); }
int main(void)
{
    int_t m, n, nnz, *asub, *xa; double *a; int i;
    dreadhb(&m, &n, &nnz, &a, &asub, &xa);       /* reads stdin */
    fprintf(stderr, "m=%d n=%d nnz=%d values:", (int) m, (int) n, (int) nnz);
    for (i = 0; i < nnz; i++) fprintf(stderr, " %.8g", a[i]);
    fprintf(stderr, "\n");
    return 0;
}
