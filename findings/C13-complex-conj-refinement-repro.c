/* Reproducer for finding C13-zgsrfs-conj-residual:
 * pzgssvx(trans = CONJ) on a 3x3 complex system returns info = 0 and an X that is not a solution of
 * A**H X = B; berr/ferr are computed for another system (A**T).  Two causes:
 *   (a) SRC/zsp_blas2.c:109  sp_ztrsv rejects trans = "C" in its argument check although the routine has a
 *       conjugate-transpose branch (line 318-) and zgstrs.c:303-306 calls it with "C"  -> no solve is done;
 *   (b) SRC/zgsrfs.c:217     transc = 'T' for every trans != NOTRANS: the residual B - A**T X is used for CONJ. */
#include <stdio.h>
#include <stdlib.h>
#include <math.h>
#include <complex.h>
#include "slu_mt_zdefs.h"

int main(void)
{
    double complex A[3][3] = { { 2 + 1*I, 1*I, 0 }, { 1 - 1*I, 3, 2*I }, { 0, 1 + 1*I, 4 - 1*I } };
    double complex xt[3] = { 1 + 1*I, 2 - 1*I, -1 + 3*I }, bb[3];
    int n = 3, nnz = 0, i, j;
    doublecomplex *a = doublecomplexMalloc(9), *b = doublecomplexMalloc(3), *x = doublecomplexMalloc(3);
    int_t *asub = intMalloc(9), *xa = intMalloc(4), *perm_c = intMalloc(3), *perm_r = intMalloc(3);
    SuperMatrix As, L, U, B, X;
    superlumt_options_t o; superlu_memusage_t mu; equed_t equed = NOEQUIL;
    double R[3], C[3], ferr[1], berr[1], rpg, rcond, err = 0, res = 0, den = 0; int_t info;

    for (i = 0; i < n; ++i) { bb[i] = 0; for (j = 0; j < n; ++j) bb[i] += conj(A[j][i]) * xt[j]; }   /* b = A**H xt */
    for (j = 0; j < n; ++j) { xa[j] = nnz; for (i = 0; i < n; ++i) if (A[i][j] != 0) { a[nnz].r = creal(A[i][j]); a[nnz].i = cimag(A[i][j]); asub[nnz++] = i; } }
    xa[n] = nnz;
    for (i = 0; i < n; ++i) { b[i].r = creal(bb[i]); b[i].i = cimag(bb[i]); perm_c[i] = i; }
    zCreate_CompCol_Matrix(&As, n, n, nnz, a, asub, xa, SLU_NC, SLU_Z, SLU_GE);
    zCreate_Dense_Matrix(&B, n, 1, b, n, SLU_DN, SLU_Z, SLU_GE);
    zCreate_Dense_Matrix(&X, n, 1, x, n, SLU_DN, SLU_Z, SLU_GE);
    o.nprocs = 1; o.fact = DOFACT; o.trans = CONJ; o.refact = NO; o.panel_size = sp_ienv(1); o.relax = sp_ienv(2);
    o.usepr = NO; o.drop_tol = 0; o.diag_pivot_thresh = 1.0; o.SymmetricMode = NO; o.PrintStat = NO;
    o.perm_c = perm_c; o.perm_r = perm_r; o.work = NULL; o.lwork = 0;
    o.etree = intMalloc(n); o.colcnt_h = intMalloc(n); o.part_super_h = intMalloc(n);
    pzgssvx(1, &o, &As, perm_c, perm_r, &equed, R, C, &L, &U, &B, &X, &rpg, &rcond, ferr, berr, &mu, &info);

    printf("\ninfo = %d   berr = %.3e   ferr = %.3e\n", (int) info, berr[0], ferr[0]);
    for (i = 0; i < n; ++i) {
        double complex xi = x[i].r + x[i].i * I, ri = bb[i]; double di = cabs(bb[i]);
        printf("  X[%d] = %9.4f %+9.4fi     exact %4.1f %+4.1fi\n", i, x[i].r, x[i].i, creal(xt[i]), cimag(xt[i]));
        if (cabs(xi - xt[i]) > err) err = cabs(xi - xt[i]);
        for (j = 0; j < n; ++j) { double complex xj = x[j].r + x[j].i * I; ri -= conj(A[j][i]) * xj; di += cabs(A[j][i]) * cabs(xj); }
        if (di > 0 && cabs(ri) / di > res) res = cabs(ri) / di;
    }
    printf("true componentwise backward error of the returned X for A**H X = B : %.3e   (reported berr %.3e)\n", res, berr[0]);
    if (err > 1e-8) { printf("FAIL: info = 0 but X is wrong (max error %.3e)\n", err); return 1; }
    printf("ok\n");
    return 0;
}
