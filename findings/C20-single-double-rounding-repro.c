/* C20-single-double-rounding reproducer: links only SRC/sreadhb.c of SuperLU_MT */
#include <stdio.h>
#include <stdlib.h>
#include "slu_mt_sdefs.h"
void sallocateA(int_t n, int_t nnz, float **a, int_t **asub, int_t **xa)
{ *a = malloc(sizeof(float) * (nnz + 1)); *asub = malloc(sizeof(int_t) * (nnz + 1)); *xa = malloc(sizeof(int_t) * (n + 2)); }
int main(void)
{
    int_t m, n, nnz, *asub, *xa; float *a, f;
    /* 1 + 5*2^-24 + 1e-29: just above the midpoint of the floats 0x3f800002 and 0x3f800003 */
    const char *txt = "1.00000029802322387695312500001";
    sreadhb(&m, &n, &nnz, &a, &asub, &xa);       /* reads stdin */
    f = strtof(txt, NULL);
    fprintf(stderr, "sreadhb                    : %.9g (bits %08x)\n", a[0], *(unsigned *) &a[0]);
    fprintf(stderr, "strtof (nearest float)     : %.9g (bits %08x)\n", f, *(unsigned *) &f);
    return a[0] == f ? 0 : 1;
}
