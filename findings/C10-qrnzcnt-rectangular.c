/* C10 finding: sp_colorder() on a matrix with more rows than columns (m > n).
 * qrnzcnt() indexes neqns-sized arrays (rowcnt, fnz = set, firstset, rowcnt_h, level, etpar) and the
 * (n+1)-sized zfdperm array by ROW index. */
#include <stdio.h>
#include <stdlib.h>
#include "slu_mt_ddefs.h"

int main(int argc, char **argv)
{
    /* m x 2, both columns dense; default m = 6, try also m = 100000 without a sanitizer */
    int_t m = argc > 1 ? atoi(argv[1]) : 6, n = 2, nnz = 2 * m, i;
    int_t colptr[3] = {0, m, 2 * m};
    int_t *rowind = intMalloc(nnz);
    double *nzval = doubleMalloc(nnz);
    int_t *perm_c = intMalloc(n), *etree = intMalloc(n), *colcnt_h = intMalloc(n), *part_super_h = intMalloc(n);
    SuperMatrix A, AC;
    superlumt_options_t opt;

    for (i = 0; i < nnz; ++i) { nzval[i] = 1.0 + i; rowind[i] = i % m; }
    dCreate_CompCol_Matrix(&A, m, n, nnz, nzval, rowind, colptr, SLU_NC, SLU_D, SLU_GE);
    get_perm_c(NATURAL, &A, perm_c);
    opt.refact = NO; opt.SymmetricMode = NO;
    opt.etree = etree; opt.colcnt_h = colcnt_h; opt.part_super_h = part_super_h;
    sp_colorder(&A, perm_c, &opt, &AC);
    printf("perm_c = %d %d  etree = %d %d  colcnt_h = %d %d  part_super_h = %d %d\n",
           (int) perm_c[0], (int) perm_c[1], (int) etree[0], (int) etree[1],
           (int) colcnt_h[0], (int) colcnt_h[1], (int) part_super_h[0], (int) part_super_h[1]);
    return 0;
}
