#!/bin/sh
# usage: sh build.sh [repo]      (default /repo); builds ./libslu_repro.a and ./c13_zgsrfs_conj_repro
R=${1:-/repo}
set -e
mkdir -p obj && cd obj
for f in $R/SRC/*.c; do gcc -O2 -w -D__PTHREAD -DAdd_ -I$R/SRC -c $f & done; wait
for f in $R/CBLAS/*.c; do case $f in *myblas2.c) ;; *) gcc -O2 -w -DAdd_ -I$R/CBLAS -I$R/SRC -c $f & ;; esac; done; wait
cd .. && rm -f libslu_repro.a && ar rcs libslu_repro.a obj/*.o
gcc -O2 -w -D__PTHREAD -DAdd_ -I$R/SRC c13_zgsrfs_conj_repro.c libslu_repro.a -lm -lpthread -o c13_zgsrfs_conj_repro
