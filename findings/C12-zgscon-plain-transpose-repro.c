/* Reproducer for finding C12-zgscon-plain-transpose:
 * pzgssvx/zgscon over-estimate rcond for complex matrices because the KASE=2 request of zlacon_
 * (multiply by the CONJUGATE transpose) is served with the plain transpose.
 * Expected (property C12):  1/(||A||_1 ||inv(A)||_1) <= rcond <= 1/(||A||_1 ||inv(A) e/n||_1). */
#include <stdio.h>
#include <stdlib.h>
#include <math.h>
#include <complex.h>
#include "slu_mt_zdefs.h"

static double norm1(double complex M[3][3]) { double m = 0; for (int j = 0; j < 3; ++j) { double s = 0; for (int i = 0; i < 3; ++i) s += cabs(M[i][j]); if (s > m) m = s; } return m; }

int main(void)
{
    /* A = [ 3+3i  4+4i  -1+i ;  0  -4+3i  1+i ;  -i  4-4i  -4-2i ]  (Gaussian integers) */
    double complex A[3][3] = { { 3 + 3*I, 4 + 4*I, -1 + 1*I }, { 0, -4 + 3*I, 1 + 1*I }, { -1*I, 4 - 4*I, -4 - 2*I } };
    double complex Inv[3][3], det;
    int n = 3, nnz = 0, i, j;
    doublecomplex *a = doublecomplexMalloc(9), *b = doublecomplexMalloc(3), *x = doublecomplexMalloc(3);
    int_t *asub = intMalloc(9), *xa = intMalloc(4), *perm_c = intMalloc(3), *perm_r = intMalloc(3);
    SuperMatrix As, L, U, B, X;
    superlumt_options_t o; superlu_memusage_t mu; equed_t equed = NOEQUIL;
    double R[3], C[3], ferr[1], berr[1], rpg, rcond; int_t info;

    for (j = 0; j < n; ++j) { xa[j] = nnz; for (i = 0; i < n; ++i) if (A[i][j] != 0) { a[nnz].r = creal(A[i][j]); a[nnz].i = cimag(A[i][j]); asub[nnz++] = i; } }
    xa[n] = nnz;
    for (i = 0; i < n; ++i) { b[i].r = 1; b[i].i = 0; perm_c[i] = i; }
    zCreate_CompCol_Matrix(&As, n, n, nnz, a, asub, xa, SLU_NC, SLU_Z, SLU_GE);
    zCreate_Dense_Matrix(&B, n, 1, b, n, SLU_DN, SLU_Z, SLU_GE);
    zCreate_Dense_Matrix(&X, n, 1, x, n, SLU_DN, SLU_Z, SLU_GE);
    o.nprocs = 1; o.fact = DOFACT; o.trans = NOTRANS; o.refact = NO; o.panel_size = sp_ienv(1); o.relax = sp_ienv(2);
    o.usepr = NO; o.drop_tol = 0; o.diag_pivot_thresh = 1.0; o.SymmetricMode = NO; o.PrintStat = NO;
    o.perm_c = perm_c; o.perm_r = perm_r; o.work = NULL; o.lwork = 0;
    o.etree = intMalloc(n); o.colcnt_h = intMalloc(n); o.part_super_h = intMalloc(n);
    pzgssvx(1, &o, &As, perm_c, perm_r, &equed, R, C, &L, &U, &B, &X, &rpg, &rcond, ferr, berr, &mu, &info);

    /* reference: inverse by the adjugate (3x3), complex double */
    det = A[0][0]*(A[1][1]*A[2][2]-A[1][2]*A[2][1]) - A[0][1]*(A[1][0]*A[2][2]-A[1][2]*A[2][0]) + A[0][2]*(A[1][0]*A[2][1]-A[1][1]*A[2][0]);
    for (i = 0; i < 3; ++i) for (j = 0; j < 3; ++j) {
        int r0 = (j+1)%3, r1 = (j+2)%3, c0 = (i+1)%3, c1 = (i+2)%3;      /* cofactor of (j,i), cyclic => sign included */
        Inv[i][j] = (A[r0][c0]*A[r1][c1] - A[r0][c1]*A[r1][c0]) / det;
    }
    {
        double an = norm1(A), ain = norm1(Inv), first = 0;
        for (i = 0; i < 3; ++i) first += cabs((Inv[i][0] + Inv[i][1] + Inv[i][2]) / 3.0);
        printf("\ninfo = %d\nrcond returned by pzgssvx      = %.6f\n", (int) info, rcond);
        printf("1/(||A||_1 ||inv A||_1)        = %.6f   (true reciprocal condition number)\n", 1.0 / (an * ain));
        printf("1/(||A||_1 ||inv(A) e/n||_1)   = %.6f   (upper bound guaranteed by the first iterate of the estimator)\n", 1.0 / (an * first));
        if (rcond > 1.000001 / (an * first)) { printf("FAIL: rcond exceeds the upper bound by a factor %.3f\n", rcond * an * first); return 1; }
        printf("ok\n");
    }
    return 0;
}
