(* ReaderMtProofs.v -- round trip of the ?readmt column-list format (C20) *)
From Coq Require Import ZArith List Bool Lia ZifyBool.
From SLU Require Import ReaderModel ReaderProofs.
Import ListNotations.
Local Open Scope Z_scope.

(* ================================================================== ?readmt column list *)
Lemma skip_ws_idem : forall l, skip_ws (skip_ws l) = skip_ws l.
Proof.
  induction l as [|c l IH]; [reflexivity|]. cbn [skip_ws]. destruct (is_space c) eqn:E; [exact IH|].
  cbn [skip_ws]. rewrite E. reflexivity.
Qed.

Lemma scan_int_ws : forall s1 s2, skip_ws s1 = skip_ws s2 -> scan_int s1 = scan_int s2.
Proof. intros s1 s2 H. unfold scan_int. rewrite H. reflexivity. Qed.

Lemma scanf_d_ws : forall s1 s2, skip_ws s1 = skip_ws s2 -> scanf_d s1 = scanf_d s2.
Proof. intros s1 s2 H. unfold scanf_d. rewrite (scan_int_ws s1 s2 H). reflexivity. Qed.

Lemma scanf_d_dec : forall k x c r,
  0 <= x <= INT_MAX -> is_digit c = false ->
  scanf_d (blanks k ++ dec_digits x ++ c :: r) = Ok (x, c :: r).
Proof.
  intros k x c r Hx Hc. unfold scanf_d.
  destruct (dec_digits_spec x ltac:(lia)) as (H1 & H2 & H3).
  rewrite scan_int_digits by (auto; exact Hc).
  destruct (dec_digits x) as [|d0 ds] eqn:Ed; [congruence|]. cbn [is_nil negb].
  rewrite H2, in_int_of_bounds by assumption. reflexivity.
Qed.

Lemma split_line_app : forall a rest, ~ In 10 a -> split_line (a ++ 10 :: rest) = Ok (a, rest).
Proof.
  induction a as [|c a IH]; intros rest Hn.
  - reflexivity.
  - cbn [app split_line].
    assert (E : (c =? 10) = false). { apply Z.eqb_neq. intro; subst. apply Hn. left; reflexivity. }
    rewrite E, IH; [reflexivity|]. intro Hin. apply Hn. right; assumption.
Qed.

Lemma print_mt_val_shape : forall neg mant ex, 0 <= mant ->
  exists ds ed, print_mt_val (neg, mant, ex) = sgn_text neg ++ ds ++ 69 :: esign_char (ex <? 0) :: ed
    /\ all_digits ds /\ ds <> [] /\ val_digits ds = mant /\ all_digits ed /\ ed <> [] /\ val_digits ed = Z.abs ex.
Proof.
  intros neg mant ex Hm. destruct (dec_digits_spec mant Hm) as (H1 & H2 & H3).
  destruct (exp_text_shape 69 ex) as (ed & E1 & E2 & E3 & E4).
  exists (dec_digits mant), ed. unfold print_mt_val. rewrite E1. fold (sgn_text neg). auto 10.
Qed.

Lemma scanf_f_mt : forall neg mant ex c r,
  0 <= mant -> is_digit c = false ->
  scanf_f (32 :: print_mt_val (neg, mant, ex) ++ c :: r) = Ok ((neg, mant, ex), c :: r).
Proof.
  intros neg mant ex c r Hm Hc.
  destruct (print_mt_val_shape neg mant ex Hm) as (ds & ed & E & Hds & Hdsn & Hdv & Hed & Hedn & Hev).
  rewrite E. unfold scanf_f, scan_float.
  change (32 :: ?l) with (blanks 1 ++ l). rewrite skip_ws_blanks.
  destruct ds as [|d0 ds']; [congruence|]. inversion Hds as [|? ? Hd0 Hds']; subst.
  repeat rewrite <- app_assoc. cbn [app].
  rewrite skip_ws_sgn, scan_sign_sgn by assumption.
  rewrite (not_special_digits d0 ds' (69 :: esign_char (ex <? 0) :: ed ++ c :: r)); try assumption; try reflexivity.
  change (d0 :: ds' ++ 69 :: esign_char (ex <? 0) :: ed ++ c :: r)
    with ((d0 :: ds') ++ 69 :: esign_char (ex <? 0) :: ed ++ c :: r).
  rewrite span_digits_app; [|assumption|reflexivity].
  change (69 =? 46) with false. cbn iota. cbn [is_nil andb]. change (is_e 69) with true. cbn iota.
  assert (Es : scan_sign (esign_char (ex <? 0) :: ed ++ c :: r) = (ex <? 0, ed ++ c :: r))
    by (destruct (ex <? 0); reflexivity).
  rewrite Es. rewrite span_digits_app; [|assumption|exact Hc].
  destruct ed as [|e0 ed']; [congruence|]. cbn [is_nil].
  change (0 =? 0) with true. cbn iota.
  rewrite app_nil_r, Hev. cbn [length]. do 3 f_equal.
  destruct (ex <? 0) eqn:Ex; lia.
Qed.

Definition vmult (cplx : bool) : nat := if cplx then 2%nat else 1%nat.

Lemma skip_ws_nl : forall l, skip_ws (10 :: l) = skip_ws l.
Proof. reflexivity. Qed.

Lemma mt_items_print : forall cplx rows vs s R lasta nonz,
  length vs = (vmult cplx * length rows)%nat ->
  Forall (fun r => 0 <= r /\ r + 1 <= INT_MAX) rows ->
  Forall (fun v : dec => 0 <= snd (fst v)) vs ->
  0 <= lasta -> lasta + Z.of_nat (length rows) <= nonz ->
  skip_ws s = skip_ws (print_mt_items cplx rows vs ++ R) ->
  exists s', mt_items cplx (length rows) s lasta nonz = Ok (rows, vs, s', lasta + Z.of_nat (length rows))
             /\ skip_ws s' = skip_ws R.
Proof.
  intros cplx. induction rows as [|r rows IH]; intros vs s R lasta nonz Hlen Hrows Hvs Hl0 Hln Hs.
  - destruct vs; [|destruct cplx; cbn in Hlen; lia].
    exists s. split; [cbn [mt_items length]; do 2 f_equal; cbn; lia|exact Hs].
  - inversion Hrows as [|? ? [Hr0 Hr1] Hrows']; subst.
    cbn [length] in *. cbn [mt_items].
    assert (E0 : (nonz <=? lasta) = false) by lia. rewrite E0.
    destruct cplx.
    + (* complex: two reals per item *)
      destruct vs as [|[[n1 m1] e1] [|[[n2 m2] e2] vs']]; try (cbn in Hlen; lia).
      inversion Hvs as [|? ? Hv1 Hvs1]; subst. inversion Hvs1 as [|? ? Hv2 Hvs2]; subst. cbn [fst snd] in *.
      cbn [print_mt_items take_vals] in Hs. repeat rewrite <- app_assoc in Hs. cbn [app] in Hs.
      rewrite (scanf_d_ws _ _ Hs).
      change (dec_digits (r + 1) ++ 32 :: ?t) with (blanks 0 ++ dec_digits (r + 1) ++ 32 :: t).
      rewrite scanf_d_dec by (try reflexivity; lia). cbn [bind].
      rewrite scanf_f_mt by (try reflexivity; assumption). cbn [bind].
      rewrite scanf_f_mt by (try reflexivity; assumption). cbn [bind].
      assert (E1 : in_int (r + 1 - 1) = true) by (apply in_int_of_bounds; lia). rewrite E1.
      destruct (IH vs' (skip_ws (10 :: print_mt_items true rows vs' ++ R)) R (lasta + 1) nonz) as (s' & Hm & Hs');
        try assumption; try lia.
      { cbn [vmult] in *. cbn in Hlen. lia. }
      { rewrite skip_ws_idem. apply skip_ws_nl. }
      exists s'. split; [|exact Hs'].
      rewrite Hm. cbn [bind app].
      replace (r + 1 - 1) with r by lia.
      replace (lasta + 1 + Z.of_nat (length rows)) with (lasta + Z.of_nat (S (length rows))) by lia. reflexivity.
    + destruct vs as [|[[n1 m1] e1] vs']; try (cbn in Hlen; lia).
      inversion Hvs as [|? ? Hv1 Hvs1]; subst. cbn [fst snd] in *.
      cbn [print_mt_items take_vals] in Hs. repeat rewrite <- app_assoc in Hs. cbn [app] in Hs.
      rewrite (scanf_d_ws _ _ Hs).
      change (dec_digits (r + 1) ++ 32 :: ?t) with (blanks 0 ++ dec_digits (r + 1) ++ 32 :: t).
      rewrite scanf_d_dec by (try reflexivity; lia). cbn [bind].
      rewrite scanf_f_mt by (try reflexivity; assumption). cbn [bind].
      assert (E1 : in_int (r + 1 - 1) = true) by (apply in_int_of_bounds; lia). rewrite E1.
      destruct (IH vs' (skip_ws (10 :: print_mt_items false rows vs' ++ R)) R (lasta + 1) nonz) as (s' & Hm & Hs');
        try assumption; try lia.
      { cbn [vmult] in *. cbn in Hlen. lia. }
      { rewrite skip_ws_idem. apply skip_ws_nl. }
      exists s'. split; [|exact Hs'].
      rewrite Hm. cbn [bind app].
      replace (r + 1 - 1) with r by lia.
      replace (lasta + 1 + Z.of_nat (length rows)) with (lasta + Z.of_nat (S (length rows))) by lia. reflexivity.
Qed.

Fixpoint cp_ok (cp : list Z) : bool :=
  match cp with
  | p0 :: ((p1 :: _) as r) => (p0 <=? p1) && cp_ok r
  | _ => true
  end.

Lemma last_cons2 : forall (a b : Z) l d, last (a :: b :: l) d = last (b :: l) d.
Proof. reflexivity. Qed.

Lemma last_default : forall (l : list Z) d1 d2, l <> [] -> last l d1 = last l d2.
Proof.
  induction l as [|a l IH]; intros d1 d2 H; [congruence|].
  destruct l as [|b l']; [reflexivity|]. rewrite !last_cons2. apply IH. discriminate.
Qed.

Lemma cp_ok_last : forall rest p0, cp_ok (p0 :: rest) = true -> p0 <= last (p0 :: rest) p0.
Proof.
  induction rest as [|p1 rest IH]; intros p0 H.
  - cbn. lia.
  - cbn [cp_ok] in H. apply andb_true_iff in H. destruct H as [H1 H2].
    rewrite last_cons2. rewrite (last_default (p1 :: rest) p0 p1) by discriminate.
    specialize (IH p1 H2). lia.
Qed.

Lemma kv_eq : forall (cplx : bool) (k : nat), (if cplx then (2 * k)%nat else k) = (vmult cplx * k)%nat.
Proof. intros [] k; unfold vmult; lia. Qed.

Lemma print_mt_cols_cons : forall cplx p0 p1 rest rows vs,
  print_mt_cols cplx (p0 :: p1 :: rest) rows vs
  = dec_digits (p1 - p0) ++ [10]
    ++ print_mt_items cplx (firstn (Z.to_nat (p1 - p0)) rows)
         (firstn (if cplx then (2 * Z.to_nat (p1 - p0))%nat else Z.to_nat (p1 - p0)) vs)
    ++ print_mt_cols cplx (p1 :: rest) (skipn (Z.to_nat (p1 - p0)) rows)
         (skipn (if cplx then (2 * Z.to_nat (p1 - p0))%nat else Z.to_nat (p1 - p0)) vs).
Proof. reflexivity. Qed.

Lemma print_mt_items_length : forall cplx rows vs, (length rows <= length (print_mt_items cplx rows vs))%nat.
Proof.
  intros cplx. induction rows as [|r rows IH]; intros vs; [cbn; lia|].
  cbn [print_mt_items]. destruct (take_vals cplx vs) as [vt vs'].
  repeat rewrite app_length. cbn [length]. specialize (IH vs'). lia.
Qed.

Lemma print_mt_cols_length : forall cplx rest p0 rows vs,
  cp_ok (p0 :: rest) = true -> Z.of_nat (length rows) = last (p0 :: rest) p0 - p0 ->
  Z.of_nat (length rest) + (last (p0 :: rest) p0 - p0)
  <= Z.of_nat (length (print_mt_cols cplx (p0 :: rest) rows vs)).
Proof.
  intros cplx. induction rest as [|p1 rest IH]; intros p0 rows vs Hcp Hlen.
  - cbn. lia.
  - cbn [cp_ok] in Hcp. apply andb_true_iff in Hcp. destruct Hcp as [H1 H2].
    pose proof (cp_ok_last rest p1 H2) as Hl.
    rewrite last_cons2 in *. rewrite (last_default (p1 :: rest) p0 p1) in * by discriminate.
    rewrite print_mt_cols_cons. repeat rewrite app_length. cbn [length].
    set (k := Z.to_nat (p1 - p0)).
    pose proof (print_mt_items_length cplx (firstn k rows) (firstn (if cplx then (2 * k)%nat else k) vs)) as Hi.
    rewrite firstn_length in Hi.
    specialize (IH p1 (skipn k rows) (skipn (if cplx then (2 * k)%nat else k) vs) H2).
    rewrite skipn_length in IH. specialize (IH ltac:(lia)).
    unfold k in *. lia.
Qed.

Lemma mt_cols_print : forall cplx rest p0 rows vs s R nonz cap,
  cp_ok (p0 :: rest) = true -> 0 <= p0 ->
  Z.of_nat (length rows) = last (p0 :: rest) p0 - p0 ->
  length vs = (vmult cplx * length rows)%nat ->
  Forall (fun r => 0 <= r /\ r + 1 <= INT_MAX) rows ->
  Forall (fun v : dec => 0 <= snd (fst v)) vs ->
  last (p0 :: rest) p0 <= nonz -> last (p0 :: rest) p0 - p0 <= cap -> last (p0 :: rest) p0 <= INT_MAX ->
  skip_ws s = skip_ws (print_mt_cols cplx (p0 :: rest) rows vs ++ R) ->
  mt_cols cplx (length rest) s p0 nonz cap = Ok (removelast (p0 :: rest), rows, vs, last (p0 :: rest) p0).
Proof.
  intros cplx. induction rest as [|p1 rest IH]; intros p0 rows vs s R nonz cap Hcp Hp0 Hlen Hvl Hrows Hvs Hnz Hcap Hmax Hs.
  - cbn in Hlen. assert (rows = []) by (destruct rows; [reflexivity|cbn in Hlen; lia]). subst rows.
    assert (vs = []) by (destruct vs; [reflexivity|cbn in Hvl; lia]). subst vs. reflexivity.
  - pose proof Hcp as Hcp0.
    cbn [cp_ok] in Hcp. apply andb_true_iff in Hcp. destruct Hcp as [H1 H2].
    pose proof (cp_ok_last rest p1 H2) as Hl.
    rewrite last_cons2 in *. rewrite (last_default (p1 :: rest) p0 p1) in * by discriminate.
    cbn [length mt_cols].
    rewrite print_mt_cols_cons in Hs. rewrite kv_eq in Hs. repeat rewrite <- app_assoc in Hs. cbn [app] in Hs.
    set (k := Z.to_nat (p1 - p0)) in *.
    rewrite (scanf_d_ws _ _ Hs).
    change (dec_digits (p1 - p0) ++ 10 :: ?t) with (blanks 0 ++ dec_digits (p1 - p0) ++ 10 :: t).
    rewrite scanf_d_dec by (try reflexivity; lia). cbn [bind].
    replace (Z.to_nat (Z.min (p1 - p0) cap)) with k by (unfold k; lia).
    assert (Hk : k = length (firstn k rows)) by (rewrite firstn_length; unfold k; lia).
    rewrite Hk at 1.
    destruct (mt_items_print cplx (firstn k rows) (firstn (vmult cplx * k) vs)
                (10 :: print_mt_items cplx (firstn k rows) (firstn (vmult cplx * k) vs)
                       ++ print_mt_cols cplx (p1 :: rest) (skipn k rows) (skipn (vmult cplx * k) vs) ++ R)
                (print_mt_cols cplx (p1 :: rest) (skipn k rows) (skipn (vmult cplx * k) vs) ++ R)
                p0 nonz) as (s' & Hm & Hs').
    { repeat rewrite firstn_length. rewrite Hvl. unfold k. destruct cplx; unfold vmult; lia. }
    { apply Forall_firstn. assumption. }
    { apply Forall_firstn. assumption. }
    { assumption. }
    { rewrite <- Hk. unfold k. lia. }
    { apply skip_ws_nl. }
    rewrite Hm. cbn [bind].
    rewrite <- Hk.
    replace (p0 + Z.of_nat k) with p1 by (unfold k; lia).
    rewrite (IH p1 (skipn k rows) (skipn (vmult cplx * k) vs) s' R nonz cap); try assumption; try lia.
    + cbn [bind]. rewrite !firstn_skipn. reflexivity.
    + rewrite skipn_length. unfold k. lia.
    + repeat rewrite skipn_length. rewrite Hvl. unfold k. destruct cplx; unfold vmult; lia.
    + apply Forall_skipn. assumption.
    + apply Forall_skipn. assumption.
Qed.

Definition mt_ok (cplx : bool) (title : list Z) (M : csc) : bool :=
  no10 title && (length title <? 80)%nat
  && (0 <=? m_nrow M) && (m_nrow M <=? INT_MAX) && (0 <=? m_ncol M) && (m_ncol M <? INT_MAX)
  && (m_nnz M <=? INT_MAX)
  && cp_ok (m_colptr M) && (match m_colptr M with p0 :: _ => p0 =? 0 | [] => false end)
  && (last (m_colptr M) 0 =? m_nnz M) && (Z.of_nat (length (m_colptr M)) =? m_ncol M + 1)
  && forallb (fun r => (0 <=? r) && (r + 1 <=? INT_MAX)) (m_rowind M)
  && forallb (fun v : dec => 0 <=? snd (fst v)) (m_vals M)
  && (length (m_vals M) =? vmult cplx * length (m_rowind M))%nat.

Theorem read_print_roundtrip_mt : forall cplx title M tail,
  mt_ok cplx title M = true ->
  parse_mt cplx (print_mt cplx title M ++ tail)
  = Ok (mkres (m_nrow M) (m_ncol M) (m_nnz M) (m_colptr M) (m_rowind M) true (m_vals M)).
Proof.
  intros cplx title M tail H. unfold mt_ok in H. repeat rewrite andb_true_iff in H.
  destruct H as [[[[[[[[[[[[[Ht Htl] Hr0] Hr1] Hc0] Hc1] Hz1] Hcp] Hp0] Hlast] Hlcp] Hrows] Hvals] Hvl].
  apply no10_spec in Ht. apply Nat.ltb_lt in Htl. apply Nat.eqb_eq in Hvl.
  destruct (m_colptr M) as [|p0 rest] eqn:Ecp; [discriminate|].
  assert (p0 = 0) by lia. subst p0.
  assert (Hnnz0 : 0 <= m_nnz M) by (unfold m_nnz; lia).
  assert (Hrows' : Forall (fun r => 0 <= r /\ r + 1 <= INT_MAX) (m_rowind M)).
  { apply Forall_forall. rewrite forallb_forall in Hrows. intros x Hx. specialize (Hrows x Hx). lia. }
  assert (Hvals' : Forall (fun v : dec => 0 <= snd (fst v)) (m_vals M)).
  { apply Forall_forall. rewrite forallb_forall in Hvals. intros x Hx. specialize (Hvals x Hx). lia. }
  assert (Hlenrows : Z.of_nat (length (m_rowind M)) = last (0 :: rest) 0 - 0) by (unfold m_nnz in Hlast; lia).
  pose proof (print_mt_cols_length cplx rest 0 (m_rowind M) (m_vals M) Hcp Hlenrows) as Hcl.
  unfold parse_mt, print_mt. rewrite Ecp.
  repeat rewrite <- app_assoc. cbn [app].
  rewrite split_line_app by assumption. cbn [bind].
  assert (E80 : (80 <=? Z.of_nat (length title)) = false) by lia. rewrite E80.
  change (dec_digits (m_nrow M) ++ 32 :: ?t) with (blanks 0 ++ dec_digits (m_nrow M) ++ 32 :: t).
  rewrite scanf_d_dec by (try reflexivity; lia). cbn [bind].
  change (32 :: dec_digits (m_ncol M) ++ 32 :: ?t) with (blanks 1 ++ dec_digits (m_ncol M) ++ 32 :: t).
  rewrite scanf_d_dec by (try reflexivity; unfold INT_MAX in *; lia). cbn [bind].
  change (32 :: dec_digits (m_nnz M) ++ 10 :: ?t) with (blanks 1 ++ dec_digits (m_nnz M) ++ 10 :: t).
  rewrite scanf_d_dec by (try reflexivity; lia). cbn [bind].
  set (cols := print_mt_cols cplx (0 :: rest) (m_rowind M) (m_vals M)) in *.
  assert (Ea : alloc_ok (m_ncol M) (m_nnz M) = true) by (unfold alloc_ok; lia).
  rewrite Ea.
  assert (Hlen_s : Z.of_nat (length (10 :: cols ++ tail)) = 1 + Z.of_nat (length cols) + Z.of_nat (length tail)).
  { cbn [length]. rewrite app_length. lia. }
  cbn [length] in Hlcp.
  assert (En : (m_ncol M <=? Z.of_nat (length (10 :: cols ++ tail))) = true) by lia.
  rewrite En. cbn [andb].
  replace (Z.to_nat (m_ncol M)) with (length rest) by lia.
  rewrite (mt_cols_print cplx rest 0 (m_rowind M) (m_vals M) (10 :: cols ++ tail) tail); try assumption; try lia.
  - cbn [bind]. rewrite <- app_removelast_last by discriminate.
    reflexivity.
  - apply skip_ws_nl.
Qed.
