(* NumPerm.v -- the permutation wiring of the simple driver, stated in the user's numbering.
   perm_r[i] is the position of row i of A in Pr*A, perm_c[j] the position of column j in A*Pc^T (SuperLU's convention):
     B (pr i) (pc j) = A i j,   c (pr i) = b i,   x (pc j) = X j.
   gssv_backward: for the user's A, b and the returned X,
     |b - A X|_i <= gamma(3n) * sum_j ( sum_k |L (pr i) k| |U k (pc j)| ) |X_j|
   for any summation order in the factorization and in both substitutions. *)
From Coq Require Import Reals Lra Lia List Permutation.
From SLU Require Import NumBase NumSum NumLU NumSolve.
Import ListNotations.
Local Open Scope R_scope.

Lemma fold_sum_perm (l l' : list R) : Permutation l l' -> fold_right Rplus 0 l = fold_right Rplus 0 l'.
Proof. induction 1 as [|a l l' _ IH|a b l|l l' l'' _ IH1 _ IH2]; simpl; try lra; congruence. Qed.

(* p maps [0,n) injectively into [0,n) *)
Definition perm_on (n : nat) (p : nat -> nat) : Prop :=
  (forall i, (i < n)%nat -> (p i < n)%nat) /\ (forall i j, (i < n)%nat -> (j < n)%nat -> p i = p j -> i = j).

Lemma nodup_map_inj (p : nat -> nat) (l : list nat) :
  NoDup l -> (forall i j, In i l -> In j l -> p i = p j -> i = j) -> NoDup (map p l).
Proof.
  induction 1 as [|a l Ha Hl IH]; intros Hinj; simpl; constructor.
  - intros Hin. apply in_map_iff in Hin. destruct Hin as (b & Eb & Hb).
    assert (b = a) by (apply Hinj; [right; exact Hb | left; reflexivity | exact Eb]). subst b. contradiction.
  - apply IH. intros i j Hi Hj. apply Hinj; right; assumption.
Qed.

Lemma perm_on_seq n p : perm_on n p -> Permutation (map p (seq 0 n)) (seq 0 n).
Proof.
  intros [Hr Hi]. apply NoDup_Permutation_bis.
  - apply nodup_map_inj; [apply seq_NoDup|]. intros i j Hi' Hj'. apply in_seq in Hi', Hj'. apply Hi; lia.
  - rewrite map_length. apply Nat.le_refl.
  - intros a Ha. apply in_map_iff in Ha. destruct Ha as (b & <- & Hb). apply in_seq in Hb. apply in_seq. specialize (Hr b). lia.
Qed.

Lemma bigsum_perm f p n : perm_on n p -> bigsum (fun j => f (p j)) n = bigsum f n.
Proof.
  intros Hp. unfold bigsum. rewrite <- (map_map p f). apply fold_sum_perm. apply Permutation_map. now apply perm_on_seq.
Qed.

Section WIRING.
Variable u : R.
Hypothesis Hu0 : 0 <= u.
Hypothesis Hu1 : u < 1.

Theorem gssv_backward n (A : mat) (b X : nat -> R) (pr pc : nat -> nat) B L U c y x :
  perm_on n pr -> perm_on n pc ->
  (forall i j, (i < n)%nat -> (j < n)%nat -> B (pr i) (pc j) = A i j) ->
  (forall i, (i < n)%nat -> c (pr i) = b i) ->
  (forall j, (j < n)%nat -> X j = x (pc j)) ->
  lu_rel u n B L U -> lsolve_rel u n L c y -> usolve_rel u n U y x -> INR (3 * n) * u < 1 ->
  forall i, (i < n)%nat ->
    Rabs (b i - bigsum (fun j => A i j * X j) n)
    <= gamma u (3 * n) * bigsum (fun j => bigsum (fun k => Rabs (L (pr i) k) * Rabs (U k (pc j))) n * Rabs (X j)) n.
Proof.
  intros Hpr Hpc HB Hc HX HLU HL HU H3 i Hi.
  pose proof (proj1 Hpr i Hi) as Hpi.
  pose proof (solve_backward u Hu0 Hu1 n B L U c y x HLU HL HU H3 (pr i) Hpi) as H.
  rewrite (Hc i Hi) in H.
  rewrite <- (bigsum_perm (fun j => B (pr i) j * x j) pc n Hpc) in H.
  rewrite <- (bigsum_perm (fun j => bigsum (fun k => Rabs (L (pr i) k) * Rabs (U k j)) n * Rabs (x j)) pc n Hpc) in H.
  rewrite (bigsum_ext (fun j => A i j * X j) (fun j => B (pr i) (pc j) * x (pc j))) by (intros j Hj; rewrite HB, HX; auto).
  rewrite (bigsum_ext (fun j => bigsum (fun k => Rabs (L (pr i) k) * Rabs (U k (pc j))) n * Rabs (X j))
                      (fun j => bigsum (fun k => Rabs (L (pr i) k) * Rabs (U k (pc j))) n * Rabs (x (pc j))))
    by (intros j Hj; rewrite HX; auto).
  exact H.
Qed.

End WIRING.

(* the premises are satisfiable: the identity and a transposition are perm_on *)
Example perm_on_swap : perm_on 2 (fun i => (1 - i)%nat).
Proof. split; intros; lia. Qed.
