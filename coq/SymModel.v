(* SymModel.v -- symmetric mode with diagonal pivoting (C16): with threshold 0 and no pivot reuse the diagonal entry is
   the pivot whenever it is nonzero, hence the row permutation equals the column permutation. *)
From Coq Require Import ZArith List Bool Lia.
From SLU Require Import PivotModel PivotProofs.
Import ListNotations.
Local Open Scope Z_scope.

(* threshold u = 0: thresh = 0 * pivmax = 0 *)
Theorem diag_pivot_at_zero_threshold c oldrow diagind d :
  nonneg c -> NoDup (map fst c) -> (d < length c)%nat -> row_at c d = diagind -> mag_at c d <> 0 ->
  let r := pivotL c false oldrow diagind 0 in
  pr_singular r = false /\ pr_row r = diagind /\ pr_ptr r = d.
Proof.
  intros Hn ND Ld Rd Md. cbn zeta.
  assert (Hs : pr_singular (pivotL c false oldrow diagind 0) = false).
  { destruct (pr_singular (pivotL c false oldrow diagind 0)) eqn:E; auto. apply piv_singular_iff in E.
    pose proof (mag_at_le_max c d Hn). pose proof (nonneg_mag_at c d Hn). lia. }
  pose proof (nonneg_mag_at c d Hn).
  destruct (piv_prefers_diagonal c false oldrow diagind 0 d eq_refl ND Hs Ld Rd Md ltac:(lia)) as (A & B & _).
  auto.
Qed.

(* if every column j is pivoted on its diagonal row inv_perm_c[j], the row permutation IS the column permutation *)
Theorem perm_r_equals_perm_c (n : Z) (perm_c perm_r inv_perm_c : Z -> Z) :
  (forall i, 0 <= i < n -> 0 <= perm_c i < n /\ inv_perm_c (perm_c i) = i) ->
  (forall j, 0 <= j < n -> perm_r (inv_perm_c j) = j) ->
  forall i, 0 <= i < n -> perm_r i = perm_c i.
Proof.
  intros Hc Hr i Hi. destruct (Hc i Hi) as [Hrange Hinv].
  rewrite <- Hinv at 1. now apply Hr.
Qed.
