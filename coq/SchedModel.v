(* SchedModel.v -- executable model of the panel scheduler of SuperLU_MT:
     pxgstrf_relax_snode   (SRC/pxgstrf_relax_snode.c)
     ParallelInit          (SRC/pxgstrf_synch.c, SPLIT_TOP defined, DOMAINS undefined)
     pxgstrf_scheduler     (SRC/pxgstrf_scheduler.c, critical section)
   and of the thread loop around it (SRC/p?gstrf_thread.c: while (tasks_remain > 0) { scheduler; work;
   STATE(jcol) = DONE }).  Definitions only -- proofs are in SchedProofs.v.
   Arrays are lists of Z with total read (default 0) / write (identity when out of range); the
   index-safety of every access is a separate theorem (sched_guard / SchedProofs). *)
From Coq Require Import ZArith List Bool Lia.
From SLU Require Import Consts.
Import ListNotations.
Local Open Scope Z_scope.

Definition nthZ (l : list Z) (i : Z) : Z := if i <? 0 then 0 else nth (Z.to_nat i) l 0.
Fixpoint upd_nat (l : list Z) (i : nat) (v : Z) : list Z :=
  match l, i with
  | [], _ => []
  | _ :: t, O => v :: t
  | h :: t, S i' => h :: upd_nat t i' v
  end.
Definition updZ (l : list Z) (i v : Z) : list Z := if i <? 0 then l else upd_nat l (Z.to_nat i) v.
Definition lenZ (l : list Z) : Z := Z.of_nat (length l).
Definition inb (i len : Z) : bool := (0 <=? i) && (i <? len).
Definition cols (n : Z) : list Z := map Z.of_nat (seq 0 (Z.to_nat n)).
Definition countb (f : Z -> bool) (l : list Z) : Z := Z.of_nat (length (filter f l)).

(* ------------------------------------------------------------------------------------------ *)
(* pxgstrf_relax_snode: list of (fcol, size), ascending                                        *)
(* desc[] : number of descendants, n+1 entries *)
Fixpoint desc_loop (etree : list Z) (j : nat) (cnt : nat) (desc : list Z) : list Z :=
  match cnt with
  | O => desc
  | S c => let jz := Z.of_nat j in
           let parent := nthZ etree jz in
           desc_loop etree (S j) c (updZ desc parent (nthZ desc parent + nthZ desc jz + 1))
  end.
Definition desc_of (n : Z) (etree : list Z) : list Z :=
  desc_loop etree 0 (Z.to_nat n) (repeat 0 (Z.to_nat (n + 1))).

(* while ( parent != n && desc[parent] < relax ) { j = parent; parent = etree[j]; } *)
Fixpoint relax_climb (fuel : nat) (n relax : Z) (etree desc : list Z) (j : Z) : Z :=
  match fuel with
  | O => j
  | S f => let parent := nthZ etree j in
           if negb (parent =? n) && (nthZ desc parent <? relax)
           then relax_climb f n relax etree desc parent else j
  end.
(* while ( desc[j] != 0 && j < n ) j++; *)
Fixpoint relax_leaf (fuel : nat) (n : Z) (desc : list Z) (j : Z) : Z :=
  match fuel with
  | O => j
  | S f => if negb (nthZ desc j =? 0) && (j <? n) then relax_leaf f n desc (j + 1) else j
  end.
Fixpoint relax_loop (fuel : nat) (n relax : Z) (etree desc : list Z) (j : Z) : list (Z * Z) :=
  match fuel with
  | O => []
  | S f => if j <? n then
             let last := relax_climb (Z.to_nat n) n relax etree desc j in
             (j, last - j + 1) :: relax_loop f n relax etree desc (relax_leaf (Z.to_nat n + 1) n desc (last + 1))
           else []
  end.
Definition relax_snode (n : Z) (etree : list Z) (relax : Z) : list (Z * Z) :=
  relax_loop (Z.to_nat n + 1) n relax etree (desc_of n etree) 0.

(* ------------------------------------------------------------------------------------------ *)
Record sstate := mkS {
  sn : Z; etree : list Z;
  ptype : list Z; pstate : list Z; psize : list Z; pukids : list Z;   (* n+1 entries each *)
  fb : list Z;                                                        (* n+1 *)
  q : list Z; qhead : Z; qtail : Z; qcount : Z;                       (* n slots *)
  tasks : Z; nsplits : Z;
  spin : list Z                                                       (* n *)
}.

Definition set_pstate s v := mkS (sn s) (etree s) (ptype s) v (psize s) (pukids s) (fb s) (q s) (qhead s) (qtail s) (qcount s) (tasks s) (nsplits s) (spin s).
Definition set_pukids s v := mkS (sn s) (etree s) (ptype s) (pstate s) (psize s) v (fb s) (q s) (qhead s) (qtail s) (qcount s) (tasks s) (nsplits s) (spin s).
Definition set_fb s v := mkS (sn s) (etree s) (ptype s) (pstate s) (psize s) (pukids s) v (q s) (qhead s) (qtail s) (qcount s) (tasks s) (nsplits s) (spin s).
Definition set_queue s qq h t c := mkS (sn s) (etree s) (ptype s) (pstate s) (psize s) (pukids s) (fb s) qq h t c (tasks s) (nsplits s) (spin s).
Definition set_tasks s v := mkS (sn s) (etree s) (ptype s) (pstate s) (psize s) (pukids s) (fb s) (q s) (qhead s) (qtail s) (qcount s) v (nsplits s) (spin s).
Definition set_spin s v := mkS (sn s) (etree s) (ptype s) (pstate s) (psize s) (pukids s) (fb s) (q s) (qhead s) (qtail s) (qcount s) (tasks s) (nsplits s) v.

Definition st (s : sstate) (j : Z) : Z := nthZ (pstate s) j.
Definition sz (s : sstate) (j : Z) : Z := nthZ (psize s) j.
Definition uk (s : sstate) (j : Z) : Z := nthZ (pukids s) j.
(* DADPANEL(j) = etree[j + size[j] - 1] *)
Definition dadpanel (s : sstate) (j : Z) : Z := nthZ (etree s) (j + sz s j - 1).

(* ------------------------------------------------------------------------------------------ *)
(* ParallelInit                                                                                *)
Fixpoint count_kids (etree : list Z) (i : nat) (cnt : nat) (uk : list Z) : list Z :=
  match cnt with
  | O => uk
  | S c => let dad := nthZ etree (Z.of_nat i) in
           count_kids etree (S i) c (updZ uk dad (nthZ uk dad + 1))
  end.

(* for (k = i+1; k < min(i+panel_size, n); ++k) if (k == relax[rs].fcol) { w = k-i; break; }
   if (k == n) w = n - i;     -- returns w *)
Fixpoint scan_relax (fuel : nat) (k lim i n psz rsf : Z) : Z :=
  match fuel with
  | O => if k =? n then n - i else psz
  | S f => if k <? lim then (if k =? rsf then k - i else scan_relax f (k + 1) lim i n psz rsf)
           else (if k =? n then n - i else psz)
  end.
(* for (j = i+1; j < i+w; ++j) if (ukids[j] > 1) break;  w = j - i  *)
Fixpoint scan_branch (fuel : nat) (j lim : Z) (uk : list Z) : Z :=
  match fuel with
  | O => j
  | S f => if j <? lim then (if 1 <? nthZ uk j then j else scan_branch f (j + 1) lim uk) else j
  end.
(* for (j = i; j < i+w; ++j) { size[j] = k--; type[j] = t; ukids += uk[j]; } *)
Fixpoint fill_panel (cnt : nat) (j k t : Z) (tp szs uk : list Z) (acc : Z) : list Z * list Z * Z :=
  match cnt with
  | O => (tp, szs, acc)
  | S c => fill_panel c (j + 1) (k - 1) t (updZ tp j t) (updZ szs j k) uk (acc + nthZ uk j)
  end.

Record pinit := mkPI { pi_tp : list Z; pi_st : list Z; pi_sz : list Z; pi_uk : list Z; pi_fb : list Z;
                       pi_tasks : Z; pi_splits : Z; pi_split : bool }.

Fixpoint panel_loop (fuel : nat) (n psz wtop : Z) (rlx : list (Z * Z)) (i : Z) (a : pinit) : pinit :=
  match fuel with
  | O => a
  | S f =>
    if i <? n then
      let rsf := match rlx with (fc, _) :: _ => fc | [] => n end in
      let '(w, t, stt, rlx', splits', dosplit') :=
        if rsf =? i then
          (match rlx with (_, s) :: _ => s | [] => 1 end, c_RELAXED_SNODE, c_CANGO, tl rlx, pi_splits a, pi_split a)
        else
          let w0 := scan_relax (Z.to_nat psz) (i + 1) (Z.min (i + psz) n) i n psz rsf in
          let ds := pi_split a || (n - i <? psz * 12) in
          let '(w1, sp) := if ds && (wtop <? w0) then (wtop, pi_splits a + 1) else (w0, pi_splits a) in
          let w2 := scan_branch (Z.to_nat w1) (i + 1) (i + w1) (pi_uk a) - i in
          (w2, c_REGULAR_PANEL, c_UNREADY, rlx, sp, ds) in
      let '(tp', sz', ukids) := fill_panel (Z.to_nat w) i 0 t (pi_tp a) (pi_sz a) (pi_uk a) 0 in
      let a' := mkPI tp' (updZ (pi_st a) i stt) (updZ sz' i w) (updZ (pi_uk a) i (ukids - (w - 1)))
                     (updZ (pi_fb a) i i)
                     (if t =? c_REGULAR_PANEL then pi_tasks a + 1 else pi_tasks a) splits' dosplit' in
      panel_loop f n psz wtop rlx' (i + w) a'
    else a
  end.

Definition parallel_init (n : Z) (et : list Z) (psz relax : Z) : sstate :=
  let rlx := relax_snode n et relax in
  let np1 := Z.to_nat (n + 1) in
  let uk0 := count_kids et 0 (Z.to_nat n) (repeat 0 np1) in
  let wtop := if psz / 2 =? 0 then 1 else psz / 2 in
  let a := panel_loop (Z.to_nat n) n psz wtop rlx 0
             (mkPI (repeat 0 np1) (repeat 0 np1) (repeat 0 np1) uk0 (repeat 0 np1) 0 0 false) in
  let m := Z.of_nat (length rlx) in
  mkS n et (pi_tp a) (updZ (pi_st a) n c_UNREADY) (updZ (pi_sz a) n 1) (pi_uk a) (pi_fb a)
      (map fst rlx ++ repeat 0 (Z.to_nat (n - m))) 0 m m
      (pi_tasks a + m) (pi_splits a) (repeat 0 (Z.to_nat n)).

(* ------------------------------------------------------------------------------------------ *)
(* pxgstrf_scheduler, critical section                                                         *)
Definition ERR : Z := -2.      (* fuel exhausted: shown unreachable *)

(* while (1) { if (count <= 0) { jcol = EMPTY; break; }
               jcol = queue[head++]; --count; if (STATE(jcol) >= CANGO) break; } *)
Fixpoint deq (fuel : nat) (s : sstate) : sstate * Z :=
  match fuel with
  | O => (s, ERR)
  | S f => if qcount s <=? 0 then (s, c_EMPTY)
           else let j := nthZ (q s) (qhead s) in
                let s' := set_queue s (q s) (qhead s + 1) (qtail s) (qcount s - 1) in
                if c_CANGO <=? st s' j then (s', j) else deq f s'
  end.

(* while ( STATE(bcol) == DONE ) bcol = DADPANEL(bcol); *)
Fixpoint climb (fuel : nat) (s : sstate) (b : Z) : Z :=
  match fuel with
  | O => ERR
  | S f => if st s b =? c_DONE then climb f s (dadpanel s b) else b
  end.

Fixpoint set_range (l : list Z) (j : Z) (cnt : nat) (v : Z) : list Z :=
  match cnt with O => l | S c => set_range (updZ l j v) (j + 1) c v end.

Definition fuel_of (s : sstate) : nat := Z.to_nat (sn s) + 2.

(* part 1: report the finished panel, choose the next one *)
Definition sched_choose (s : sstate) (cur : Z) : sstate * Z :=
  if cur =? c_EMPTY then deq (fuel_of s) s
  else
    let dad := dadpanel s cur in
    let du := uk s dad - 1 in
    let s1 := set_pukids s (updZ (pukids s) dad du) in
    if (du =? 0) && (c_BUSY <? st s1 dad) then (s1, dad) else deq (fuel_of s) s1.

(* part 2: update the status of the new panel jcol and of its parent *)
Definition sched_take (s : sstate) (jcol : Z) : sstate * Z :=
  let s1 := set_tasks s (tasks s - 1) in
  let s2 := set_pstate s1 (updZ (pstate s1) jcol c_BUSY) in
  let w := sz s2 jcol in
  let s3 := set_spin s2 (set_range (spin s2) jcol (Z.to_nat w) 1) in
  let dad := dadpanel s3 jcol in
  let s4 := if (dad <? sn s3) && (uk s3 dad =? 1)
            then set_queue (set_pstate s3 (updZ (pstate s3) dad c_CANPIPE))
                           (updZ (q s3) (qtail s3) dad) (qhead s3) (qtail s3 + 1) (qcount s3 + 1)
            else s3 in
  let b := climb (fuel_of s4) s4 (nthZ (fb s4) jcol) in
  (set_fb s4 (updZ (fb s4) dad b), b).

(* returns (new state, new cur_pan, bcol); bcol is only meaningful when cur_pan <> EMPTY *)
Definition sched (s : sstate) (cur : Z) : sstate * Z * Z :=
  let '(s1, jcol) := sched_choose s cur in
  if (jcol =? c_EMPTY) || (jcol =? ERR) then (s1, jcol, 0)
  else let '(s2, b) := sched_take s1 jcol in (s2, jcol, b).

(* ------------------------------------------------------------------------------------------ *)
(* index safety of one scheduler call: every array access the C code performs is in range.     *)
Fixpoint deq_guard (fuel : nat) (s : sstate) : bool :=
  match fuel with
  | O => false
  | S f => if qcount s <=? 0 then true
           else inb (qhead s) (sn s) &&
                let j := nthZ (q s) (qhead s) in
                inb j (sn s + 1) &&
                let s' := set_queue s (q s) (qhead s + 1) (qtail s) (qcount s - 1) in
                if c_CANGO <=? st s' j then true else deq_guard f s'
  end.
Fixpoint climb_guard (fuel : nat) (s : sstate) (b : Z) : bool :=
  match fuel with
  | O => false
  | S f => inb b (sn s + 1) &&
           if st s b =? c_DONE then inb (b + sz s b - 1) (sn s) && climb_guard f s (dadpanel s b) else true
  end.
Definition choose_guard (s : sstate) (cur : Z) : bool :=
  if cur =? c_EMPTY then deq_guard (fuel_of s) s
  else inb cur (sn s) && inb (cur + sz s cur - 1) (sn s) &&
       let dad := dadpanel s cur in
       inb dad (sn s + 1) &&
       let du := uk s dad - 1 in
       let s1 := set_pukids s (updZ (pukids s) dad du) in
       if (du =? 0) && (c_BUSY <? st s1 dad) then true else deq_guard (fuel_of s) s1.
Definition take_guard (s : sstate) (jcol : Z) : bool :=
  inb jcol (sn s) &&                                (* jcol = n would write spin_locks[n], read etree[n] *)
  let w := sz s jcol in
  (1 <=? w) && (jcol + w <=? sn s) &&
  let dad := dadpanel s jcol in
  inb dad (sn s + 1) &&
  (if (dad <? sn s) && (uk s dad =? 1) then inb (qtail s) (sn s) else true) &&
  let s4 := if (dad <? sn s) && (uk s dad =? 1)
            then set_pstate s (updZ (updZ (pstate s) jcol c_BUSY) dad c_CANPIPE)
            else set_pstate s (updZ (pstate s) jcol c_BUSY) in
  inb (nthZ (fb s) jcol) (sn s + 1) && climb_guard (fuel_of s) s4 (nthZ (fb s) jcol).
Definition sched_guard (s : sstate) (cur : Z) : bool :=
  choose_guard s cur &&
  let '(s1, jcol) := sched_choose s cur in
  if (jcol =? c_EMPTY) then true else if jcol =? ERR then false else take_guard s1 jcol.

(* ------------------------------------------------------------------------------------------ *)
(* The thread loop around the scheduler (SRC/p?gstrf_thread.c):
     jcol = EMPTY;  while (tasks_remain > 0) { scheduler(&jcol,&bcol); if (jcol != EMPTY) { work; STATE(jcol) = DONE; } }
   thread modes *)
Definition M_WORK : Z := 0.     (* holds a BUSY panel, working on it *)
Definition M_TEST : Z := 1.     (* at the loop test (cur = EMPTY or a DONE panel not yet reported) *)
Definition M_READY : Z := 2.    (* has read tasks_remain > 0, about to call the scheduler *)
Definition M_EXIT : Z := 3.     (* has read tasks_remain <= 0 and left the loop *)

Record gstate := mkG { gs : sstate; thr : list (Z * Z) (* (mode, cur) per thread *) }.

Inductive label := LFinish (t : Z) | LTest (t : Z) | LCall (t : Z).

Definition thr_get (l : list (Z * Z)) (t : Z) : Z * Z :=
  if t <? 0 then (M_EXIT, c_EMPTY) else nth (Z.to_nat t) l (M_EXIT, c_EMPTY).
Fixpoint thr_upd_nat (l : list (Z * Z)) (i : nat) (v : Z * Z) : list (Z * Z) :=
  match l, i with
  | [], _ => []
  | _ :: t, O => v :: t
  | h :: t, S i' => h :: thr_upd_nat t i' v
  end.
Definition thr_upd (l : list (Z * Z)) (t : Z) (v : Z * Z) : list (Z * Z) :=
  if t <? 0 then l else thr_upd_nat l (Z.to_nat t) v.

(* all child panels of p are DONE: the obligation the worker discharges by waiting (panel_bmod) *)
Definition lead (s : sstate) (c : Z) : bool := inb c (sn s) && (1 <=? sz s c).
Definition kids_done (s : sstate) (p : Z) : bool :=
  forallb (fun c => negb (lead s c && (dadpanel s c =? p)) || (st s c =? c_DONE)) (cols (sn s)).

(* step function: None = label not enabled *)
Definition gstep (g : gstate) (l : label) : option gstate :=
  match l with
  | LFinish t =>
      let '(m, cur) := thr_get (thr g) t in
      if inb t (Z.of_nat (length (thr g))) && (m =? M_WORK) && kids_done (gs g) cur
      then Some (mkG (set_pstate (gs g) (updZ (pstate (gs g)) cur c_DONE)) (thr_upd (thr g) t (M_TEST, cur)))
      else None
  | LTest t =>
      let '(m, cur) := thr_get (thr g) t in
      if inb t (Z.of_nat (length (thr g))) && (m =? M_TEST)
      then Some (mkG (gs g) (thr_upd (thr g) t (if 0 <? tasks (gs g) then M_READY else M_EXIT, cur)))
      else None
  | LCall t =>
      let '(m, cur) := thr_get (thr g) t in
      if inb t (Z.of_nat (length (thr g))) && (m =? M_READY)
      then let '(s', j, _) := sched (gs g) cur in
           Some (mkG s' (thr_upd (thr g) t (if j =? c_EMPTY then M_TEST else M_WORK, j)))
      else None
  end.

Fixpoint grun (g : gstate) (ls : list label) : option gstate :=
  match ls with
  | [] => Some g
  | l :: r => match gstep g l with Some g' => grun g' r | None => None end
  end.

Definition ginit (s : sstate) (nthreads : nat) : gstate := mkG s (repeat (M_TEST, c_EMPTY) nthreads).

(* panels handed out along a run (for "each panel exactly once") *)
Fixpoint gtaken (g : gstate) (ls : list label) : list Z :=
  match ls with
  | [] => []
  | l :: r => match gstep g l with
              | Some g' =>
                  (match l with
                   | LCall t => let j := snd (thr_get (thr g') t) in if j =? c_EMPTY then [] else [j]
                   | _ => [] end) ++ gtaken g' r
              | None => []
              end
  end.
