(* NumMult.v -- C02: the stored multipliers.  SuperLU_MT computes l = fl( a * fl(1/p) ) (one reciprocal per column, then a
   scaling) or l = fl(a / p); with |a| <= |p| / t  (the pivot passed the threshold test t*max <= |p|, 0 < t <= 1) the stored
   multiplier satisfies |l| <= (1/t) (1+u)^2, whichever of the two forms is used. *)
From Coq Require Import Reals Lra Lia.
From SLU Require Import NumBase.
Local Open Scope R_scope.

Section MULT.
Variable u : R.
Hypothesis Hu0 : 0 <= u.

Lemma fl_eq_abs x y : fl_eq u x y -> Rabs y <= Rabs x * (1 + u).
Proof.
  intros (d & Hd & ->). rewrite Rabs_mult.
  apply Rmult_le_compat_l; [apply Rabs_pos|].
  eapply Rle_trans; [apply Rabs_triang|]. rewrite Rabs_R1. lra.
Qed.

(* division form *)
Theorem multiplier_div a p t l : 0 < t -> p <> 0 -> t * Rabs a <= Rabs p -> fl_eq u (a / p) l -> Rabs l <= / t * (1 + u).
Proof.
  intros Ht Hp Hth Hl. eapply Rle_trans; [apply (fl_eq_abs _ _ Hl)|].
  apply Rmult_le_compat_r; [lra|].
  unfold Rdiv. rewrite Rabs_mult, Rabs_inv.
  assert (Hpp : 0 < Rabs p) by (apply Rabs_pos_lt; exact Hp).
  apply Rmult_le_reg_r with (Rabs p); [exact Hpp|]. rewrite Rmult_assoc, Rinv_l by lra. rewrite Rmult_1_r.
  apply Rmult_le_reg_l with t; [exact Ht|]. rewrite <- Rmult_assoc, Rinv_r by lra. lra.
Qed.

(* reciprocal-then-scale form (the CDIV of p?gstrf_pivotL / the column scaling after the pivot search) *)
Theorem multiplier_recip a p t r l : 0 < t -> p <> 0 -> t * Rabs a <= Rabs p ->
  fl_eq u (/ p) r -> fl_eq u (a * r) l -> Rabs l <= / t * ((1 + u) * (1 + u)).
Proof.
  intros Ht Hp Hth Hr Hl.
  pose proof (fl_eq_abs _ _ Hl) as H1. pose proof (fl_eq_abs _ _ Hr) as H2.
  rewrite Rabs_mult in H1. rewrite Rabs_inv in H2.
  assert (Hpp : 0 < Rabs p) by (apply Rabs_pos_lt; exact Hp).
  assert (Ha : Rabs a * / Rabs p <= / t).
  { apply Rmult_le_reg_r with (Rabs p); [exact Hpp|]. rewrite Rmult_assoc, Rinv_l by lra. rewrite Rmult_1_r.
    apply Rmult_le_reg_l with t; [exact Ht|]. rewrite <- Rmult_assoc, Rinv_r by lra. lra. }
  assert (H3 : Rabs a * Rabs r <= Rabs a * (/ Rabs p * (1 + u))) by (apply Rmult_le_compat_l; [apply Rabs_pos | exact H2]).
  assert (Hin : 0 <= / t) by (left; apply Rinv_0_lt_compat; exact Ht).
  assert (H4 : Rabs a * (/ Rabs p * (1 + u)) <= / t * (1 + u)) by (rewrite <- Rmult_assoc; apply Rmult_le_compat_r; lra).
  assert (H5 : Rabs a * Rabs r * (1 + u) <= / t * (1 + u) * (1 + u)) by (apply Rmult_le_compat_r; lra).
  lra.
Qed.

End MULT.
