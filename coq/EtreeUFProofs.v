(* EtreeUFProofs.v -- termination of `find` with path halving (explicit fuel proved sufficient) and the
   forest property  j < parent[j] <= nc  of sp_coletree / sp_symetree, for every well-formed pattern. *)
From Coq Require Import ZArith List Bool Lia Permutation.
From SLU Require Import EtreeModel EtreeArrProofs EtreePermProofs.
Import ListNotations.
Local Open Scope Z_scope.

(* parent pointers of a forest on 0..n-1 whose roots point to n, children numbered below parents *)
Definition forest (n : Z) (parent : list Z) : Prop :=
  alen parent = n /\ forall j, 0 <= j < n -> exists v, aget parent j = Some v /\ j < v <= n.

(* NCP pattern (colbeg, colend, arow) with nc columns and row indices in 0..nr-1 *)
Definition wf_pat (nr nc : Z) (acolst acolend arow : list Z) : Prop :=
  alen acolst = nc /\ alen acolend = nc /\
  forall j, 0 <= j < nc -> exists s e, aget acolst j = Some s /\ aget acolend j = Some e /\
    forall p, s <= p < e -> exists r, aget arow p = Some r /\ 0 <= r < nr.

(* ------------------------------------------------------------------------------------------ *)
(* ghost rank: position in the list L of nodes that stopped being roots (in linking order);
   roots have rank length L *)
Fixpoint idx (L : list Z) (x : Z) : nat :=
  match L with [] => O | y :: t => if y =? x then O else S (idx t x) end.

Lemma idx_le : forall L x, (idx L x <= length L)%nat.
Proof. induction L as [|y t IH]; intros x; simpl; [lia|]. destruct (y =? x); [lia|]. specialize (IH x). lia. Qed.

Lemma idx_In : forall L x, In x L <-> (idx L x < length L)%nat.
Proof.
  induction L as [|y t IH]; intros x; simpl; [split; [tauto|lia]|].
  destruct (y =? x) eqn:E.
  - apply Z.eqb_eq in E. split; [lia|auto].
  - apply Z.eqb_neq in E. rewrite IH. split; [intros [H|H]; [congruence|lia]|intros H; right; lia].
Qed.

Lemma idx_notin : forall L x, ~ In x L -> idx L x = length L.
Proof. intros L x H. pose proof (idx_le L x). rewrite idx_In in H. lia. Qed.

Lemma idx_app_in : forall L s x, In x L -> idx (L ++ [s]) x = idx L x.
Proof.
  induction L as [|y t IH]; intros s x H; simpl in *; [tauto|].
  destruct (y =? x) eqn:E; auto. apply Z.eqb_neq in E. destruct H; [congruence|]. now rewrite IH.
Qed.

Lemma idx_app_new : forall L s, ~ In s L -> idx (L ++ [s]) s = length L.
Proof.
  induction L as [|y t IH]; intros s H; simpl in *.
  - now rewrite Z.eqb_refl.
  - destruct (y =? s) eqn:E; [apply Z.eqb_eq in E; tauto|]. rewrite IH; auto.
Qed.

Lemma idx_app_other : forall L s x, ~ In x L -> x <> s -> idx (L ++ [s]) x = S (length L).
Proof.
  intros L s x H Hne. rewrite idx_notin.
  - rewrite app_length. simpl. lia.
  - rewrite in_app_iff. simpl. intuition.
Qed.

(* union-find invariant on the b sets made so far *)
Definition uf_inv (b : Z) (pp L : list Z) : Prop :=
  NoDup L /\ (forall x, In x L -> 0 <= x < b) /\
  forall i, 0 <= i < b -> exists v, aget pp i = Some v /\ 0 <= v < b /\
     (v = i <-> ~ In i L) /\ (v <> i -> (idx L i < idx L v)%nat).

Lemma uf_inv_len : forall b pp L, uf_inv b pp L -> b <= alen pp.
Proof.
  intros b pp L [_ [_ H]]. destruct (Z_le_dec b 0); [pose proof (alen_nonneg pp); lia|].
  destruct (H (b - 1)) as [v [Hv _]]; [lia|]. apply aget_Some_range in Hv. lia.
Qed.

(* the while loop of find: fuel (length L + 1 - rank p) suffices; the result is a root, the invariant
   is kept with the same ghost list *)
Lemma find_loop_ok : forall fuel b pp L i p gp,
  uf_inv b pp L -> 0 <= i < b -> aget pp i = Some p -> aget pp p = Some gp ->
  (length L + 1 - idx L p <= fuel)%nat ->
  exists r pp', find_loop fuel pp i p gp = Some (r, pp') /\ uf_inv b pp' L /\ alen pp' = alen pp /\
                0 <= r < b /\ ~ In r L.
Proof.
  induction fuel as [|fuel IH]; intros b pp L i p gp Hinv Hi Ep Egp Hf.
  - pose proof (idx_le L p). lia.
  - cbn [find_loop]. destruct (gp =? p) eqn:Eg.
    + apply Z.eqb_eq in Eg. subst gp. exists p, pp. split; auto. split; auto. split; auto.
      destruct Hinv as [Hnd [HL Hall]].
      destruct (Hall i Hi) as [v [Ev [Hv _]]]. assert (v = p) by congruence. subst v.
      destruct (Hall p Hv) as [w [Ew [Hw [Hroot _]]]]. assert (w = p) by congruence. subst w.
      split; auto. apply Hroot. reflexivity.
    + apply Z.eqb_neq in Eg.
      pose proof Hinv as [Hnd [HL Hall]].
      destruct (Hall i Hi) as [v [Ev [Hv [Hri Hrk]]]]. assert (v = p) by congruence. subst v.
      destruct (Hall p Hv) as [w [Ew [Hw [Hrp Hrkp]]]]. assert (w = gp) by congruence. subst w.
      assert (Hpi : p <> i).
      { intro; subst p. rewrite Ep in Egp. congruence. }
      specialize (Hrk Hpi). specialize (Hrkp Eg).
      assert (Hgi : gp <> i) by (intro; subst gp; lia).
      pose proof (uf_inv_len _ _ _ Hinv) as Hlen.
      destruct (aset_total pp i gp) as [pp1 E1]; [lia|]. rewrite E1.
      assert (G1 : aget pp1 gp = aget pp gp) by (eapply aget_aset_other; eauto).
      destruct (Hall gp Hw) as [p1 [Ep1 [Hp1 [Hrg Hrkg]]]].
      rewrite G1, Ep1.
      assert (Hp1i : p1 <> i).
      { intro; subst p1. destruct (Z.eq_dec i gp); [congruence|]. specialize (Hrkg ltac:(auto)). lia. }
      assert (G2 : aget pp1 p1 = aget pp p1) by (eapply aget_aset_other; eauto).
      destruct (Hall p1 Hp1) as [gp1 [Egp1 _]]. rewrite G2, Egp1.
      (* invariant after the halving write *)
      assert (Hinv1 : uf_inv b pp1 L).
      { split; auto. split; auto. intros j Hj.
        rewrite (aget_aset _ _ _ _ j E1). destruct (j =? i) eqn:Eji.
        - apply Z.eqb_eq in Eji. subst j. exists gp. split; auto. split; auto. split.
          + split; [intros; congruence|]. intros Hn. apply Hri in Hn. congruence.
          + intros _. lia.
        - apply Hall; auto. }
      destruct (IH b pp1 L gp p1 gp1) as [r [pp' [Er [Hi' [Hl' [Hr Hnr]]]]]]; auto.
      * now rewrite G1.
      * now rewrite G2.
      * assert (idx L p1 >= idx L gp)%nat.
        { destruct (Z.eq_dec p1 gp); [subst; lia|]. specialize (Hrkg ltac:(auto)). lia. }
        lia.
      * exists r, pp'. rewrite Er. split; auto. split; auto. split; auto.
        rewrite Hl'. eapply aset_len; eauto.
Qed.

Lemma uf_find_ok : forall fuel b pp L i,
  uf_inv b pp L -> 0 <= i < b -> (length L + 1 <= fuel)%nat ->
  exists r pp', uf_find fuel pp i = Some (r, pp') /\ uf_inv b pp' L /\ alen pp' = alen pp /\
                0 <= r < b /\ ~ In r L.
Proof.
  intros fuel b pp L i Hinv Hi Hf. unfold uf_find.
  pose proof Hinv as [_ [_ Hall]].
  destruct (Hall i Hi) as [p [Ep [Hp _]]]. rewrite Ep.
  destruct (Hall p Hp) as [gp [Egp _]]. rewrite Egp.
  eapply find_loop_ok; eauto. lia.
Qed.

(* ------------------------------------------------------------------------------------------ *)
(* invariant of the inner loop of sp_coletree / sp_symetree while column col is processed *)
Definition ct_inv (nc col : Z) (st : list Z * list Z * list Z * Z) (L : list Z) : Prop :=
  let '(parent, pp, root, cset) := st in
  alen parent = nc /\ alen pp = nc /\ alen root = nc /\
  uf_inv (col + 1) pp L /\
  0 <= cset <= col /\ ~ In cset L /\ aget root cset = Some col /\
  (forall i, 0 <= i < nc -> exists v, aget root i = Some v /\ 0 <= v <= col) /\
  (forall j, 0 <= j <= col -> exists v, aget parent j = Some v /\ j < v <= nc).

Ltac split_and := repeat match goal with |- _ /\ _ => split end.

Lemma ct_edge_ok : forall nc col st L row,
  0 <= col < nc -> ct_inv nc col st L -> 0 <= row ->
  exists st' L', ct_edge (find_fuel nc) col st row = Some st' /\ ct_inv nc col st' L'.
Proof.
  intros nc col [[[parent pp] root] cset] L row Hcol Hinv Hrow.
  destruct Hinv as [Lp [Lpp [Lr [Huf [Hcs [Hcr [Hrc [Hroot Hpar]]]]]]]].
  unfold ct_edge. destruct (row >=? col) eqn:Erc.
  - exists (parent, pp, root, cset), L. split; auto. unfold ct_inv. split_and; auto; lia.
  - assert (Hrl : row < col) by (rewrite Z.geb_leb in Erc; apply Z.leb_gt in Erc; lia).
    (* number of linked nodes is at most col *)
    assert (HlenL : (length L <= Z.to_nat col)%nat).
    { destruct Huf as [Hnd [HL _]].
      assert (Hnd2 : NoDup (cset :: L)) by (constructor; auto).
      assert (Hincl : incl (cset :: L) (zrange 0 (col + 1))).
      { intros x [Hx|Hx]; apply In_zrange; [subst; lia|apply HL; auto]. }
      pose proof (NoDup_incl_length Hnd2 Hincl) as Hle. rewrite zrange_length in Hle. simpl in Hle. lia. }
    destruct (uf_find_ok (find_fuel nc) (col + 1) pp L row) as [rset [pp1 [Ef [Huf1 [Ll [Hrs Hrsr]]]]]]; auto; try lia.
    { unfold find_fuel. lia. }
    rewrite Ef.
    destruct (Hroot rset) as [rroot [Err Hrr]]; [lia|]. rewrite Err.
    destruct (rroot =? col) eqn:Erq.
    + exists (parent, pp1, root, cset), L. split; auto. unfold ct_inv. split_and; auto; lia.
    + apply Z.eqb_neq in Erq.
      assert (Hne : rset <> cset) by (intro; subst; congruence).
      destruct (aset_total parent rroot col) as [parent1 Ep1]; [lia|]. rewrite Ep1.
      destruct (aset_total pp1 cset rset) as [pp2 Ep2]; [lia|]. rewrite Ep2.
      destruct (aset_total root rset col) as [root1 Er1]; [lia|]. rewrite Er1.
      exists (parent1, pp2, root1, rset), (L ++ [cset]). split; auto.
      unfold ct_inv. split; [rewrite (aset_len _ _ _ _ Ep1); auto|].
      split; [rewrite (aset_len _ _ _ _ Ep2); lia|].
      split; [rewrite (aset_len _ _ _ _ Er1); auto|].
      split.
      { (* union-find invariant after pp[cset] = rset *)
        destruct Huf1 as [Hnd [HL Hall]]. split; [|split].
        - apply Permutation_NoDup with (l := cset :: L); [apply Permutation_cons_append|constructor; auto].
        - intros x Hx. apply in_app_iff in Hx as [Hx|[Hx|[]]]; [auto|subst; lia].
        - intros i Hi. rewrite (aget_aset _ _ _ _ i Ep2). destruct (i =? cset) eqn:Eic.
          + apply Z.eqb_eq in Eic. subst i. exists rset. split; auto. split; [lia|]. split.
            * split; [intros; congruence|]. intros Hn. exfalso. apply Hn. apply in_app_iff. right. simpl; auto.
            * intros _. rewrite idx_app_new by auto. rewrite idx_app_other; auto.
          + apply Z.eqb_neq in Eic. destruct (Hall i Hi) as [v [Ev [Hv [Hri Hrk]]]].
            exists v. split; auto. split; auto. split.
            * rewrite Hri. rewrite in_app_iff. simpl. intuition.
            * intros Hvi. specialize (Hrk Hvi).
              assert (HiL : In i L).
              { destruct (in_dec Z.eq_dec i L); auto. apply Hri in n. congruence. }
              rewrite (idx_app_in L cset i HiL).
              destruct (in_dec Z.eq_dec v L) as [HvL|HvL].
              -- now rewrite idx_app_in.
              -- apply idx_In in HiL. destruct (Z.eq_dec v cset).
                 ++ subst v. rewrite idx_app_new; auto.
                 ++ rewrite idx_app_other; auto. }
      split; [lia|].
      split.
      { rewrite in_app_iff. simpl. intuition. }
      split; [eapply aget_aset_same; eauto|].
      split.
      { intros i Hi. rewrite (aget_aset _ _ _ _ i Er1). destruct (i =? rset); [exists col; split; auto; lia|auto]. }
      { intros j Hj. rewrite (aget_aset _ _ _ _ j Ep1). destruct (j =? rroot) eqn:Ejr.
        - apply Z.eqb_eq in Ejr. subst j. exists col. split; auto. lia.
        - auto. }
Qed.

(* invariant between columns: columns 0..col-1 are done *)
Definition ctc_inv (nc col : Z) (st : list Z * list Z * list Z) : Prop :=
  let '(parent, pp, root) := st in
  alen parent = nc /\ alen pp = nc /\ alen root = nc /\
  (exists L, uf_inv col pp L) /\
  (forall i, 0 <= i < nc -> exists v, aget root i = Some v /\ 0 <= v <= col) /\
  (forall j, 0 <= j < col -> exists v, aget parent j = Some v /\ j < v <= nc).

Lemma ct_col_ok : forall nc rowof acolst acolend st col,
  0 <= col < nc -> ctc_inv nc col st ->
  (exists s e, aget acolst col = Some s /\ aget acolend col = Some e /\
               forall p, s <= p < e -> exists row, rowof p = Some row /\ 0 <= row) ->
  exists st', ct_col (find_fuel nc) nc rowof acolst acolend st col = Some st' /\ ctc_inv nc (col + 1) st'.
Proof.
  intros nc rowof acolst acolend [[parent pp] root] col Hcol Hinv [s [e [Es [Ee Hrows]]]].
  destruct Hinv as [Lp [Lpp [Lr [[L Huf] [Hroot Hpar]]]]].
  unfold ct_col.
  destruct (aset_total pp col col) as [pp1 E1]; [lia|]. rewrite E1.
  destruct (aset_total root col col) as [root1 E2]; [lia|]. rewrite E2.
  destruct (aset_total parent col nc) as [parent1 E3]; [lia|]. rewrite E3.
  rewrite Es, Ee.
  assert (Hinit : ct_inv nc col (parent1, pp1, root1, col) L).
  { unfold ct_inv. rewrite (aset_len _ _ _ _ E1), (aset_len _ _ _ _ E2), (aset_len _ _ _ _ E3).
    do 3 (split; auto). destruct Huf as [Hnd [HL Hall]].
    assert (HcL : ~ In col L) by (intro Hc; apply HL in Hc; lia).
    split.
    { split; auto. split; [intros x Hx; apply HL in Hx; lia|].
      intros i Hi. rewrite (aget_aset _ _ _ _ i E1). destruct (i =? col) eqn:Eic.
      - apply Z.eqb_eq in Eic. subst i. exists col. split; auto. split; [lia|]. split; [tauto|congruence].
      - apply Z.eqb_neq in Eic. destruct (Hall i) as [v [Ev [Hv Hrest]]]; [lia|]. exists v. split; auto. split; [lia|auto]. }
    split; [lia|]. split; auto. split; [eapply aget_aset_same; eauto|]. split.
    - intros i Hi. rewrite (aget_aset _ _ _ _ i E2). destruct (i =? col); [exists col; split; auto; lia|].
      destruct (Hroot i Hi) as [v [Ev Hv]]. exists v; split; auto.
    - intros j Hj. rewrite (aget_aset _ _ _ _ j E3). destruct (j =? col) eqn:Ejc.
      + apply Z.eqb_eq in Ejc. subst j. exists nc. split; auto. lia.
      + apply Z.eqb_neq in Ejc. apply Hpar. lia. }
  destruct (ofold_inv (fun st p => match rowof p with Some row => ct_edge (find_fuel nc) col st row | None => None end)
                      (fun st => exists L', ct_inv nc col st L') (zrange s e) (parent1, pp1, root1, col))
    as [[[[parent2 pp2] root2] cset2] [Ef [L2 Hfin]]].
  - eauto.
  - intros st0 p Hp [L0 H0]. apply In_zrange in Hp. destruct (Hrows p Hp) as [row [Er Hr]]. rewrite Er.
    destruct (ct_edge_ok nc col st0 L0 row) as [st' [L' [E' H']]]; auto. exists st'. split; auto. eauto.
  - rewrite Ef. eexists. split; [reflexivity|].
    destruct Hfin as [Q1 [Q2 [Q3 [Q4 [Q5 [Q6 [Q7 [Q8 Q9]]]]]]]].
    unfold ctc_inv. do 3 (split; auto). split; [eauto|]. split.
    + intros i Hi. destruct (Q8 i Hi) as [v [Ev Hv]]. exists v; split; auto. lia.
    + intros j Hj. apply Q9. lia.
Qed.

Lemma ct_loop_ok : forall nc rowof acolst acolend,
  0 <= nc ->
  (forall col, 0 <= col < nc -> exists s e, aget acolst col = Some s /\ aget acolend col = Some e /\
               forall p, s <= p < e -> exists row, rowof p = Some row /\ 0 <= row) ->
  exists parent pp root,
    ofold (ct_col (find_fuel nc) nc rowof acolst acolend) (zrange 0 nc) (mk nc c_uninit, mk nc 0, mk nc 0)
      = Some (parent, pp, root) /\ forest nc parent.
Proof.
  intros nc rowof acolst acolend Hnc Hrows.
  destruct (ofold_zrange_inv (ct_col (find_fuel nc) nc rowof acolst acolend) (ctc_inv nc) 0 nc
              (mk nc c_uninit, mk nc 0, mk nc 0)) as [[[parent pp] root] [E H]]; auto.
  - unfold ctc_inv. rewrite !alen_mk. do 3 (split; [lia|]). split.
    + exists []. split; [constructor|]. split; [intros x []|intros; lia].
    + split; [|intros; lia]. intros i Hi. exists 0. split; [apply aget_mk; auto|lia].
  - intros i st Hi Hinv. apply ct_col_ok; auto.
  - exists parent, pp, root. split; auto. destruct H as [Lp [_ [_ [_ [_ Hpar]]]]]. split; auto.
Qed.

(* ------------------------------------------------------------------------------------------ *)
(* firstcol *)
Lemma firstcol_ok : forall nr nc acolst acolend arow,
  0 <= nr -> 0 <= nc -> wf_pat nr nc acolst acolend arow ->
  exists fc, firstcol_of nr nc acolst acolend arow = Some fc /\ alen fc = nr /\
             forall r, 0 <= r < nr -> exists v, aget fc r = Some v /\ 0 <= v <= nc.
Proof.
  intros nr nc acolst acolend arow Hnr Hnc [L1 [L2 Hwf]]. unfold firstcol_of.
  set (P := fun fc : list Z => alen fc = nr /\ forall r, 0 <= r < nr -> exists v, aget fc r = Some v /\ 0 <= v <= nc).
  destruct (ofold_zrange_inv
    (fun fc col => match aget acolst col with Some s => match aget acolend col with Some e =>
        ofold (fun fc p => match aget arow p with Some row => match aget fc row with Some f => aset fc row (Z.min f col) | None => None end | None => None end)
              (zrange s e) fc | None => None end | None => None end)
    (fun _ fc => P fc) 0 nc (mk nr nc)) as [fc [E HP]]; auto.
  - split; [rewrite alen_mk; lia|]. intros r Hr. exists nc. split; [apply aget_mk; auto|lia].
  - intros col fc Hcol HPfc. destruct (Hwf col Hcol) as [s [e [Es [Ee Hrows]]]]. rewrite Es, Ee.
    apply ofold_inv; auto.
    intros fc0 p Hp [Q1 Q2]. apply In_zrange in Hp. destruct (Hrows p Hp) as [r [Er Hr]]. rewrite Er.
    destruct (Q2 r Hr) as [f [Ef Hf]]. rewrite Ef.
    destruct (aset_total fc0 r (Z.min f col)) as [fc1 E1]; [lia|]. exists fc1. split; auto. split.
    + rewrite (aset_len _ _ _ _ E1). auto.
    + intros r' Hr'. rewrite (aget_aset _ _ _ _ r' E1). destruct (r' =? r); [exists (Z.min f col); split; auto; lia|auto].
  - exists fc. auto.
Qed.

(* ------------------------------------------------------------------------------------------ *)
Theorem sp_coletree_forest : forall nr nc acolst acolend arow,
  0 <= nr -> 0 <= nc -> wf_pat nr nc acolst acolend arow ->
  exists parent, sp_coletree acolst acolend arow nr nc = Some parent /\ forest nc parent.
Proof.
  intros nr nc acolst acolend arow Hnr Hnc Hwf. unfold sp_coletree.
  destruct (firstcol_ok nr nc acolst acolend arow Hnr Hnc Hwf) as [fc [Efc [Lfc Hfc]]]. rewrite Efc.
  destruct (ct_loop_ok nc (fun p => match aget arow p with Some ar => aget fc ar | None => None end) acolst acolend Hnc)
    as [parent [pp [root [E Hf]]]].
  - destruct Hwf as [L1 [L2 Hwf]]. intros col Hcol. destruct (Hwf col Hcol) as [s [e [Es [Ee Hrows]]]].
    exists s, e. split; auto. split; auto. intros p Hp. destruct (Hrows p Hp) as [r [Er Hr]]. rewrite Er.
    destruct (Hfc r Hr) as [v [Ev Hv]]. exists v. split; auto. lia.
  - rewrite E. exists parent. split; auto.
Qed.

Theorem sp_symetree_forest : forall n acolst acolend arow,
  0 <= n -> wf_pat n n acolst acolend arow ->
  exists parent, sp_symetree acolst acolend arow n = Some parent /\ forest n parent.
Proof.
  intros n acolst acolend arow Hn Hwf. unfold sp_symetree.
  destruct (ct_loop_ok n (fun p => aget arow p) acolst acolend Hn) as [parent [pp [root [E Hf]]]].
  - destruct Hwf as [L1 [L2 Hwf]]. intros col Hcol. destruct (Hwf col Hcol) as [s [e [Es [Ee Hrows]]]].
    exists s, e. split; auto. split; auto. intros p Hp. destruct (Hrows p Hp) as [r [Er Hr]].
    exists r. split; auto. lia.
  - rewrite E. exists parent. split; auto.
Qed.

(* ------------------------------------------------------------------------------------------ *)
(* partial correctness (no well-formedness assumption): whenever the model returns Some, the result is
   a forest -- a negative or out-of-range row makes the model return None *)
Lemma ofold_success_each : forall {St A} (f : St -> A -> option St) l s s',
  ofold f l s = Some s' -> forall x, In x l -> exists s1 s2, f s1 x = Some s2.
Proof.
  induction l as [|y t IH]; intros s s' H x Hx; [inversion Hx|].
  simpl in H. destruct (f s y) as [s1|] eqn:E; [|discriminate].
  destruct Hx as [<-|Hx]; [eauto|eapply IH; eauto].
Qed.

Lemma ct_edge_row_nonneg : forall fuel col st row st', 0 <= col -> ct_edge fuel col st row = Some st' -> 0 <= row.
Proof.
  intros fuel col [[[parent pp] root] cset] row st' Hcol H.
  destruct (Z_lt_dec row 0) as [Hneg|]; [|lia]. exfalso.
  unfold ct_edge in H. destruct (row >=? col) eqn:E.
  - rewrite Z.geb_leb in E. apply Z.leb_le in E. lia.
  - unfold uf_find in H. assert (En : aget pp row = None).
    { unfold aget. destruct (row <? 0) eqn:E2; auto. apply Z.ltb_ge in E2. lia. }
    rewrite En in H. discriminate.
Qed.

Lemma ct_col_partial : forall nc rowof acolst acolend st col st',
  0 <= col < nc -> ctc_inv nc col st ->
  ct_col (find_fuel nc) nc rowof acolst acolend st col = Some st' -> ctc_inv nc (col + 1) st'.
Proof.
  intros nc rowof acolst acolend st col st' Hcol Hinv H.
  assert (Hrows : exists s e, aget acolst col = Some s /\ aget acolend col = Some e /\
               forall p, s <= p < e -> exists row, rowof p = Some row /\ 0 <= row).
  { destruct st as [[parent pp] root]. unfold ct_col in H.
    destruct (aset pp col col); [|discriminate]. destruct (aset root col col); [|discriminate].
    destruct (aset parent col nc); [|discriminate].
    destruct (aget acolst col) as [s|]; [|discriminate]. destruct (aget acolend col) as [e|]; [|discriminate].
    exists s, e. split; auto. split; auto. intros p Hp.
    match type of H with context [ofold ?f ?l ?s0] => destruct (ofold f l s0) as [r|] eqn:Ef; [|discriminate] end.
    destruct (ofold_success_each _ _ _ _ Ef p) as [s1 [s2 Es]]; [apply In_zrange; auto|].
    cbn beta in Es. destruct (rowof p) as [row|]; [|discriminate].
    exists row. split; auto. eapply ct_edge_row_nonneg; eauto. lia. }
  destruct (ct_col_ok nc rowof acolst acolend st col Hcol Hinv Hrows) as [st'' [E Hinv']].
  congruence.
Qed.

Lemma ct_loop_partial : forall nc rowof acolst acolend parent pp root,
  0 <= nc ->
  ofold (ct_col (find_fuel nc) nc rowof acolst acolend) (zrange 0 nc) (mk nc c_uninit, mk nc 0, mk nc 0)
    = Some (parent, pp, root) -> forest nc parent.
Proof.
  intros nc rowof acolst acolend parent pp root Hnc H.
  assert (Hfin : ctc_inv nc nc (parent, pp, root)).
  { apply (ofold_zrange_inv_partial (ct_col (find_fuel nc) nc rowof acolst acolend) (ctc_inv nc) 0 nc
             (mk nc c_uninit, mk nc 0, mk nc 0)); auto.
    - unfold ctc_inv. rewrite !alen_mk. do 3 (split; [lia|]). split.
      + exists []. split; [constructor|]. split; [intros x []|intros; lia].
      + split; [|intros; lia]. intros i Hi. exists 0. split; [apply aget_mk; auto|lia].
    - intros i st st' Hi Hinv E. eapply ct_col_partial; eauto. }
  destruct Hfin as [Lp [_ [_ [_ [_ Hpar]]]]]. split; auto.
Qed.

Theorem sp_symetree_forest_partial : forall n acolst acolend arow parent,
  0 <= n -> sp_symetree acolst acolend arow n = Some parent -> forest n parent.
Proof.
  intros n acolst acolend arow parent Hn H. unfold sp_symetree in H.
  match type of H with context [ofold ?f ?l ?s0] => destruct (ofold f l s0) as [[[p pp] root]|] eqn:Ef; [|discriminate] end.
  inversion H; subst. eapply ct_loop_partial; eauto.
Qed.

Theorem sp_coletree_forest_partial : forall nr nc acolst acolend arow parent,
  0 <= nc -> sp_coletree acolst acolend arow nr nc = Some parent -> forest nc parent.
Proof.
  intros nr nc acolst acolend arow parent Hn H. unfold sp_coletree in H.
  destruct (firstcol_of nr nc acolst acolend arow) as [fc|]; [|discriminate].
  match type of H with context [ofold ?f ?l ?s0] => destruct (ofold f l s0) as [[[p pp] root]|] eqn:Ef; [|discriminate] end.
  inversion H; subst. eapply ct_loop_partial; eauto.
Qed.

(* non-vacuity: a well-formed 4 x 4 pattern with an empty column, a dense row and unsorted rows *)
Example wf_pat_ex : wf_pat 4 4 [0; 2; 2; 4] [2; 2; 4; 7] [3; 0; 1; 3; 3; 2; 0].
Proof.
  split; [reflexivity|]. split; [reflexivity|]. intros j Hj.
  assert (j = 0 \/ j = 1 \/ j = 2 \/ j = 3) as [-> | [-> | [-> | ->]]] by lia.
  - exists 0, 2. repeat split; try reflexivity. intros p Hp.
    assert (p = 0 \/ p = 1) as [-> | ->] by lia; eexists; (split; [reflexivity|lia]).
  - exists 2, 2. repeat split; try reflexivity. intros p Hp. lia.
  - exists 2, 4. repeat split; try reflexivity. intros p Hp.
    assert (p = 2 \/ p = 3) as [-> | ->] by lia; eexists; (split; [reflexivity|lia]).
  - exists 4, 7. repeat split; try reflexivity. intros p Hp.
    assert (p = 4 \/ p = 5 \/ p = 6) as [-> | [-> | ->]] by lia; eexists; (split; [reflexivity|lia]).
Qed.
Example sp_coletree_ex : sp_coletree [0; 2; 2; 4] [2; 2; 4; 7] [3; 0; 1; 3; 3; 2; 0] 4 4 = Some [2; 4; 3; 4].
Proof. reflexivity. Qed.
