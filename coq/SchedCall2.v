(* SchedCall2.v -- one scheduler call, part 2: dequeue preserves the (weakened) invariant, taking a panel
   re-establishes the full invariant *)
From Coq Require Import ZArith List Bool Lia.
From SLU Require Import Consts SchedModel SchedBase SchedInv SchedSteps SchedCall1.
Import ListNotations.
Local Open Scope Z_scope.

(* ---------------- dequeue ---------------- *)
Section DEQ.
Variable a : sstate.
Variable th : list (Z * Z).
Variable e0 : Z.
Hypothesis HX : InvX (mkG a th) e0.
Hypothesis He0 : lead a e0 = false.

Lemma deq_Qok : Qok a.
Proof. use_invx HX. unfold Qok. destruct IQUEUE as (A & B & _). lia. Qed.

Lemma deq_fuel : (Z.to_nat (qcount a) < fuel_of a)%nat.
Proof. use_invx HX. destruct IQUEUE as (A & B & C & _). unfold fuel_of. lia. Qed.

Theorem invx_deq :
  exists h' j, deq (fuel_of a) a = (set_queue a (q a) h' (qtail a) (qtail a - h'), j) /\
    InvX (mkG (set_queue a (q a) h' (qtail a) (qtail a - h')) th) j /\
    (j = c_EMPTY \/ (lead a j = true /\ c_BUSY < st a j /\ st a j <= c_CANPIPE /\ 0 <= h' - 1 < sn a /\ j = nthZ (q a) (h' - 1))) /\
    qhead a <= h' <= qtail a.
Proof.
  destruct (deq_spec (fuel_of a) a deq_Qok deq_fuel) as (h' & j & D & R & A & B).
  exists h', j. split; [exact D|].
  use_invx HX. destruct IQUEUE as (Q1 & Q2 & Q3 & Q4 & Q5 & Q6).
  set (a' := set_queue a (q a) h' (qtail a) (qtail a - h')).
  assert (FS : same_static a a') by (repeat split).
  assert (Hj : j = c_EMPTY \/ (lead a j = true /\ c_BUSY < st a j /\ st a j <= c_CANPIPE /\ 0 <= h' - 1 < sn a /\ j = nthZ (q a) (h' - 1))).
  { destruct (Z.eq_dec j c_EMPTY) as [|Hn]; [now left | right].
    destruct (B Hn) as (B1 & B2 & B3 & B4).
    destruct (Q5 (h' - 1) ltac:(lia)) as [L Rg]. rewrite <- B2 in L, Rg.
    split; auto. split; [cs; lia|]. split; [|split; [lia | exact B2]].
    destruct ISTATES as (_ & IS). destruct (IS j L) as [S1 S2].
    destruct (wf_types _ IWF j L) as [T|T]; [now apply Rg|].
    destruct (S2 T) as [|[|]]; cs; lia. }
  split; [|split; [exact Hj | exact R]].
  constructor; invx_unf.
  - eapply fr_WF; eauto.
  - exact ILEN.
  - exact ISTATES.
  - exact ITHREADS.
  - exact IUKIDS.
  - exact IJ.
  - exact ID.
  - (* queue *)
    change (qhead a') with h'. change (qtail a') with (qtail a). change (qcount a') with (qtail a - h').
    change (q a') with (q a). change (sn a') with (sn a).
    split; [lia|]. split; [lia|]. split; [lia|]. split; [exact Q4|]. split; [exact Q5|].
    intros p Hpj Lp Sp. change (lead a p = true) in Lp. change (st a' p) with (st a p) in Sp.
    assert (Hpe : p <> e0) by (intros ->; congruence).
    destruct (Q6 p Hpe Lp Sp) as (i & Hi & Ei). exists i. split; auto.
    assert (Sge : c_CANGO <= st a p) by (destruct Sp as [-> | ->]; cs; lia).
    destruct (Z.eq_dec j c_EMPTY) as [Hje|Hn].
    + destruct (A Hje) as [A1 A2]. destruct (Z_lt_dec i h') as [Hlt|]; [|lia].
      specialize (A2 i ltac:(lia)). rewrite Ei in A2. lia.
    + destruct (B Hn) as (B1 & B2 & B3 & B4).
      destruct (Z_lt_dec i (h' - 1)) as [Hlt|Hge].
      * specialize (B4 i ltac:(lia)). rewrite Ei in B4. lia.
      * destruct (Z.eq_dec i (h' - 1)) as [->|]; [|lia]. congruence.
  - (* ready *)
    intros p Hpj Lp Rp Sp. apply IREADY; auto. intros ->. change (lead a e0 = true) in Lp. congruence.
  - exact ITASKS.
  - exact IROOT.
  - exact IFB0.
Qed.
End DEQ.

(* ---------------- climb ---------------- *)
Lemma climb_ext fuel : forall a a' b, pstate a' = pstate a -> psize a' = psize a -> etree a' = etree a ->
  climb fuel a' b = climb fuel a b.
Proof.
  induction fuel as [|f IH]; intros a a' b H1 H2 H3; cbn [climb]; auto.
  unfold st, dadpanel, sz. rewrite H1, H2, H3.
  destruct (nthZ (pstate a) b =? c_DONE); auto.
Qed.

Lemma climb_spec a : WF a -> st a (sn a) = c_UNREADY ->
  forall fuel b, (lead a b = true \/ b = sn a) -> (Z.to_nat (sn a - b) < fuel)%nat ->
    (lead a (climb fuel a b) = true \/ climb fuel a b = sn a) /\ st a (climb fuel a b) <> c_DONE /\ b <= climb fuel a b.
Proof.
  intros W Hn. induction fuel as [|f IH]; intros b Hb Hf; [lia|].
  cbn [climb]. destruct (st a b =? c_DONE) eqn:E.
  - apply Z.eqb_eq in E. destruct Hb as [L| ->]; [|rewrite Hn in E; cs; lia].
    pose proof (wf_dad _ W b L) as D. pose proof (lead_range _ _ L) as [Rb _].
    assert (Hd : lead a (dadpanel a b) = true \/ dadpanel a b = sn a).
    { destruct (Z_lt_dec (dadpanel a b) (sn a)) as [Hl|]; [left; now apply W | right; lia]. }
    destruct (IH (dadpanel a b) Hd ltac:(lia)) as (A & B & C). repeat split; auto. lia.
  - apply Z.eqb_neq in E. repeat split; auto. lia.
Qed.

(* ---------------- take ---------------- *)
Definition tcond (a : sstate) (j : Z) : bool := (dadpanel a j <? sn a) && (uk a (dadpanel a j) =? 1).
Definition tpst (a : sstate) (j : Z) : list Z :=
  if tcond a j then updZ (updZ (pstate a) j c_BUSY) (dadpanel a j) c_CANPIPE else updZ (pstate a) j c_BUSY.

Lemma take_proj a j : let s' := fst (sched_take a j) in
  same_static a s' /\ pstate s' = tpst a j /\ pukids s' = pukids a /\
  q s' = (if tcond a j then updZ (q a) (qtail a) (dadpanel a j) else q a) /\
  qhead s' = qhead a /\ qtail s' = (if tcond a j then qtail a + 1 else qtail a) /\
  qcount s' = (if tcond a j then qcount a + 1 else qcount a) /\
  tasks s' = tasks a - 1 /\ fb s' = updZ (fb a) (dadpanel a j) (snd (sched_take a j)) /\
  lenZ (spin s') = lenZ (spin a).
Proof.
  unfold sched_take, tpst, tcond. cbn [fst snd].
  change (sz (set_pstate (set_tasks a (tasks a - 1)) (updZ (pstate (set_tasks a (tasks a - 1))) j c_BUSY)) j) with (sz a j).
  set (s3 := set_spin _ _).
  change (dadpanel s3 j) with (dadpanel a j). change (sn s3) with (sn a). change (uk s3 (dadpanel a j)) with (uk a (dadpanel a j)).
  destruct ((dadpanel a j <? sn a) && (uk a (dadpanel a j) =? 1)); cbn; repeat split; auto.
  all: unfold lenZ; now rewrite set_range_length.
Qed.

Lemma take_b a j : snd (sched_take a j) = climb (fuel_of a) (set_pstate a (tpst a j)) (nthZ (fb a) j).
Proof.
  unfold sched_take, tpst, tcond. cbn [fst snd].
  change (sz (set_pstate (set_tasks a (tasks a - 1)) (updZ (pstate (set_tasks a (tasks a - 1))) j c_BUSY)) j) with (sz a j).
  set (s3 := set_spin _ _).
  change (dadpanel s3 j) with (dadpanel a j). change (sn s3) with (sn a). change (uk s3 (dadpanel a j)) with (uk a (dadpanel a j)).
  destruct ((dadpanel a j <? sn a) && (uk a (dadpanel a j) =? 1)); cbn [snd]; apply climb_ext; reflexivity.
Qed.

Section TAKE.
Variable a : sstate.
Variable th1 : list (Z * Z).
Variables t j : Z.
Hypothesis HX : InvX (mkG a th1) j.
Hypothesis Ht : 0 <= t < tlen th1.
Hypothesis Hget : thr_get th1 t = (M_READY, c_EMPTY).
Hypothesis Lj : lead a j = true.
Hypothesis Sj : c_BUSY < st a j.
Hypothesis Hc : st a j <= c_CANPIPE \/ uk a j = 0.

Let d := dadpanel a j.
Let s' := fst (sched_take a j).
Let b := snd (sched_take a j).
Let th' := thr_upd th1 t (M_WORK, j).

Lemma tk_static : same_static a s'.
Proof. apply (take_proj a j). Qed.

Lemma tk_rj : 0 <= j < sn a. Proof. now apply lead_range in Lj. Qed.

Lemma tk_d : j < d <= sn a.
Proof. use_invx HX. now apply IWF. Qed.

Lemma tk_kid : kid a d j = true.
Proof. apply kid_iff; auto. Qed.

(* the parent of an untaken panel is itself untaken (UNREADY) *)
Lemma tk_d_unready : d < sn a -> lead a d = true /\ regular a d /\ st a d = c_UNREADY.
Proof.
  intros Hd. use_invx HX. destruct (wf_dadlead _ IWF j Lj Hd) as [Ld Rd]. fold d in Ld, Rd.
  split; auto. split; auto.
  destruct ISTATES as (_ & IS). destruct (IS d Ld) as [S1 _]. specialize (S1 Rd).
  destruct (Z_le_dec (st a d) c_CANPIPE) as [Hle|]; [|cs; lia].
  destruct (IJ d Ld Hle) as [J1 _]. specialize (J1 j tk_kid). lia.
Qed.

Lemma tk_st p : st s' p = if tcond a j && (p =? d) then c_CANPIPE else if p =? j then c_BUSY else st a p.
Proof.
  use_invx HX. destruct (take_proj a j) as (_ & P & _). fold s' in P. unfold st. rewrite P. unfold tpst.
  destruct ILEN as (A & _). pose proof tk_rj. pose proof tk_d. fold d.
  destruct (tcond a j) eqn:E; cbn [andb].
  - unfold tcond in E. apply andb_true_iff in E. destruct E as [E _]. apply Z.ltb_lt in E. fold d in E.
    rewrite nthZ_updZ by (rewrite lenZ_updZ; lia). destruct (p =? d); auto. apply nthZ_updZ; lia.
  - apply nthZ_updZ; lia.
Qed.

Lemma tk_uk p : uk s' p = uk a p.
Proof. destruct (take_proj a j) as (_ & _ & P & _). fold s' in P. unfold uk. now rewrite P. Qed.

Lemma tk_get t0 : thr_get th' t0 = if t0 =? t then (M_WORK, j) else thr_get th1 t0.
Proof. unfold th'. now rewrite thr_get_upd. Qed.

(* nobody holds an untaken panel *)
Lemma tk_not_held p : lead a p = true -> c_BUSY < st a p -> heldb th1 p = false.
Proof.
  intros Lp Sp. use_invx HX. destruct ITHREADS as (A & _). apply heldb_false_iff. intros t0 H0 G.
  specialize (A t0 H0). destruct (thr_get th1 t0) as [m c]. cbn in G. subst c. destruct A as (_ & A2 & A3).
  destruct (Z.eq_dec m M_WORK) as [->|Hm].
  - destruct (A2 eq_refl) as [_ B]. cs; lia.
  - destruct (A3 Hm) as [B|[_ B]]; [apply lead_range in Lp; cs; lia | cs; lia].
Qed.

Lemma tk_heldb p : 0 <= p -> heldb th' p = if p =? j then true else heldb th1 p.
Proof.
  intros Hp. destruct (p =? j) eqn:E.
  - apply Z.eqb_eq in E; subst. apply heldb_iff. exists t. unfold th'. rewrite tlen_upd. split; auto. fold th'. rewrite tk_get, Z.eqb_refl. reflexivity.
  - apply Z.eqb_neq in E. destruct (heldb th1 p) eqn:Eh.
    + apply heldb_iff in Eh. destruct Eh as (t0 & H0 & G). apply heldb_iff. exists t0. unfold th'. rewrite tlen_upd. split; auto.
      fold th'. rewrite tk_get. destruct (t0 =? t) eqn:E2; auto. apply Z.eqb_eq in E2; subst t0. rewrite Hget in G. cbn in G. cs. lia.
    + rewrite heldb_false_iff in *. intros t0 H0. unfold th' in H0. rewrite tlen_upd in H0. rewrite tk_get.
      destruct (t0 =? t); [cbn; congruence | now apply Eh].
Qed.

(* a reported child is DONE *)
Lemma tk_reported_done c : lead a c = true -> unrep a th1 c = false -> st a c = c_DONE.
Proof.
  intros Lc U. use_invx HX. unfold unrep in U. apply orb_false_iff in U. destruct U as [U1 U2]. apply Z.ltb_ge in U1.
  destruct ITHREADS as (_ & _ & C). destruct ISTATES as (_ & IS). destruct (IS c Lc) as [S1 S2].
  destruct (Z.eq_dec (st a c) c_BUSY) as [Hb|Hb].
  - destruct (C c Lc Hb) as (t0 & H0 & G). assert (heldb th1 c = true) by (apply heldb_iff; exists t0; split; auto; now rewrite G). congruence.
  - destruct (wf_types _ IWF c Lc) as [T|T]; [destruct (S1 T) as [|[|[|]]] | destruct (S2 T) as [|[|]]]; cs; lia.
Qed.

(* when taken, every child of j is taken and at most one is not DONE *)
Lemma tk_J_j : (forall c, kid a j c = true -> st a c <= c_BUSY) /\
               (forall c1 c2, kid a j c1 = true -> kid a j c2 = true -> st a c1 <> c_DONE -> st a c2 <> c_DONE -> c1 = c2).
Proof.
  use_invx HX. destruct Hc as [H1|H0]; [now apply IJ|].
  assert (AllDone : forall c, kid a j c = true -> st a c = c_DONE).
  { intros c K. pose proof (proj1 (kid_iff _ _ _) K) as [Lc _]. apply tk_reported_done; auto.
    rewrite (IUKIDS j (or_introl Lj)) in H0. unfold ukspec in H0.
    pose proof (countb_zero _ _ H0 c) as Z0. pose proof (lead_range _ _ Lc) as [Rc _].
    specialize (Z0 (proj2 (in_cols _ _) Rc)). cbn in Z0. rewrite K in Z0. exact Z0. }
  split.
  - intros c K. rewrite (AllDone c K). cs; lia.
  - intros c1 c2 K1 K2 N1. rewrite (AllDone c1 K1) in N1. congruence.
Qed.

(* when the parent becomes CANPIPE, j is its only unreported child *)
Lemma tk_J_d : tcond a j = true -> forall c, kid a d c = true -> c <> j -> st a c = c_DONE.
Proof.
  intros E c K Hne. use_invx HX. unfold tcond in E. apply andb_true_iff in E. destruct E as [E1 E2].
  apply Z.ltb_lt in E1. apply Z.eqb_eq in E2. fold d in E1, E2.
  destruct (tk_d_unready E1) as (Ld & _).
  pose proof (proj1 (kid_iff _ _ _) K) as [Lc _]. apply tk_reported_done; auto.
  destruct (unrep a th1 c) eqn:U; auto. exfalso. apply Hne.
  rewrite (IUKIDS d (or_introl Ld)) in E2. unfold ukspec in E2.
  pose proof (lead_range _ _ Lc) as [Rc _]. pose proof tk_rj.
  apply (countb_one_unique _ _ c j (NoDup_cols _) E2); try (apply in_cols; lia).
  - now rewrite K, U.
  - rewrite tk_kid. unfold unrep. assert (E3 : c_BUSY <? st a j = true) by (apply Z.ltb_lt; lia). now rewrite E3.
Qed.

Lemma tk_fb_ok : lead a b = true \/ b = sn a.
Proof.
  use_invx HX. unfold b. rewrite take_b.
  set (a4 := set_pstate a (tpst a j)).
  assert (FS4 : same_static a a4) by (repeat split).
  assert (W4 : WF a4) by (eapply fr_WF; eauto).
  assert (Hn4 : st a4 (sn a4) = c_UNREADY).
  { destruct ISTATES as (Hn & _). change (sn a4) with (sn a). unfold st, a4. cbn [pstate set_pstate]. unfold tpst.
    destruct ILEN as (A & _). pose proof tk_rj. pose proof tk_d. fold d.
    destruct (tcond a j) eqn:E.
    - unfold tcond in E. apply andb_true_iff in E. destruct E as [E _]. apply Z.ltb_lt in E. fold d in E.
      rewrite !nthZ_updZ_other by lia. exact Hn.
    - rewrite nthZ_updZ_other by lia. exact Hn. }
  assert (Hb0 : lead a4 (nthZ (fb a) j) = true \/ nthZ (fb a) j = sn a4).
  { rewrite (fr_lead _ _ FS4). change (sn a4) with (sn a). now apply IFB0. }
  destruct (climb_spec a4 W4 Hn4 (fuel_of a) (nthZ (fb a) j) Hb0) as (A & _).
  - change (sn a4) with (sn a). unfold fuel_of.
    destruct Hb0 as [L| ->]; [apply lead_range in L; change (sn a4) with (sn a) in L; lia | change (sn a4) with (sn a); lia].
  - rewrite (fr_lead _ _ FS4) in A. exact A.
Qed.

Lemma tk_untaken p : untaken s' p = if p =? j then false else untaken a p.
Proof.
  unfold untaken. rewrite (fr_lead _ _ tk_static), tk_st.
  destruct (lead a p) eqn:Lp; [|now destruct (p =? j)]. cbn [andb].
  destruct (tcond a j && (p =? d)) eqn:E.
  - apply andb_true_iff in E. destruct E as [E1 E2]. apply Z.eqb_eq in E2. subst p.
    unfold tcond in E1. apply andb_true_iff in E1. destruct E1 as [E1 _]. apply Z.ltb_lt in E1. fold d in E1.
    destruct (tk_d_unready E1) as (_ & _ & U). rewrite U. pose proof tk_d.
    assert (E3 : d =? j = false) by (apply Z.eqb_neq; lia). rewrite E3. cs. reflexivity.
  - destruct (p =? j); auto.
Qed.

Lemma tk_tasks_spec : tasks_spec s' = tasks_spec a - 1.
Proof.
  unfold tasks_spec. rewrite (fr_sn _ _ tk_static). pose proof tk_rj.
  apply countb_remove with (x := j).
  - apply NoDup_cols.
  - apply in_cols; lia.
  - unfold untaken. rewrite Lj. apply Z.ltb_lt in Sj. now rewrite Sj.
  - rewrite tk_untaken, Z.eqb_refl. reflexivity.
  - intros y Hy. rewrite tk_untaken. apply Z.eqb_neq in Hy. now rewrite Hy.
Qed.

(* from any untaken panel one reaches an untaken child of the dummy root *)
Lemma untaken_root (s0 : sstate) :
  WF s0 ->
  (forall p, lead s0 p = true -> st s0 p <= c_CANPIPE -> forall c, kid s0 p c = true -> st s0 c <= c_BUSY) ->
  forall (m : nat) p, (Z.to_nat (sn s0 - p) <= m)%nat -> lead s0 p = true -> c_BUSY < st s0 p ->
    exists r, kid s0 (sn s0) r = true /\ c_BUSY < st s0 r.
Proof.
  intros W J. induction m as [|m IHm]; intros p Hm Lp Sp.
  - apply lead_range in Lp. lia.
  - pose proof (wf_dad _ W p Lp) as D.
    destruct (Z.eq_dec (dadpanel s0 p) (sn s0)) as [Hd|Hd].
    + exists p. split; auto. apply kid_iff; auto.
    + destruct (wf_dadlead _ W p Lp ltac:(lia)) as [Ld _].
      assert (Sd : c_BUSY < st s0 (dadpanel s0 p)).
      { destruct (Z_le_dec (st s0 (dadpanel s0 p)) c_CANPIPE) as [Hle|]; [|cs; lia].
        assert (K : kid s0 (dadpanel s0 p) p = true) by (apply kid_iff; auto).
        specialize (J _ Ld Hle p K). lia. }
      apply (IHm (dadpanel s0 p)); auto. lia.
Qed.

Theorem inv_take : Inv (mkG s' th') /\ (lead a b = true \/ b = sn a).
Proof.
  split; [|exact tk_fb_ok].
  pose proof tk_static as FS. pose proof tk_rj as Rj. pose proof tk_d as Rd. pose proof tk_kid as Kj.
  destruct (take_proj a j) as (_ & Ppst & Puk & Pq & Pqh & Pqt & Pqc & Ptasks & Pfb & Pspin).
  fold s' in Ppst, Puk, Pq, Pqh, Pqt, Pqc, Ptasks, Pfb, Pspin. fold d in Pq, Pfb. fold b in Pfb.
  use_invx HX.
  assert (Hcond : tcond a j = true -> d < sn a /\ uk a d = 1).
  { unfold tcond. fold d. rewrite andb_true_iff, Z.ltb_lt, Z.eqb_eq. tauto. }
  (* J first: it is used by the root clause *)
  assert (NJ : forall p, lead s' p = true -> st s' p <= c_CANPIPE ->
     (forall c, kid s' p c = true -> st s' c <= c_BUSY) /\
     (forall c1 c2, kid s' p c1 = true -> kid s' p c2 = true -> st s' c1 <> c_DONE -> st s' c2 <> c_DONE -> c1 = c2)).
  { intros p Lp Sp. rewrite (fr_lead _ _ FS) in Lp. rewrite tk_st in Sp.
    assert (Kst : forall c, kid a p c = true -> p <> d -> st s' c = st a c).
    { intros c K Hpd. rewrite tk_st. apply kid_iff in K. destruct K as [Lc Dc].
      assert (c <> j) by (intros ->; fold d in Dc; congruence).
      assert (E2 : c =? j = false) by (apply Z.eqb_neq; auto). rewrite E2.
      destruct (tcond a j && (c =? d)) eqn:E; auto.
      apply andb_true_iff in E. destruct E as [E1 E3]. apply Z.eqb_eq in E3. subst c.
      (* p = dad d is taken although its child d is UNREADY: impossible *)
      exfalso. destruct (Hcond E1) as [Hd _]. destruct (tk_d_unready Hd) as (Ld & _ & Ud).
      assert (Spa : st a p <= c_CANPIPE).
      { destruct (tcond a j && (p =? d)) eqn:E4; [apply andb_true_iff in E4; destruct E4 as [_ E4]; apply Z.eqb_eq in E4; congruence|].
        destruct (p =? j) eqn:E5; [apply Z.eqb_eq in E5; subst p|exact Sp].
        (* p = j: d is a child of j, but d > j *) pose proof (wf_dad _ IWF d Ld). lia. }
      destruct (IJ p Lp Spa) as [J1 _]. assert (Kd : kid a p d = true) by (apply kid_iff; auto).
      specialize (J1 d Kd). rewrite Ud in J1. cs; lia. }
    destruct (Z.eq_dec p d) as [->|Hpd].
    - (* p = d *)
      destruct (tcond a j) eqn:E.
      + pose proof (tk_J_d E) as JD. split.
        * intros c K. rewrite (fr_kid _ _ FS) in K. rewrite tk_st.
          destruct (tcond a j && (c =? d)) eqn:E6.
          { apply andb_true_iff in E6. destruct E6 as [_ E6]. apply Z.eqb_eq in E6. subst c. pose proof (kid_lt _ _ _ IWF K). lia. }
          destruct (c =? j) eqn:E7; [cs; lia|]. apply Z.eqb_neq in E7. rewrite (JD c K E7). cs; lia.
        * intros c1 c2 K1 K2 N1 N2. rewrite (fr_kid _ _ FS) in K1, K2.
          assert (Hc1 : c1 = j).
          { destruct (Z.eq_dec c1 j); auto. exfalso. apply N1. rewrite tk_st.
            assert (E6 : c1 =? d = false) by (apply Z.eqb_neq; pose proof (kid_lt _ _ _ IWF K1); lia). rewrite E6, andb_false_r.
            assert (E7 : c1 =? j = false) by (apply Z.eqb_neq; auto). rewrite E7. now apply JD. }
          assert (Hc2 : c2 = j).
          { destruct (Z.eq_dec c2 j); auto. exfalso. apply N2. rewrite tk_st.
            assert (E6 : c2 =? d = false) by (apply Z.eqb_neq; pose proof (kid_lt _ _ _ IWF K2); lia). rewrite E6, andb_false_r.
            assert (E7 : c2 =? j = false) by (apply Z.eqb_neq; auto). rewrite E7. now apply JD. }
          congruence.
      + (* d keeps its state: UNREADY if d < n; d = n is not lead *)
        cbn [andb] in Sp. assert (E5 : d =? j = false) by (apply Z.eqb_neq; lia). rewrite E5 in Sp.
        pose proof (lead_range _ _ Lp) as [Rdd _]. destruct (tk_d_unready ltac:(lia)) as (_ & _ & U). rewrite U in Sp. cs; lia.
    - destruct (Z.eq_dec p j) as [->|Hpj].
      + destruct tk_J_j as [J1 J2]. split.
        * intros c K. rewrite (fr_kid _ _ FS) in K. rewrite (Kst c K Hpd). now apply J1.
        * intros c1 c2 K1 K2. rewrite (fr_kid _ _ FS) in K1, K2. rewrite (Kst c1 K1 Hpd), (Kst c2 K2 Hpd). now apply J2.
      + assert (E5 : p =? j = false) by (apply Z.eqb_neq; auto). assert (E6 : p =? d = false) by (apply Z.eqb_neq; auto).
        rewrite E5, E6, andb_false_r in Sp. destruct (IJ p Lp Sp) as [J1 J2]. split.
        * intros c K. rewrite (fr_kid _ _ FS) in K. rewrite (Kst c K Hpd). now apply J1.
        * intros c1 c2 K1 K2. rewrite (fr_kid _ _ FS) in K1, K2. rewrite (Kst c1 K1 Hpd), (Kst c2 K2 Hpd). now apply J2. }
  assert (NT : tasks s' = tasks_spec s').
  { rewrite Ptasks, tk_tasks_spec, ITASKS. reflexivity. }
  constructor; invx_unf.
  - (* WF *) eapply fr_WF; eauto.
  - (* len *)
    destruct ILEN as (A & B & C & D & E). rewrite Ppst, Puk, Pq, Pfb, Pspin, (fr_sn _ _ FS). unfold tpst.
    repeat split; auto.
    + destruct (tcond a j); rewrite ?lenZ_updZ; auto.
    + now rewrite lenZ_updZ.
    + destruct (tcond a j); rewrite ?lenZ_updZ; auto.
  - (* states *)
    destruct ISTATES as (Hn & IS). rewrite (fr_sn _ _ FS). split.
    + rewrite tk_st. destruct (tcond a j && (sn a =? d)) eqn:E.
      { apply andb_true_iff in E. destruct E as [E1 E2]. apply Z.eqb_eq in E2. destruct (Hcond E1). lia. }
      assert (E2 : sn a =? j = false) by (apply Z.eqb_neq; lia). now rewrite E2.
    + intros p Lp. rewrite (fr_lead _ _ FS) in Lp. rewrite (fr_regular _ _ FS), (fr_relaxed _ _ FS), tk_st.
      destruct (tcond a j && (p =? d)) eqn:E.
      { apply andb_true_iff in E. destruct E as [E1 E2]. apply Z.eqb_eq in E2. subst p. destruct (Hcond E1) as [Hd _].
        destruct (tk_d_unready Hd) as (_ & Rg & _). split; [cs; auto|]. intros Rx. unfold regular, relaxed in *. cs. congruence. }
      destruct (p =? j); [cs; split; intros; auto | now apply IS].
  - (* threads *)
    destruct ITHREADS as (A & B & C). split; [|split].
    + intros t0 H0. unfold th' in H0. rewrite tlen_upd in H0. rewrite tk_get.
      destruct (t0 =? t) eqn:E.
      * split; [cs; lia|]. split; [|cs; congruence]. intros _. rewrite (fr_lead _ _ FS), tk_st. split; auto.
        assert (E2 : j =? d = false) by (apply Z.eqb_neq; lia). rewrite E2, andb_false_r, Z.eqb_refl. reflexivity.
      * specialize (A t0 H0). destruct (thr_get th1 t0) as [m c] eqn:G. destruct A as (A1 & A2 & A3).
        split; auto. rewrite (fr_lead _ _ FS), tk_st.
        (* c is EMPTY or a taken panel, hence neither j nor (when it changes) d *)
        assert (Hcs : lead a c = true -> st a c <= c_BUSY -> (tcond a j && (c =? d) = false) /\ (c =? j) = false).
        { intros Lc Sc. split.
          - destruct (tcond a j && (c =? d)) eqn:E6; auto. apply andb_true_iff in E6. destruct E6 as [E6 E7].
            apply Z.eqb_eq in E7. subst c. destruct (Hcond E6) as [Hd _]. destruct (tk_d_unready Hd) as (_ & _ & U). rewrite U in Sc. cs; lia.
          - apply Z.eqb_neq. intros ->. lia. }
        split.
        { intros Hm. destruct (A2 Hm) as [Lc Bc]. destruct (Hcs Lc ltac:(lia)) as [-> ->]. auto. }
        { intros Hm. destruct (A3 Hm) as [Ec|[Lc Dc]]; [now left | right].
          destruct (Hcs Lc ltac:(rewrite Dc; cs; lia)) as [-> ->]. auto. }
    + intros t1 t2 H1 H2 Hne. unfold th' in H1, H2. rewrite tlen_upd in H1, H2. rewrite !tk_get.
      assert (Hnj : forall t0, 0 <= t0 < tlen th1 -> snd (thr_get th1 t0) <> j).
      { apply heldb_false_iff. now apply tk_not_held. }
      destruct (t1 =? t) eqn:E1; destruct (t2 =? t) eqn:E2; cbn [snd].
      * apply Z.eqb_eq in E1, E2. lia.
      * intros G. exfalso. apply (Hnj t2 H2). now symmetry.
      * intros G. exfalso. apply (Hnj t1 H1). exact G.
      * now apply B.
    + intros p Lp Bp. rewrite (fr_lead _ _ FS) in Lp. rewrite tk_st in Bp.
      destruct (tcond a j && (p =? d)); [cs; lia|].
      destruct (p =? j) eqn:E.
      * apply Z.eqb_eq in E. subst p. exists t. unfold th'. rewrite tlen_upd. split; auto. fold th'. now rewrite tk_get, Z.eqb_refl.
      * destruct (C p Lp Bp) as (t0 & H0 & G). exists t0. unfold th'. rewrite tlen_upd. split; auto. fold th'. rewrite tk_get.
        destruct (t0 =? t) eqn:E2; auto. apply Z.eqb_eq in E2. subst t0. rewrite Hget in G. cs. discriminate G.
  - (* ukids *)
    intros p Hp. rewrite (fr_lead _ _ FS), (fr_sn _ _ FS) in Hp. rewrite tk_uk, (IUKIDS p Hp).
    unfold ukspec. rewrite (fr_sn _ _ FS). apply countb_ext. intros c Hcc. apply in_cols in Hcc.
    rewrite (fr_kid _ _ FS). destruct (kid a p c) eqn:K; auto. cbn [andb].
    pose proof (proj1 (kid_iff _ _ _) K) as [Lc _].
    unfold unrep. rewrite tk_heldb by lia. rewrite tk_st.
    destruct (c =? j) eqn:E.
    + apply Z.eqb_eq in E. subst c. apply Z.ltb_lt in Sj. rewrite Sj. now rewrite !orb_true_r.
    + destruct (tcond a j && (c =? d)) eqn:E2; auto.
      apply andb_true_iff in E2. destruct E2 as [E2 E3]. apply Z.eqb_eq in E3. subst c.
      destruct (Hcond E2) as [Hd _]. destruct (tk_d_unready Hd) as (_ & _ & U). rewrite U. cs. reflexivity.
  - (* J *) exact NJ.
  - (* D *)
    intros p Lp Dp c K. rewrite (fr_lead _ _ FS) in Lp. rewrite (fr_kid _ _ FS) in K. rewrite tk_st in Dp.
    destruct (tcond a j && (p =? d)); [cs; lia|]. destruct (p =? j) eqn:E; [cs; lia|].
    pose proof (ID p Lp Dp c K) as Dc. rewrite tk_st.
    pose proof (proj1 (kid_iff _ _ _) K) as [Lc Dadc].
    destruct (tcond a j && (c =? d)) eqn:E2.
    { apply andb_true_iff in E2. destruct E2 as [E2 E3]. apply Z.eqb_eq in E3. subst c.
      destruct (Hcond E2) as [Hd _]. destruct (tk_d_unready Hd) as (_ & _ & U). rewrite U in Dc. cs; lia. }
    destruct (c =? j) eqn:E3; auto. apply Z.eqb_eq in E3. subst c. rewrite Dc in Sj. cs; lia.
  - (* queue *)
    destruct IQUEUE as (Q1 & Q2 & Q3 & Q4 & Q5 & Q6).
    rewrite Pq, Pqh, Pqt, Pqc, (fr_sn _ _ FS).
    destruct (tcond a j) eqn:E.
    + destruct (Hcond eq_refl) as [Hd Hu]. destruct (tk_d_unready Hd) as (Ld & Rgd & Ud).
      assert (Hnin : ~ In d (firstn (Z.to_nat (qtail a)) (q a))).
      { intros Hin. apply in_firstn_nthZ in Hin. destruct Hin as (i & Hi & _ & Ei).
        destruct (Q5 i ltac:(lia)) as [_ Rg]. rewrite Ei in Rg. specialize (Rg Rgd). rewrite Ud in Rg. cs; lia. }
      destruct ILEN as (_ & _ & _ & Lq & _).
      assert (ND : NoDup (firstn (Z.to_nat (qtail a)) (q a) ++ [d])).
      { apply NoDup_snoc; auto. }
      assert (Htl : qtail a < sn a).
      { pose proof (NoDup_bounded_length _ (sn a) ND) as Hb.
        rewrite app_length, firstn_length in Hb. cbn [length] in Hb.
        assert (Hall : forall y, In y (firstn (Z.to_nat (qtail a)) (q a) ++ [d]) -> 0 <= y < sn a).
        { intros y Hy. apply in_app_iff in Hy. destruct Hy as [Hy|[<-|[]]].
          - apply in_firstn_nthZ in Hy. destruct Hy as (i & Hi & _ & Ei). destruct (Q5 i ltac:(lia)) as [L _]. rewrite Ei in L. now apply lead_range in L.
          - now apply lead_range in Ld. }
        specialize (Hb Hall). unfold lenZ in Lq. lia. }
      split; [lia|]. split; [lia|]. split; [lia|]. split; [|split].
      * replace (Z.to_nat (qtail a + 1)) with (S (Z.to_nat (qtail a))) by lia.
        rewrite firstn_S_nthZ by (rewrite lenZ_updZ; lia).
        rewrite firstn_updZ_ge by lia. rewrite Z2Nat.id by lia. rewrite nthZ_updZ_same by lia. exact ND.
      * intros i Hi. rewrite (fr_lead _ _ FS), (fr_regular _ _ FS).
        destruct (Z.eq_dec i (qtail a)) as [->|Hne].
        { rewrite nthZ_updZ_same by lia. split; auto. intros _. rewrite tk_st, E, Z.eqb_refl. cbn. cs; lia. }
        rewrite nthZ_updZ_other by lia. destruct (Q5 i ltac:(lia)) as [L Rg]. split; auto.
        intros Rr. specialize (Rg Rr). rewrite tk_st. destruct (_ && _); [cs; lia|]. destruct (_ =? j); [cs; lia | auto].
      * intros p Lp Sp. rewrite (fr_lead _ _ FS) in Lp. rewrite tk_st, E in Sp. cbn [andb] in Sp.
        destruct (p =? d) eqn:E2.
        { apply Z.eqb_eq in E2. subst p. exists (qtail a). split; [lia|]. apply nthZ_updZ_same; lia. }
        destruct (p =? j) eqn:E3; [cs; lia|]. apply Z.eqb_neq in E3.
        destruct (Q6 p E3 Lp Sp) as (i & Hi & Ei). exists i. split; [lia|]. rewrite nthZ_updZ_other by lia. exact Ei.
    + split; [lia|]. split; [lia|]. split; [lia|]. split; [exact Q4|]. split.
      * intros i Hi. rewrite (fr_lead _ _ FS), (fr_regular _ _ FS). destruct (Q5 i Hi) as [L Rg]. split; auto.
        intros Rr. specialize (Rg Rr). rewrite tk_st, E. cbn [andb]. destruct (_ =? j); [cs; lia | auto].
      * intros p Lp Sp. rewrite (fr_lead _ _ FS) in Lp. rewrite tk_st, E in Sp. cbn [andb] in Sp.
        destruct (p =? j) eqn:E3; [cs; lia|]. apply Z.eqb_neq in E3. now apply Q6.
  - (* ready *)
    intros p Lp Rp Sp. rewrite (fr_lead _ _ FS) in Lp. rewrite (fr_regular _ _ FS) in Rp. rewrite tk_st in Sp. rewrite tk_uk.
    destruct (tcond a j && (p =? d)) eqn:E.
    + apply andb_true_iff in E. destruct E as [E1 E2]. apply Z.eqb_eq in E2. subst p. destruct (Hcond E1). lia.
    + destruct (p =? j) eqn:E3; [cs; lia|]. apply Z.eqb_neq in E3. now apply IREADY.
  - (* tasks *) exact NT.
  - (* root *)
    rewrite (fr_sn _ _ FS). split.
    + intros Hpos. rewrite NT in Hpos. unfold tasks_spec in Hpos.
      (* some panel is untaken in s' *)
      destruct (filter (untaken s') (cols (sn s'))) as [|p0 rest] eqn:Ef.
      { unfold countb in Hpos. rewrite Ef in Hpos. cbn in Hpos. lia. }
      assert (Hin : In p0 (filter (untaken s') (cols (sn s')))) by (rewrite Ef; now left).
      apply filter_In in Hin. destruct Hin as [_ Hu]. unfold untaken in Hu. apply andb_true_iff in Hu. destruct Hu as [L0 S0].
      apply Z.ltb_lt in S0.
      assert (W' : WF s') by (eapply fr_WF; eauto).
      destruct (untaken_root s' W') with (m := Z.to_nat (sn s' - p0)) (p := p0) as (r & Kr & Sr); auto.
      * intros p Lp Sp. now apply NJ.
      * exists r. rewrite (fr_sn _ _ FS) in Kr. auto.
    + intros Hz. exists j, t. rewrite (fr_kid _ _ FS). unfold th'. rewrite tlen_upd. fold th'. rewrite tk_get, Z.eqb_refl. cbn [fst snd].
      split; [|split; [exact Ht | split; [reflexivity | cs; lia]]].
      (* j was the only untaken panel, so its parent is the root *)
      apply kid_iff. split; auto. fold d.
      destruct (Z.eq_dec d (sn a)) as [|Hd]; auto. exfalso.
      destruct (tk_d_unready ltac:(lia)) as (Ld & _ & Ud).
      assert (2 <= tasks_spec a).
      { unfold tasks_spec. apply countb_two with (x := j) (y := d); try apply NoDup_cols; try (apply in_cols; lia).
        - lia.
        - unfold untaken. rewrite Lj. apply Z.ltb_lt in Sj. now rewrite Sj.
        - unfold untaken. rewrite Ld, Ud. cs. reflexivity. }
      rewrite Ptasks, ITASKS in Hz. lia.
  - (* fb0 *)
    intros p Lp. rewrite (fr_lead _ _ FS) in Lp. rewrite (fr_lead _ _ FS), (fr_sn _ _ FS), Pfb.
    destruct ILEN as (_ & _ & Lfb & _). pose proof (lead_range _ _ Lp) as [Rp _].
    destruct (Z.eq_dec p d) as [->|Hne].
    + rewrite nthZ_updZ_same by lia. exact tk_fb_ok.
    + rewrite nthZ_updZ_other by lia. now apply IFB0.
Qed.

(* everything later developments need to know about taking a panel, with all hypotheses explicit *)
Lemma take_facts :
  same_static a s' /\ j < d <= sn a /\
  (forall p, st s' p = if tcond a j && (p =? d) then c_CANPIPE else if p =? j then c_BUSY else st a p) /\
  fb s' = updZ (fb a) d b /\
  b = climb (fuel_of a) (set_pstate a (tpst a j)) (nthZ (fb a) j) /\
  (d < sn a -> lead a d = true /\ regular a d /\ st a d = c_UNREADY) /\
  ((forall c, kid a j c = true -> st a c <= c_BUSY) /\
   (forall c1 c2, kid a j c1 = true -> kid a j c2 = true -> st a c1 <> c_DONE -> st a c2 <> c_DONE -> c1 = c2)) /\
  (uk a j = 0 -> forall c, kid a j c = true -> st a c = c_DONE) /\
  (tcond a j = true -> d < sn a /\ forall c, kid a d c = true -> c <> j -> st a c = c_DONE) /\
  Inv (mkG s' th').
Proof.
  split; [exact tk_static|]. split; [exact tk_d|]. split; [exact tk_st|].
  split; [destruct (take_proj a j) as (_ & _ & _ & _ & _ & _ & _ & _ & P & _); exact P|].
  split; [exact (take_b a j)|]. split; [exact tk_d_unready|]. split; [exact tk_J_j|].
  split.
  { intros H0 c K. use_invx HX. pose proof (proj1 (kid_iff _ _ _) K) as [Lc _]. apply tk_reported_done; auto.
    rewrite (IUKIDS j (or_introl Lj)) in H0. unfold ukspec in H0.
    pose proof (countb_zero _ _ H0 c) as Z0. pose proof (lead_range _ _ Lc) as [Rc _].
    specialize (Z0 (proj2 (in_cols _ _) Rc)). cbn in Z0. rewrite K in Z0. exact Z0. }
  split.
  { intros E. split; [|exact (tk_J_d E)]. unfold tcond in E. apply andb_true_iff in E. destruct E as [E _]. now apply Z.ltb_lt in E. }
  exact (proj1 inv_take).
Qed.
End TAKE.
