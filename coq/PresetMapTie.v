(* PresetMapTie.v -- hand-written: the definitions that tools/gen_trans_pm.py re-translates from ?PresetMap of SRC/p[dscz]memory.c on
   every run (coq/PresetMapGen.v) compute AllocModel.preset_map (static scheme) resp. AllocModel.preset_map_dyn (dynamic scheme). *)
From Coq Require Import ZArith List Bool Lia ZifyBool.
From SLU Require Import Consts C2GalLib SchedModel SchedBase AllocModel AllocProofs PresetMapGen SchedInitTie.
Import ListNotations.
Local Open Scope Z_scope.

(* ---------------------------------------------------------------------------------------------------------------------- *)
(* small facts on nthZ / updZ                                                                                              *)
Lemma updZ_idem : forall l i v, updZ (updZ l i v) i v = updZ l i v.
Proof.
  intros l i v. destruct (Z_lt_dec i 0) as [Hneg|Hpos].
  - rewrite !updZ_out by (unfold lenZ; lia). reflexivity.
  - destruct (Z_lt_dec i (lenZ l)) as [Hin|Hout].
    + apply nth_ext with (d := 0) (d' := 0); [now rewrite !updZ_length|].
      intros p Hp. rewrite !updZ_length in Hp.
      assert (Hq : forall l', nth p l' 0 = nthZ l' (Z.of_nat p)).
      { intros l'. unfold nthZ. destruct (Z.of_nat p <? 0) eqn:E; [lia|]. now rewrite Nat2Z.id. }
      rewrite !Hq. destruct (Z.eq_dec (Z.of_nat p) i) as [He|Hne].
      * rewrite He. rewrite !nthZ_updZ_same by (rewrite ?lenZ_updZ; lia). reflexivity.
      * rewrite !nthZ_updZ_other by lia. reflexivity.
    + rewrite (updZ_out l i v) by lia. rewrite updZ_out by lia. reflexivity.
Qed.

Lemma nthZ_updZ_ge1 : forall n l i v, (forall p, 0 <= p < n -> 1 <= nthZ l p) -> 1 <= v ->
  forall p, 0 <= p < n -> 1 <= nthZ (updZ l i v) p.
Proof.
  intros n l i v Hl Hv p Hp.
  destruct (Z.eq_dec i p) as [He|Hne].
  - subst i. destruct (Z_lt_dec p (lenZ l)) as [Hin|Hout].
    + rewrite nthZ_updZ_same by lia. exact Hv.
    + rewrite updZ_out by lia. apply Hl. exact Hp.
  - rewrite nthZ_updZ_other by exact Hne. apply Hl. exact Hp.
Qed.

(* ---------------------------------------------------------------------------------------------------------------------- *)
(* ifill(marker, n, EMPTY)                                                                                                 *)
Lemma ifill_tie : forall alen v l, 0 <= alen <= lenZ l ->
  lenZ (gen_ifill alen v l) = lenZ l /\ forall p, 0 <= p < alen -> nthZ (gen_ifill alen v l) p = v.
Proof.
  intros alen v l Hlen. unfold gen_ifill.
  apply (fold_zrange_inv (list Z) (fun i st => lenZ st = lenZ l /\ forall p, 0 <= p < i -> nthZ st p = v)).
  - lia.
  - split; [reflexivity | intros p Hp; lia].
  - intros i st Hi [Hl Hst]. unfold gen_ifill_loop1. split; [now rewrite lenZ_updZ|].
    intros p Hp. destruct (Z.eq_dec p i) as [He|Hne].
    + subst p. apply nthZ_updZ_same. lia.
    + rewrite nthZ_updZ_other by lia. apply Hst. lia.
Qed.

(* ---------------------------------------------------------------------------------------------------------------------- *)
(* splitting the large supernodes of H                                                                                     *)
Definition sb_pos (n : Z) (sb : list Z) : Prop := forall p, 0 <= p < n -> 1 <= nthZ sb p.
Definition sb_fit (n : Z) (sb : list Z) (j : Z) : Prop := forall p, j <= p < n -> p + nthZ sb p <= n.

Lemma split_piece_pos : forall n maxsup g sb j k w, sb_pos n sb -> 1 <= w -> 1 <= maxsup ->
  sb_pos n (split_piece g sb j k w maxsup).
Proof.
  intros n maxsup. induction g as [|g IH]; intros sb j k w Hsb Hw Hm; cbn [split_piece]; [exact Hsb|].
  destruct (j <? k); [|exact Hsb].
  apply IH; [|exact Hm|exact Hm]. intros p Hp. apply (nthZ_updZ_ge1 n); assumption.
Qed.

Lemma split_piece_above : forall maxsup g sb j k w p, k <= p -> nthZ (split_piece g sb j k w maxsup) p = nthZ sb p.
Proof.
  intros maxsup. induction g as [|g IH]; intros sb j k w p Hp; cbn [split_piece]; [reflexivity|].
  destruct (j <? k) eqn:E; [|reflexivity].
  rewrite IH by exact Hp. apply nthZ_updZ_other. lia.
Qed.

Lemma piece_tie : forall maxsup k, 1 <= maxsup -> forall g f j w sb, 1 <= w ->
  (Z.to_nat (k - j) < f)%nat -> (Z.to_nat (k - j) < g)%nat ->
  exists j' w', gen_dPresetMap_while1 f maxsup k (j, w, sb) = Some (j', w', split_piece g sb j k w maxsup).
Proof.
  intros maxsup k Hm. induction g as [|g IH]; intros f j w sb Hw Hf Hg; [lia|].
  destruct f as [|f]; [lia|].
  cbn [gen_dPresetMap_while1 split_piece].
  destruct (j <? k) eqn:E.
  - apply IH; lia.
  - eauto.
Qed.

Lemma split_tie : forall n maxsup, 1 <= maxsup -> forall g f j k0 sb, 0 <= j -> sb_pos n sb -> sb_fit n sb j ->
  (Z.to_nat (n - j) < f)%nat -> (Z.to_nat (n - j) < g)%nat ->
  (exists j' k', gen_dPresetMap_while2 f n maxsup (j, k0, sb) = Some (j', k', split_loop g n sb j maxsup)) /\
  sb_pos n (split_loop g n sb j maxsup).
Proof.
  intros n maxsup Hm. induction g as [|g IH]; intros f j k0 sb Hj Hpos Hfit Hf Hg; [lia|].
  destruct f as [|f]; [lia|].
  cbn [gen_dPresetMap_while2 split_loop].
  destruct (j <? n) eqn:Ejn; [|split; [eauto|exact Hpos]].
  assert (Hw1 : 1 <= nthZ sb j) by (apply Hpos; lia).
  assert (Hw2 : j + nthZ sb j <= n) by (apply Hfit; lia).
  set (w := nthZ sb j) in *.
  replace (j + w <=? j) with false by lia.
  destruct (w >? maxsup) eqn:Egt.
  - replace (maxsup <? w) with true by lia.
    assert (Hrem : Z.rem w maxsup = w mod maxsup) by (apply Z.rem_mod_nonneg; lia).
    rewrite Hrem.
    set (w0 := if w mod maxsup =? 0 then maxsup else w mod maxsup).
    assert (Hw0 : 1 <= w0).
    { subst w0. pose proof (Z.mod_pos_bound w maxsup ltac:(lia)) as Hb. destruct (w mod maxsup =? 0) eqn:E0; lia. }
    destruct (piece_tie maxsup (j + w) Hm (Z.to_nat n + 1)%nat (S f) j w0 sb Hw0 ltac:(lia) ltac:(lia)) as (j' & w' & Hp).
    change (if w mod maxsup =? 0 then maxsup else w mod maxsup) with w0.
    rewrite Hp.
    apply IH; try lia.
    + apply split_piece_pos; assumption.
    + intros p Hp'. rewrite split_piece_above by lia. apply Hfit. lia.
  - replace (maxsup <? w) with false by lia.
    apply IH; try lia; [exact Hpos|]. intros p Hp'. apply Hfit. lia.
Qed.

(* ---------------------------------------------------------------------------------------------------------------------- *)
(* the rows of a relaxed supernode: marker[] against the list of rows seen                                                 *)
Definition mk_rel (n j : Z) (mk seen : list Z) (cnt : Z) : Prop :=
  lenZ mk = n /\ cnt = Z.of_nat (length seen) /\
  (forall r, 0 <= r < n -> nthZ mk r <= j) /\ (forall r, 0 <= r < n -> (nthZ mk r = j <-> In r seen)).
Definition mk_lt (n j : Z) (mk : list Z) : Prop := lenZ mk = n /\ forall r, 0 <= r < n -> nthZ mk r < j.
Definition rows_ok (n : Z) (colbeg colend rowind : list Z) : Prop :=
  forall i p, 0 <= i < n -> nthZ colbeg i <= p < nthZ colend i -> 0 <= nthZ rowind p < n.

Lemma existsb_eqb_In : forall r seen, existsb (Z.eqb r) seen = true <-> In r seen.
Proof.
  intros r seen. rewrite existsb_exists. split.
  - intros (x & Hin & He). apply Z.eqb_eq in He. now subst x.
  - intros Hin. exists r. split; [exact Hin | apply Z.eqb_refl].
Qed.

Lemma pm_rows_step : forall n rowind j mk seen cnt k, mk_rel n j mk seen cnt -> 0 <= nthZ rowind k < n ->
  exists cnt' mk', gen_dPresetMap_loop1 rowind j (cnt, mk) k = (cnt', mk') /\
    mk_rel n j mk' (if existsb (Z.eqb (nthZ rowind k)) seen then seen else nthZ rowind k :: seen) cnt'.
Proof.
  intros n rowind j mk seen cnt k (Hlen & Hcnt & Hle & Hiff) Hr.
  unfold gen_dPresetMap_loop1. set (r := nthZ rowind k) in *.
  destruct (nthZ mk r =? j) eqn:E; cbn [negb].
  - assert (Hin : In r seen) by (apply Hiff; lia).
    apply existsb_eqb_In in Hin. rewrite Hin. exists cnt, mk. split; [reflexivity|]. repeat split; try assumption; apply Hiff; assumption.
  - assert (Hnin : existsb (Z.eqb r) seen = false).
    { destruct (existsb (Z.eqb r) seen) eqn:Ex; [|reflexivity]. apply existsb_eqb_In in Ex. apply Hiff in Ex; lia. }
    rewrite Hnin. exists (cnt + 1), (updZ mk r j). split; [reflexivity|]. split; [now rewrite lenZ_updZ|]. split; [cbn [length]; lia|]. split.
    + intros r' Hr'. rewrite nthZ_updZ by lia. destruct (r' =? r); [lia | now apply Hle].
    + intros r' Hr'. rewrite nthZ_updZ by lia. destruct (r' =? r) eqn:Er.
      * split; [intros _; left; lia | reflexivity].
      * split; [intros Hj; right; now apply Hiff | intros [He|Hin]; [lia | now apply Hiff]].
Qed.

Lemma pm_rows_fold : forall n rowind j ks mk seen cnt, (forall k, In k ks -> 0 <= nthZ rowind k < n) -> mk_rel n j mk seen cnt ->
  exists cnt' mk', fold_left (gen_dPresetMap_loop1 rowind j) ks (cnt, mk) = (cnt', mk') /\
    mk_rel n j mk' (add_rows (map (nthZ rowind) ks) seen) cnt'.
Proof.
  intros n rowind j. induction ks as [|k ks IH]; intros mk seen cnt Hks Hrel; cbn [fold_left map add_rows].
  - eauto.
  - destruct (pm_rows_step n rowind j mk seen cnt k Hrel (Hks k (or_introl eq_refl))) as (cnt1 & mk1 & Hs & Hrel1).
    rewrite Hs. apply IH; [intros k' Hk'; apply Hks; now right | exact Hrel1].
Qed.

Lemma pm_col_step : forall n colbeg colend rowind j i k mk seen cnt, rows_ok n colbeg colend rowind -> 0 <= i < n ->
  mk_rel n j mk seen cnt ->
  exists k' cnt' mk', gen_dPresetMap_loop2 colbeg colend rowind j (k, cnt, mk) i = (k', cnt', mk') /\
    mk_rel n j mk' (add_rows (map (fun p => nthZ rowind (nthZ colbeg i + Z.of_nat p))
                                  (seq 0 (Z.to_nat (nthZ colend i - nthZ colbeg i)))) seen) cnt'.
Proof.
  intros n colbeg colend rowind j i k mk seen cnt Hrows Hi Hrel.
  unfold gen_dPresetMap_loop2.
  destruct (pm_rows_fold n rowind j (zrange (nthZ colbeg i) (nthZ colend i)) mk seen cnt) as (cnt' & mk' & Hf & Hrel').
  - intros p Hp. apply zrange_In in Hp. apply (Hrows i p Hi Hp).
  - exact Hrel.
  - rewrite Hf. do 3 eexists. split; [reflexivity|].
    unfold zrange in Hrel'. rewrite map_map in Hrel'. exact Hrel'.
Qed.

Lemma pm_cols_tie_nat : forall n colbeg colend rowind j, rows_ok n colbeg colend rowind ->
  forall c i k mk seen cnt, 0 <= i -> i + Z.of_nat c <= n -> mk_rel n j mk seen cnt ->
  exists k' cnt' mk', fold_left (gen_dPresetMap_loop2 colbeg colend rowind j) (zrange i (i + Z.of_nat c)) (k, cnt, mk) = (k', cnt', mk') /\
    mk_rel n j mk' (col_rows colbeg colend rowind i c seen) cnt'.
Proof.
  intros n colbeg colend rowind j Hrows. induction c as [|c IH]; intros i k mk seen cnt Hi Hn Hrel.
  - rewrite zrange_nil by lia. cbn [fold_left col_rows]. eauto.
  - rewrite zrange_of_nat. cbn [fold_left col_rows].
    destruct (pm_col_step n colbeg colend rowind j i k mk seen cnt Hrows ltac:(lia) Hrel) as (k1 & cnt1 & mk1 & Hs & Hrel1).
    rewrite Hs. apply IH; [lia | lia | exact Hrel1].
Qed.

Lemma pm_cols_tie : forall n colbeg colend rowind j, rows_ok n colbeg colend rowind ->
  forall s i k mk seen cnt, 0 <= i -> 0 <= s -> i + s <= n -> mk_rel n j mk seen cnt ->
  exists k' cnt' mk', fold_left (gen_dPresetMap_loop2 colbeg colend rowind j) (zrange i (i + s)) (k, cnt, mk) = (k', cnt', mk') /\
    mk_rel n j mk' (col_rows colbeg colend rowind i (Z.to_nat s) seen) cnt'.
Proof.
  intros n colbeg colend rowind j Hrows s i k mk seen cnt Hi Hs Hn Hrel.
  pose proof (pm_cols_tie_nat n colbeg colend rowind j Hrows (Z.to_nat s) i k mk seen cnt Hi ltac:(lia) Hrel) as H.
  rewrite Z2Nat.id in H by lia. exact H.
Qed.

(* ---------------------------------------------------------------------------------------------------------------------- *)
(* for (i = j; i < rs_lastcol; k = i, i += super_bnd[i]);                                                                  *)
Lemma pm_leader_tie : forall n sb last, sb_pos n sb -> last <= n -> forall g f i k, 0 <= i ->
  (Z.to_nat (last - i) < f)%nat -> (Z.to_nat (last - i) < g)%nat ->
  gen_dPresetMap_while3 f sb last (i, k) = Some (next_leader g sb i k last) /\ (i <= last -> last <= fst (next_leader g sb i k last)).
Proof.
  intros n sb last Hpos Hlast. induction g as [|g IH]; intros f i k Hi Hf Hg; [lia|].
  destruct f as [|f]; [lia|].
  cbn [gen_dPresetMap_while3 next_leader].
  destruct (i <? last) eqn:E.
  - assert (Hw : 1 <= nthZ sb i) by (apply Hpos; lia).
    replace (1 <=? nthZ sb i) with true by lia.
    destruct (IH f (i + nthZ sb i) i ltac:(lia) ltac:(lia) ltac:(lia)) as [H1 H2].
    split; [exact H1|]. intros _.
    destruct (Z_le_dec (i + nthZ sb i) last) as [Hle|Hgt]; [apply H2; exact Hle|].
    clear H1 H2. destruct g as [|g]; [lia|]. cbn [next_leader]. replace (i + nthZ sb i <? last) with false by lia. cbn [fst]. lia.
  - split; [reflexivity|]. cbn [fst]. lia.
Qed.

(* the first iteration overwrites k: the result does not depend on the value k had before the loop *)
Lemma pm_leader_tie0 : forall n sb last, sb_pos n sb -> last <= n -> forall g f i k1 k2, 0 <= i < last ->
  (Z.to_nat (last - i) < f)%nat -> (Z.to_nat (last - i) < g)%nat ->
  gen_dPresetMap_while3 f sb last (i, k1) = Some (next_leader g sb i k2 last) /\ last <= fst (next_leader g sb i k2 last).
Proof.
  intros n sb last Hpos Hlast g f i k1 k2 Hi Hf Hg.
  destruct g as [|g]; [lia|]. destruct f as [|f]; [lia|].
  cbn [gen_dPresetMap_while3 next_leader].
  replace (i <? last) with true by lia.
  assert (Hw : 1 <= nthZ sb i) by (apply Hpos; lia).
  replace (1 <=? nthZ sb i) with true by lia.
  destruct (pm_leader_tie n sb last Hpos Hlast g f (i + nthZ sb i) i ltac:(lia) ltac:(lia) ltac:(lia)) as [H1 H2].
  split; [exact H1|].
  destruct (Z_le_dec (i + nthZ sb i) last) as [Hle|Hgt]; [apply H2; exact Hle|].
  destruct g as [|g]; [lia|]. cbn [next_leader]. replace (i + nthZ sb i <? last) with false by lia. cbn [fst]. lia.
Qed.

(* ---------------------------------------------------------------------------------------------------------------------- *)
(* for (i = 1; i < w; ++i) map_in_sup[j + i] = -i;                                                                         *)
Lemma pm_fill_tie_nat : forall j c i m,
  fold_left (gen_dPresetMap_loop3 j) (zrange (Z.of_nat i) (Z.of_nat i + Z.of_nat c)) m = fill_neg m j i c.
Proof.
  intros j. induction c as [|c IH]; intros i m.
  - rewrite zrange_nil by lia. reflexivity.
  - rewrite zrange_of_nat. cbn [fold_left fill_neg].
    change (gen_dPresetMap_loop3 j m (Z.of_nat i)) with (updZ m (j + Z.of_nat i) (- Z.of_nat i)).
    replace (Z.of_nat i + 1) with (Z.of_nat (S i)) by lia. apply IH.
Qed.

Lemma pm_fill_tie : forall j w m, fold_left (gen_dPresetMap_loop3 j) (zrange 1 w) m = fill_neg m j 1 (Z.to_nat (w - 1)).
Proof.
  intros j w m. destruct (Z_le_dec w 1) as [Hle|Hgt].
  - rewrite zrange_nil by lia. replace (Z.to_nat (w - 1)) with 0%nat by lia. reflexivity.
  - rewrite <- pm_fill_tie_nat. f_equal. f_equal. lia.
Qed.

Lemma pm_max_if : forall a b, (if a >? b then a else b) = Z.max a b.
Proof. intros a b. destruct (a >? b) eqn:E; lia. Qed.

Lemma mk_lt_rel : forall n j mk, mk_lt n j mk -> mk_rel n j mk [] 0.
Proof.
  intros n j mk [Hlen Hlt]. split; [exact Hlen|]. split; [reflexivity|]. split.
  - intros r Hr. specialize (Hlt r Hr). lia.
  - intros r Hr. specialize (Hlt r Hr). split; [intros He; lia | intros []].
Qed.

Lemma mk_rel_lt : forall n j mk seen cnt j', mk_rel n j mk seen cnt -> j < j' -> mk_lt n j' mk.
Proof. intros n j mk seen cnt j' (Hlen & _ & Hle & _) Hj. split; [exact Hlen|]. intros r Hr. specialize (Hle r Hr). lia. Qed.

Lemma mk_lt_mono : forall n j mk j', mk_lt n j mk -> j <= j' -> mk_lt n j' mk.
Proof. intros n j mk j' [Hlen Hlt] Hj. split; [exact Hlen|]. intros r Hr. specialize (Hlt r Hr). lia. Qed.

Definition rlx_ok (n : Z) (rlx : list (Z * Z)) : Prop := Forall (fun p => 1 <= snd p /\ fst p + snd p <= n) rlx.

(* before the induction hypothesis is applied: the running total of the translated code and the model's agree up to ring
   normalisation (a source rewrite such as `rs_nrow * w` for `w * rs_nrow` is absorbed here) *)
Ltac pm_align :=
  match goal with
  | |- exists j' k' rs' mk', gen_dPresetMap_while4 _ _ _ _ _ _ _ _ _ _ (_, _, _, ?NP, _, _) =
                             Some (_, _, _, snd (_ _ _ _ _ _ _ _ _ _ ?NP2 _), _, _) =>
      first [ constr_eq NP NP2 | replace NP with NP2 by lia ]
  end.

(* ---------------------------------------------------------------------------------------------------------------------- *)
(* the layout loop, static scheme (Glu->dynamic_snode_bound == NO)                                                         *)
Lemma pm_loop_tie_static : forall n colbeg colend rowind rfcol rsize colcnt sb,
  sb_pos n sb -> rows_ok n colbeg colend rowind ->
  forall g f j k rs rlx np m mk, 0 <= j -> rlx_at rfcol rsize n rs rlx -> rlx_ok n rlx -> mk_lt n j mk ->
  (Z.to_nat (n - j) < f)%nat -> (Z.to_nat (n - j) < g)%nat ->
  exists j' k' rs' mk',
    gen_dPresetMap_while4 f n colbeg colend rowind rfcol rsize colcnt c_NO sb (j, k, rs, np, m, mk) =
    Some (j', k', rs', snd (preset_loop g n colbeg colend rowind rlx colcnt sb j np m),
          fst (preset_loop g n colbeg colend rowind rlx colcnt sb j np m), mk').
Proof.
  intros n colbeg colend rowind rfcol rsize colcnt sb Hpos Hrows.
  induction g as [|g IH]; intros f j k rs rlx np m mk Hj Hrlx Hok Hmk Hf Hg; [lia|].
  destruct f as [|f]; [lia|].
  cbn [gen_dPresetMap_while4 preset_loop].
  destruct (j <? n) eqn:Ejn; [|cbn [fst snd]; eauto 10].
  change (c_NO =? c_NO) with true. cbv iota.
  assert (Hw : 1 <= nthZ sb j) by (apply Hpos; lia).
  assert (HH : forall rlx', rlx_at rfcol rsize n rs rlx' -> rlx_ok n rlx' ->
    exists j' k' rs' mk',
      gen_dPresetMap_while4 f n colbeg colend rowind rfcol rsize colcnt c_NO sb
        (j + nthZ sb j, k, rs, np + nthZ sb j * nthZ colcnt j,
         fold_left (gen_dPresetMap_loop3 j) (zrange 1 (nthZ sb j)) (updZ m j np), mk) =
      Some (j', k', rs',
        snd (if nthZ sb j <=? 0 then (fill_neg (updZ m j np) j 1 (Z.to_nat (nthZ sb j - 1)), np + nthZ sb j * nthZ colcnt j)
             else preset_loop g n colbeg colend rowind rlx' colcnt sb (j + nthZ sb j) (np + nthZ sb j * nthZ colcnt j)
                    (fill_neg (updZ m j np) j 1 (Z.to_nat (nthZ sb j - 1)))),
        fst (if nthZ sb j <=? 0 then (fill_neg (updZ m j np) j 1 (Z.to_nat (nthZ sb j - 1)), np + nthZ sb j * nthZ colcnt j)
             else preset_loop g n colbeg colend rowind rlx' colcnt sb (j + nthZ sb j) (np + nthZ sb j * nthZ colcnt j)
                    (fill_neg (updZ m j np) j 1 (Z.to_nat (nthZ sb j - 1)))), mk')).
  { intros rlx' Hrlx' Hok'. replace (nthZ sb j <=? 0) with false by lia. rewrite pm_fill_tie.
    pm_align. apply IH; try assumption; try lia. apply (mk_lt_mono n j); [exact Hmk | lia]. }
  destruct rlx as [|[fc s] t].
  - cbn [rlx_at] in Hrlx. rewrite Hrlx. replace (n =? j) with false by lia. cbv iota beta.
    apply HH; assumption.
  - pose proof Hrlx as Hrlx0. cbn [rlx_at] in Hrlx0. destruct Hrlx0 as (Hfc & Hs & Ht).
    rewrite Hfc. destruct (fc =? j) eqn:Efc; cbv iota beta.
    + (* column j starts a relaxed supernode *)
      assert (Hjf : fc = j) by lia. rewrite Hjf in Hok. clear Efc.
      inversion Hok as [|p l Hp Hokt]; subst p l. cbn [fst snd] in Hp. destruct Hp as [Hs1 Hs2].
      rewrite Hs. cbn [tl].
      destruct (pm_cols_tie n colbeg colend rowind j Hrows s j k mk [] 0 Hj ltac:(lia) Hs2 (mk_lt_rel n j mk Hmk))
        as (k1 & cnt1 & mk1 & Hfold & Hrel1).
      rewrite Hfold. cbv iota beta.
      destruct (pm_leader_tie0 n sb (j + s) Hpos Hs2 (Z.to_nat n + 1)%nat (S f) j k1 j ltac:(lia) ltac:(lia) ltac:(lia)) as [Hld Hge].
      rewrite Hld.
      destruct (next_leader (Z.to_nat n + 1) sb j j (j + s)) as [i' k'] eqn:Enl. cbn [fst] in Hge. cbv iota beta.
      pose proof Hrel1 as (_ & Hcnt & _ & _).
      rewrite <- Hcnt. rewrite updZ_idem. rewrite pm_fill_tie. rewrite ?pm_max_if.
      replace (i' - j <=? 0) with false by lia.
      destruct (i' >? j + s) eqn:Egt.
      * replace (j + s <? i') with true by lia. cbv iota beta.
        pm_align. apply IH; try assumption; try lia. eapply mk_rel_lt; [exact Hrel1 | lia].
      * replace (j + s <? i') with false by lia. cbv iota beta.
        pm_align. apply IH; try assumption; try lia. eapply mk_rel_lt; [exact Hrel1 | lia].
    + apply HH; assumption.
Qed.

(* the layout loop, dynamic scheme (Glu->dynamic_snode_bound == YES) *)
Lemma pm_loop_tie_dyn : forall n colbeg colend rowind rfcol rsize colcnt sb,
  sb_pos n sb -> rows_ok n colbeg colend rowind ->
  forall g f j k rs rlx np m mk, 0 <= j -> rlx_at rfcol rsize n rs rlx -> rlx_ok n rlx -> mk_lt n j mk ->
  (Z.to_nat (n - j) < f)%nat -> (Z.to_nat (n - j) < g)%nat ->
  exists j' k' rs' mk',
    gen_dPresetMap_while4 f n colbeg colend rowind rfcol rsize colcnt c_YES sb (j, k, rs, np, m, mk) =
    Some (j', k', rs', snd (preset_loop_dyn g n colbeg colend rowind rlx colcnt sb j np m),
          fst (preset_loop_dyn g n colbeg colend rowind rlx colcnt sb j np m), mk').
Proof.
  intros n colbeg colend rowind rfcol rsize colcnt sb Hpos Hrows.
  induction g as [|g IH]; intros f j k rs rlx np m mk Hj Hrlx Hok Hmk Hf Hg; [lia|].
  destruct f as [|f]; [lia|].
  cbn [gen_dPresetMap_while4 preset_loop_dyn].
  destruct (j <? n) eqn:Ejn; [|cbn [fst snd]; eauto 10].
  change (c_YES =? c_NO) with false. cbv iota.
  assert (Hw : 1 <= nthZ sb j) by (apply Hpos; lia).
  assert (HH : forall rlx', rlx_at rfcol rsize n rs rlx' -> rlx_ok n rlx' ->
    exists j' k' rs' mk',
      gen_dPresetMap_while4 f n colbeg colend rowind rfcol rsize colcnt c_YES sb
        (j + nthZ sb j, k, rs, np, fold_left (gen_dPresetMap_loop3 j) (zrange 1 (nthZ sb j)) m, mk) =
      Some (j', k', rs',
        snd (if nthZ sb j <=? 0 then (fill_neg m j 1 (Z.to_nat (nthZ sb j - 1)), np)
             else preset_loop_dyn g n colbeg colend rowind rlx' colcnt sb (j + nthZ sb j) np
                    (fill_neg m j 1 (Z.to_nat (nthZ sb j - 1)))),
        fst (if nthZ sb j <=? 0 then (fill_neg m j 1 (Z.to_nat (nthZ sb j - 1)), np)
             else preset_loop_dyn g n colbeg colend rowind rlx' colcnt sb (j + nthZ sb j) np
                    (fill_neg m j 1 (Z.to_nat (nthZ sb j - 1)))), mk')).
  { intros rlx' Hrlx' Hok'. replace (nthZ sb j <=? 0) with false by lia. rewrite pm_fill_tie.
    pm_align. apply IH; try assumption; try lia. apply (mk_lt_mono n j); [exact Hmk | lia]. }
  destruct rlx as [|[fc s] t].
  - cbn [rlx_at] in Hrlx. rewrite Hrlx. replace (n =? j) with false by lia. cbv iota beta.
    apply HH; assumption.
  - pose proof Hrlx as Hrlx0. cbn [rlx_at] in Hrlx0. destruct Hrlx0 as (Hfc & Hs & Ht).
    rewrite Hfc. destruct (fc =? j) eqn:Efc; cbv iota beta.
    + (* column j starts a relaxed supernode *)
      assert (Hjf : fc = j) by lia. rewrite Hjf in Hok. clear Efc.
      inversion Hok as [|p l Hp Hokt]; subst p l. cbn [fst snd] in Hp. destruct Hp as [Hs1 Hs2].
      rewrite Hs. cbn [tl].
      destruct (pm_cols_tie n colbeg colend rowind j Hrows s j k mk [] 0 Hj ltac:(lia) Hs2 (mk_lt_rel n j mk Hmk))
        as (k1 & cnt1 & mk1 & Hfold & Hrel1).
      rewrite Hfold. cbv iota beta.
      destruct (pm_leader_tie0 n sb (j + s) Hpos Hs2 (Z.to_nat n + 1)%nat (S f) j k1 j ltac:(lia) ltac:(lia) ltac:(lia)) as [Hld Hge].
      rewrite Hld.
      destruct (next_leader (Z.to_nat n + 1) sb j j (j + s)) as [i' k'] eqn:Enl. cbn [fst] in Hge. cbv iota beta.
      pose proof Hrel1 as (_ & Hcnt & _ & _).
      rewrite <- Hcnt. rewrite pm_fill_tie. rewrite ?pm_max_if.
      replace (i' - j <=? 0) with false by lia.
      destruct (i' >? j + s) eqn:Egt.
      * replace (j + s <? i') with true by lia. cbv iota beta.
        pm_align. apply IH; try assumption; try lia. eapply mk_rel_lt; [exact Hrel1 | lia].
      * replace (j + s <? i') with false by lia. cbv iota beta.
        pm_align. apply IH; try assumption; try lia. eapply mk_rel_lt; [exact Hrel1 | lia].
    + apply HH; assumption.
Qed.

(* ---------------------------------------------------------------------------------------------------------------------- *)
(* the whole routine                                                                                                       *)
(* hypotheses of the tie theorems:
     0 <= n, 1 <= maxsuper (sp_ienv(3));
     sb_ok n sb       every entry part_super_h[p], p < n, is a size >= 1 that stays inside the matrix (p + size <= n);
                      with an entry <= 0 the C loops need not terminate (j += w), the model's fuel cuts them off;
     rows_ok          every row index of the columns 0 .. n-1 of A is in [0, n) (marker[] has n entries; an index outside is
                      counted again on every visit by the C code, once by the model);
     rlx_at .. 1 rlx  pxgstrf_relax[1 ..] holds the list rlx of (fcol, size), followed by an entry with fcol = n (what
                      pxgstrf_relax_snode leaves there, SchedInitTie.relax_snode_tie / enc_relax_at);
     rlx_ok n rlx     every relaxed supernode has size >= 1 and ends inside the matrix;
     fuel > n         every loop of the routine advances by at least one column per iteration. *)
Definition sb_ok (n : Z) (sb : list Z) : Prop := forall p, 0 <= p < n -> 1 <= nthZ sb p /\ p + nthZ sb p <= n.

Lemma pm_marker_init : forall n junk, 0 <= n -> mk_lt n 0 (gen_ifill n (- 1) (repeat junk (Z.to_nat n))).
Proof.
  intros n junk Hn.
  assert (Hl : lenZ (repeat junk (Z.to_nat n)) = n) by (unfold lenZ; rewrite repeat_length; lia).
  destruct (ifill_tie n (- 1) (repeat junk (Z.to_nat n)) ltac:(lia)) as [H1 H2].
  split; [lia|]. intros r Hr. rewrite H2 by lia. lia.
Qed.

Theorem presetmap_tie_static : forall n colbeg colend rowind rfcol rsize rlx colcnt sb nextlu maxsuper junk k0 fuel,
  0 <= n -> 1 <= maxsuper -> sb_ok n sb -> rows_ok n colbeg colend rowind ->
  rlx_at rfcol rsize n 1 rlx -> rlx_ok n rlx -> (Z.to_nat n < fuel)%nat ->
  gen_dPresetMap n colbeg colend rowind rfcol rsize colcnt sb nextlu maxsuper pnull junk k0 fuel =
  Some (fst (preset_map n colbeg colend rowind rlx colcnt sb maxsuper), nextlu,
        snd (preset_map n colbeg colend rowind rlx colcnt sb maxsuper), c_NO,
        snd (preset_loop (Z.to_nat n + 1) n colbeg colend rowind rlx colcnt (split_super n sb maxsuper) 0 0
               (repeat 0 (Z.to_nat (n + 1))))).
Proof.
  intros n colbeg colend rowind rfcol rsize rlx colcnt sb nextlu maxsuper junk k0 fuel Hn Hm Hsb Hrows Hrlx Hok Hfuel.
  unfold gen_dPresetMap, preset_map.
  change (peqb pnull pnull) with true. cbv iota beta. cbn [negb].
  destruct (split_tie n maxsuper Hm (Z.to_nat n + 1)%nat fuel 0 k0 sb ltac:(lia)) as [(j1 & k1 & Hsplit) Hpos'].
  - intros p Hp. apply Hsb. exact Hp.
  - intros p Hp. apply Hsb. lia.
  - lia.
  - lia.
  - fold (split_super n sb maxsuper) in Hsplit, Hpos'.
    rewrite Hsplit.
    destruct (pm_loop_tie_static n colbeg colend rowind rfcol rsize colcnt (split_super n sb maxsuper) Hpos' Hrows
                (Z.to_nat n + 1)%nat fuel 0 k1 1 rlx 0 (repeat 0 (Z.to_nat (n + 1)))
                (gen_ifill n (- 1) (repeat junk (Z.to_nat n))) ltac:(lia) Hrlx Hok (pm_marker_init n junk Hn) ltac:(lia) ltac:(lia))
      as (j2 & k2 & rs2 & mk2 & Hloop).
    rewrite Hloop.
    change (c_NO =? c_YES) with false. cbv iota.
    destruct (preset_loop (Z.to_nat n + 1) n colbeg colend rowind rlx colcnt (split_super n sb maxsuper) 0 0 (repeat 0 (Z.to_nat (n + 1))))
      as [mres total]. reflexivity.
Qed.

Theorem presetmap_tie_dyn : forall n colbeg colend rowind rfcol rsize rlx colcnt sb nextlu maxsuper off junk k0 fuel,
  0 <= n -> 1 <= maxsuper -> sb_ok n sb -> rows_ok n colbeg colend rowind ->
  rlx_at rfcol rsize n 1 rlx -> rlx_ok n rlx -> (Z.to_nat n < fuel)%nat ->
  gen_dPresetMap n colbeg colend rowind rfcol rsize colcnt sb nextlu maxsuper (Some off) junk k0 fuel =
  Some (fst (preset_map_dyn n colbeg colend rowind rlx colcnt sb maxsuper),
        snd (preset_map_dyn n colbeg colend rowind rlx colcnt sb maxsuper),
        split_super n sb maxsuper, c_YES,
        snd (preset_map_dyn n colbeg colend rowind rlx colcnt sb maxsuper)).
Proof.
  intros n colbeg colend rowind rfcol rsize rlx colcnt sb nextlu maxsuper off junk k0 fuel Hn Hm Hsb Hrows Hrlx Hok Hfuel.
  unfold gen_dPresetMap, preset_map_dyn.
  change (peqb (Some off) pnull) with false. cbv iota beta. cbn [negb].
  destruct (split_tie n maxsuper Hm (Z.to_nat n + 1)%nat fuel 0 k0 sb ltac:(lia)) as [(j1 & k1 & Hsplit) Hpos'].
  - intros p Hp. apply Hsb. exact Hp.
  - intros p Hp. apply Hsb. lia.
  - lia.
  - lia.
  - fold (split_super n sb maxsuper) in Hsplit, Hpos'.
    rewrite Hsplit.
    destruct (pm_loop_tie_dyn n colbeg colend rowind rfcol rsize colcnt (split_super n sb maxsuper) Hpos' Hrows
                (Z.to_nat n + 1)%nat fuel 0 k1 1 rlx 0 (repeat 0 (Z.to_nat (n + 1)))
                (gen_ifill n (- 1) (repeat junk (Z.to_nat n))) ltac:(lia) Hrlx Hok (pm_marker_init n junk Hn) ltac:(lia) ltac:(lia))
      as (j2 & k2 & rs2 & mk2 & Hloop).
    rewrite Hloop.
    change (c_YES =? c_YES) with true. cbv iota.
    reflexivity.
Qed.

(* the s / c / z twins are, name for name, the same Gallina terms *)
Lemma gen_sPresetMap_eq : gen_sPresetMap = gen_dPresetMap. Proof. reflexivity. Qed.
Lemma gen_cPresetMap_eq : gen_cPresetMap = gen_dPresetMap. Proof. reflexivity. Qed.
Lemma gen_zPresetMap_eq : gen_zPresetMap = gen_dPresetMap. Proof. reflexivity. Qed.

(* AllocProofs.check_slots_sound restated for the image the translated routine returns *)
Theorem presetmap_slots_sound : forall n colbeg colend rowind rfcol rsize rlx colcnt sb nextlu maxsuper junk k0 fuel m nl sb' d tot,
  0 <= n -> 1 <= maxsuper -> sb_ok n sb -> rows_ok n colbeg colend rowind ->
  rlx_at rfcol rsize n 1 rlx -> rlx_ok n rlx -> (Z.to_nat n < fuel)%nat ->
  check_slots n (fst (preset_map n colbeg colend rowind rlx colcnt sb maxsuper)) = true ->
  gen_dPresetMap n colbeg colend rowind rfcol rsize colcnt sb nextlu maxsuper pnull junk k0 fuel = Some (m, nl, sb', d, tot) ->
  forall a b, 0 <= a <= b -> b < n -> 0 <= nthZ m a -> 0 <= nthZ m b -> 0 <= nthZ m a <= nthZ m b.
Proof.
  intros n colbeg colend rowind rfcol rsize rlx colcnt sb nextlu maxsuper junk k0 fuel m nl sb' d tot
         Hn Hm Hsb Hrows Hrlx Hok Hfuel Hchk Hgen.
  rewrite (presetmap_tie_static n colbeg colend rowind rfcol rsize rlx colcnt sb nextlu maxsuper junk k0 fuel
             Hn Hm Hsb Hrows Hrlx Hok Hfuel) in Hgen.
  injection Hgen as Hm' _ _ _ _. subst m.
  apply (AllocProofs.check_slots_sound n). exact Hchk.
Qed.
