(* SpblasTrsvRounded.v -- rounding-error analysis of the sparse supernodal triangular solve model sp_trsv
   (lower, no transpose, unit diagonal: sp_trsv (ArR rnd) L U cL cN cU b) of SpblasModel.v over the reals with an
   arbitrary rounding function obeying the standard model  rnd x = x (1+d), |d| <= u.

   RESULT.  SpblasProofs.trsv_rounded_full is FALSE as stated (Theorem trsv_rounded_full_false): wf_factor does not
   forbid a supernode whose row-index list stores the same row twice below the diagonal block; the duplicates
   cancel in the dense meaning Ld (tailL SUMS the stored entries of a row) while the rounded scatter-subtractions
   do not cancel.  Witness: n = 3, three one-column supernodes, column 0 stores row 2 twice with values 3 and -3
   (so L_20 = 0), b = [1;0;0], u = 1/16, rnd 3 = 3(1+1/16) and rnd z = z otherwise: x' = [1; 0; -3/16], residual
   of row 2 = 3/16 > gamma_4(1/16) * |x'_2| = 1/16.

   Proved instead:
     trsv_rounded_partial -- the original statement, verbatim, SAME constant gamma(n+1), for the FULL supernodal
                             model (single-column path and dlsolve + dmatvec + work-vector scatter path, every
                             8/4/2/1 unrolling), plus ONE extra hypothesis: within each supernode the row indices
                             stored below the diagonal block are pairwise distinct.
   The constant: a product entering through the work vector of a supernode of width w carries at most w+1
   roundings (1 multiplication, at most w-1 additions inside its dmatvec block + one addition per block, i.e. <= w
   additions), then 1 for the scatter-subtraction and 1 for every later update of the same component; with distinct
   row indices a component x_i has received at most fs(k) updates before supernode k, so every term carries at most
   fs(k) + w + 1 <= i + 1 <= n roundings and x_i itself at most i: gamma(n+1) is right (even generous).

   Method: (1) error algebra [Ap]/[Ch] (theta_a theta_c = theta_(a+c), 1/(1+d) = 1+theta_1) phrased so that no
   function-valued existentials are needed; (2) structural lemmas over an ARBITRARY arithmetic (no ring laws):
   lsolve_chain (every unrolling of dlsolve computes the same left-to-right chain), matvec_inv (block invariant),
   injective scatter loops; (3) the invariant INV carried through the supernode loop.
   No axioms beyond those of the standard library Reals. *)
Require Import List ZArith Bool Arith Lia Reals Lra.
From SLU Require Import SpblasModel SpblasProofs SpblasGemvRounded.
Import ListNotations.

Local Open Scope R_scope.

(* ------------------------------------------------------------------------------------------------ *)
(* 1. error algebra: (1+theta_a)(1+theta_c) = 1+theta_(a+c),  1/(1+delta) = 1+theta_1               *)

Section Err.
Variable u : R.
Hypothesis Hu : 0 <= u.

Lemma g_zero : gammaR 0 u = 0.
Proof. unfold gammaR. simpl. unfold Rdiv. ring. Qed.

Lemma g_one_plus : forall k, INR k * u < 1 -> 1 + gammaR k u = / (1 - INR k * u).
Proof. intros k Hk. unfold gammaR. field. lra. Qed.

Lemma g_mul : forall a c th ph, INR (a + c) * u < 1 ->
  Rabs th <= gammaR a u -> Rabs ph <= gammaR c u ->
  Rabs ((1 + th) * (1 + ph) - 1) <= gammaR (a + c) u.
Proof.
  intros a c th ph Hac Hth Hph.
  assert (Ha : INR a * u < 1) by (apply INR_u_mono with (a + c)%nat; auto; lia).
  assert (Hc : INR c * u < 1) by (apply INR_u_mono with (a + c)%nat; auto; lia).
  assert (Ga : 0 <= gammaR a u) by (apply gammaR_nonneg; auto).
  assert (Gc : 0 <= gammaR c u) by (apply gammaR_nonneg; auto).
  assert (A0 : 0 <= INR a * u) by (apply Rmult_le_pos; [apply pos_INR|auto]).
  assert (C0 : 0 <= INR c * u) by (apply Rmult_le_pos; [apply pos_INR|auto]).
  apply Rle_trans with ((1 + gammaR a u) * (1 + gammaR c u) - 1).
  - replace ((1 + th) * (1 + ph) - 1) with (th + ph + th * ph) by ring.
    eapply Rle_trans; [apply Rabs_triang|].
    eapply Rle_trans; [apply Rplus_le_compat; [apply Rabs_triang | rewrite Rabs_mult; apply Rle_refl]|].
    assert (Rabs th * Rabs ph <= gammaR a u * gammaR c u).
    { apply Rmult_le_compat; auto using Rabs_pos. }
    lra.
  - assert (E : 1 + gammaR (a + c) u = / (1 - INR (a + c) * u)) by (apply g_one_plus; auto).
    rewrite (g_one_plus a Ha), (g_one_plus c Hc).
    rewrite plus_INR in *.
    set (A := INR a * u) in *. set (C := INR c * u) in *.
    replace ((INR a + INR c) * u) with (A + C) in * by (unfold A, C; ring).
    assert (AC : 0 <= A * C) by (apply Rmult_le_pos; auto).
    rewrite <- Rinv_mult.
    assert (/ ((1 - A) * (1 - C)) <= / (1 - (A + C))).
    { apply Rinv_le_contravar; [lra|]. ring_simplify. lra. }
    lra.
Qed.

Lemma g_one : forall d, u < 1 -> Rabs d <= u -> Rabs d <= gammaR 1 u.
Proof.
  intros d Hu1 Hd. eapply Rle_trans; [apply Hd|]. unfold gammaR. simpl INR.
  replace (1 * u) with u by ring.
  apply Rmult_le_reg_r with (1 - u); [lra|]. unfold Rdiv. rewrite Rmult_assoc, Rinv_l by lra.
  assert (0 <= u * u) by (apply Rmult_le_pos; auto). lra.
Qed.

Lemma g_inv1 : forall d, u < 1 -> Rabs d <= u -> Rabs (/ (1 + d) - 1) <= gammaR 1 u.
Proof.
  intros d Hu1 Hd. unfold gammaR. simpl INR. replace (1 * u) with u by ring.
  assert (Hd' : - u <= d <= u).
  { split; [|eapply Rle_trans; [apply RRle_abs|exact Hd]].
    pose proof (RRle_abs (- d)) as H. rewrite Rabs_Ropp in H. lra. }
  assert (P : 0 < 1 + d) by lra.
  apply Rabs_le. split.
  - replace (/ (1 + d) - 1) with (- (d / (1 + d))) by (field; lra).
    apply Ropp_le_contravar.
    apply Rmult_le_reg_r with ((1 + d) * (1 - u)).
    { apply Rmult_lt_0_compat; lra. }
    replace (d / (1 + d) * ((1 + d) * (1 - u))) with (d * (1 - u)) by (field; lra).
    replace (u / (1 - u) * ((1 + d) * (1 - u))) with (u * (1 + d)) by (field; lra).
    assert (d * (1 - u) <= u * (1 - u)) by (apply Rmult_le_compat_r; lra).
    assert (u * (1 - u) <= u * (1 + d)) by (apply Rmult_le_compat_l; lra).
    lra.
  - apply Rmult_le_reg_r with ((1 + d) * (1 - u)).
    { apply Rmult_lt_0_compat; lra. }
    replace ((/ (1 + d) - 1) * ((1 + d) * (1 - u))) with (- d * (1 - u)) by (field; lra).
    replace (u / (1 - u) * ((1 + d) * (1 - u))) with (u * (1 + d)) by (field; lra).
    assert (- d * (1 - u) <= u * (1 - u)) by (apply Rmult_le_compat_r; lra).
    assert (u * (1 - u) <= u * (1 + d)) by (apply Rmult_le_compat_l; lra).
    lra.
Qed.

(* [Ap c w E M]: w is a computed sum of products whose exact value is E (sum of absolute values M), every
   term carrying at most c rounding errors -- stated so that it composes with a further factor (1+theta_a) *)
Definition Ap (c : nat) (w E M : R) : Prop :=
  0 <= M /\ forall a al, INR (a + c) * u < 1 -> Rabs al <= gammaR a u ->
            Rabs (w * (1 + al) - E) <= gammaR (a + c) u * M.

Lemma Ap_zero : Ap 0 0 0 0.
Proof.
  split; [lra|]. intros a al _ _. replace (0 * (1 + al) - 0) with 0 by ring. rewrite Rabs_R0. lra.
Qed.

Lemma Ap_mono : forall c c' w E M, (c <= c')%nat -> Ap c w E M -> Ap c' w E M.
Proof.
  intros c c' w E M Hc [HM H]. split; auto. intros a al Hac Hal.
  assert (Hac' : INR (a + c) * u < 1) by (apply INR_u_mono with (a + c')%nat; auto; lia).
  eapply Rle_trans; [apply (H a al Hac' Hal)|].
  apply Rmult_le_compat_r; auto. apply gammaR_mono; auto. lia.
Qed.

Lemma Ap_ext : forall c w E M E' M', E = E' -> M = M' -> Ap c w E M -> Ap c w E' M'.
Proof. intros; subst; auto. Qed.

Variable rnd : R -> R.
Hypothesis Hstd : std_model rnd u.

Lemma Ap_prod : forall e, Ap 1 (rnd e) e (Rabs e).
Proof.
  intros e. split; [apply Rabs_pos|]. intros a al Ha Hal.
  destruct Hstd as [_ Hr]. destruct (Hr e) as (d & Hd & ->).
  assert (Hu1 : u < 1).
  { apply Rle_lt_trans with (INR 1 * u); [simpl; lra|]. apply INR_u_mono with (a + 1)%nat; auto; lia. }
  replace (e * (1 + d) * (1 + al) - e) with (e * ((1 + al) * (1 + d) - 1)) by ring.
  rewrite Rabs_mult, Rmult_comm. apply Rmult_le_compat_r; [apply Rabs_pos|].
  apply g_mul; auto. apply g_one; auto.
Qed.

Lemma Ap_add : forall c1 c2 w1 w2 E1 E2 M1 M2, Ap c1 w1 E1 M1 -> Ap c2 w2 E2 M2 ->
  Ap (S (Nat.max c1 c2)) (rnd (w1 + w2)) (E1 + E2) (M1 + M2).
Proof.
  intros c1 c2 w1 w2 E1 E2 M1 M2 H1 H2.
  set (c := Nat.max c1 c2).
  destruct (Ap_mono c1 c _ _ _ ltac:(unfold c; lia) H1) as [HM1 A1].
  destruct (Ap_mono c2 c _ _ _ ltac:(unfold c; lia) H2) as [HM2 A2].
  split; [lra|]. intros a al Ha Hal.
  destruct Hstd as [_ Hr]. destruct (Hr (w1 + w2)) as (d & Hd & ->).
  assert (Hu1 : u < 1).
  { apply Rle_lt_trans with (INR 1 * u); [simpl; lra|]. apply INR_u_mono with (a + S c)%nat; auto; lia. }
  assert (Ha1 : INR (a + 1) * u < 1) by (apply INR_u_mono with (a + S c)%nat; auto; lia).
  set (al' := (1 + al) * (1 + d) - 1).
  assert (Hal' : Rabs al' <= gammaR (a + 1) u) by (apply g_mul; auto; apply g_one; auto).
  replace ((w1 + w2) * (1 + d) * (1 + al) - (E1 + E2))
    with ((w1 * (1 + al') - E1) + (w2 * (1 + al') - E2)) by (unfold al'; ring).
  replace (a + S c)%nat with (a + 1 + c)%nat in * by lia.
  eapply Rle_trans; [apply Rabs_triang|].
  pose proof (A1 (a + 1)%nat al' Ha Hal'). pose proof (A2 (a + 1)%nat al' Ha Hal'). lra.
Qed.

(* [Ch b K a s E M]: s is the current value of a component that started as b and has received a updates
   s := rnd (s - w);  b = s (1+theta_a) + E^ where E^ approximates the exact subtracted sum E within gamma_K M *)
Definition Ch (b : R) (K a : nat) (s E M : R) : Prop :=
  0 <= M /\ exists al Eh, Rabs al <= gammaR a u /\ b = s * (1 + al) + Eh /\ Rabs (Eh - E) <= gammaR K u * M.

Lemma Ch_init : forall b K, Ch b K 0 b 0 0.
Proof.
  intros b K. split; [lra|]. exists 0, 0. rewrite g_zero, Rabs_R0. split; [lra|]. split; [ring|].
  replace (0 - 0) with 0 by ring. rewrite Rabs_R0. lra.
Qed.

Lemma Ch_mono : forall b K a a' s E M, (a <= a')%nat -> INR a' * u < 1 -> Ch b K a s E M -> Ch b K a' s E M.
Proof.
  intros b K a a' s E M Ha Ha' (HM & al & Eh & Hal & Hb & HE). split; auto. exists al, Eh. split; auto.
  eapply Rle_trans; [apply Hal|]. apply gammaR_mono; auto.
Qed.

Lemma Ch_ext : forall b K a s E M E' M', E = E' -> M = M' -> Ch b K a s E M -> Ch b K a s E' M'.
Proof. intros; subst; auto. Qed.

Lemma Ch_step : forall b K a c s E M w Ew Mw,
  INR K * u < 1 -> (a + c <= K)%nat -> (S a <= K)%nat ->
  Ch b K a s E M -> Ap c w Ew Mw -> Ch b K (S a) (rnd (s - w)) (E + Ew) (M + Mw).
Proof.
  intros b K a c s E M w Ew Mw HK Hac Ha1 (HM & al & Eh & Hal & Hb & HE) [HMw HA].
  split; [lra|].
  destruct Hstd as [_ Hr]. destruct (Hr (s - w)) as (d & Hd & ->).
  assert (Hu1 : u < 1).
  { apply Rle_lt_trans with (INR 1 * u); [simpl; lra|]. apply INR_u_mono with K; auto; lia. }
  assert (Hd' : - u <= d <= u).
  { split; [|eapply Rle_trans; [apply RRle_abs|exact Hd]].
    pose proof (RRle_abs (- d)) as H. rewrite Rabs_Ropp in H. lra. }
  assert (P : 0 < 1 + d) by lra.
  exists ((1 + al) * (1 + (/ (1 + d) - 1)) - 1), (Eh + w * (1 + al)).
  split; [|split].
  - replace (S a) with (a + 1)%nat by lia. apply g_mul; auto.
    + apply INR_u_mono with K; auto; lia.
    + apply g_inv1; auto.
  - rewrite Hb. field. lra.
  - replace (Eh + w * (1 + al) - (E + Ew)) with ((Eh - E) + (w * (1 + al) - Ew)) by ring.
    eapply Rle_trans; [apply Rabs_triang|].
    assert (Hac' : INR (a + c) * u < 1) by (apply INR_u_mono with K; auto).
    pose proof (HA a al Hac' Hal) as H1.
    assert (gammaR (a + c) u * Mw <= gammaR K u * Mw).
    { apply Rmult_le_compat_r; auto. apply gammaR_mono; auto. }
    lra.
Qed.

Lemma Ch_final : forall b K a s E M, INR K * u < 1 -> (a <= K)%nat -> Ch b K a s E M ->
  Rabs (b - (s + E)) <= gammaR K u * (Rabs s + M).
Proof.
  intros b K a s E M HK Ha (HM & al & Eh & Hal & Hb & HE).
  rewrite Hb. replace (s * (1 + al) + Eh - (s + E)) with (s * al + (Eh - E)) by ring.
  eapply Rle_trans; [apply Rabs_triang|]. rewrite Rabs_mult.
  assert (Rabs s * Rabs al <= Rabs s * gammaR K u).
  { apply Rmult_le_compat_l; [apply Rabs_pos|]. eapply Rle_trans; [apply Hal|]. apply gammaR_mono; auto. }
  lra.
Qed.

End Err.

Local Close Scope R_scope.

(* ------------------------------------------------------------------------------------------------ *)
(* 2. structure of the dense kernels and of the scatter loops over an ARBITRARY arithmetic (no ring  *)
(*    laws): every output component as an explicit left-to-right chain of operations                 *)

Lemma fold_left_seq_shift : forall (B : Type) (f : B -> nat -> B) a m x,
  fold_left f (seq a m) x = fold_left (fun acc c => f acc (a + c)%nat) (seq 0 m) x.
Proof.
  intros B f a m x. induction m as [|m IH]; [reflexivity|].
  rewrite !fold_left_seq_snoc, IH. reflexivity.
Qed.

Lemma fold_left_seq_app : forall (B : Type) (f : B -> nat -> B) a m x,
  fold_left f (seq 0 (a + m)) x = fold_left (fun acc c => f acc (a + c)%nat) (seq 0 m) (fold_left f (seq 0 a) x).
Proof.
  intros B f a m x. rewrite seq_app, fold_left_app. simpl plus. apply fold_left_seq_shift.
Qed.

Lemma fold_left_seq_ext : forall (B : Type) (f g : B -> nat -> B) a m x,
  (forall y c, (a <= c < a + m)%nat -> f y c = g y c) -> fold_left f (seq a m) x = fold_left g (seq a m) x.
Proof.
  intros. apply fold_left_ext_in. intros y c Hc. apply in_seq in Hc. apply H. lia.
Qed.

Lemma exists_dec_lt : forall (P : nat -> Prop), (forall t, {P t} + {~ P t}) ->
  forall m, (exists t, (t < m)%nat /\ P t) \/ (forall t, (t < m)%nat -> ~ P t).
Proof.
  intros P dec. induction m as [|m [ (t & Ht & HP) | IH ]].
  - right. intros; lia.
  - left. exists t. split; auto.
  - destruct (dec m) as [HP|HP].
    + left. exists m. split; auto.
    + right. intros t Ht. destruct (Nat.eq_dec t m) as [->|]; auto. apply IH. lia.
Qed.

Section Struct.
Variable Ar : arith.
Notation Tt := (T Ar).
Notation z0 := (zero Ar).
Infix "+!" := (add Ar) (at level 50, left associativity).
Infix "-!" := (sub Ar) (at level 50, left associativity).
Infix "*!" := (mul Ar) (at level 40, left associativity).
Local Open Scope nat_scope.

Lemma getn_upd_same' : forall (v : list Tt) i a, i < length v -> getn Ar (upd v i a) i = a.
Proof. intros. unfold getn. apply nth_upd_same; auto. Qed.
Lemma getn_upd_other' : forall (v : list Tt) i j a, i <> j -> getn Ar (upd v i a) j = getn Ar v j.
Proof. intros. unfold getn. apply nth_upd_other; auto. Qed.

(* ---- dlsolve *)
Section DenseS.
Variables (M : list Tt) (mo ldm ncol ro : nat).
Notation A := (Mat Ar M mo ldm).

Lemma lsolve_xs_chain : forall fc rhs w t, t < w ->
  let xs := lsolve_xs Ar M mo ldm fc rhs ro w in
  getn Ar xs t = fold_left (fun acc c => acc -! getn Ar xs c *! A (fc + t) (fc + c)) (seq 0 t) (getn Ar rhs (ro + fc + t)).
Proof.
  intros fc rhs w t Ht. cbv zeta.
  rewrite (lsolve_xs_prefix Ar M mo ldm ro fc rhs (S t) w t) by lia.
  simpl. unfold getn at 1. rewrite app_nth2 by (rewrite lsolve_xs_length; lia).
  rewrite lsolve_xs_length, Nat.sub_diag. simpl. unfold lsolve_elim.
  apply fold_left_seq_ext. intros y c Hc. f_equal. f_equal. symmetry. apply lsolve_xs_prefix; lia.
Qed.

Lemma lsolve_block_chain : forall w fc r, 1 <= w -> fc + w <= ncol -> ro + ncol <= length r ->
  let r' := lsolve_block Ar w M mo ldm ncol fc r ro in
  length r' = length r /\
  (forall k, (k < ro + fc \/ ro + ncol <= k) -> getn Ar r' k = getn Ar r k) /\
  (forall i, fc <= i < ncol ->
     getn Ar r' (ro + i) = fold_left (fun acc c => acc -! getn Ar r' (ro + fc + c) *! A i (fc + c))
                                     (seq 0 (Nat.min (i - fc) w)) (getn Ar r (ro + i))).
Proof.
  intros w fc r Hw Hfc Hlen. unfold lsolve_block. cbv zeta.
  set (xs := lsolve_xs Ar M mo ldm fc r ro w).
  destruct (fold_upd_range Ar (fun t _ => getn Ar xs t) (ro + fc) (w - 1) 1 r) as [Hl1 Hx1]; [lia|].
  cbv zeta in Hl1, Hx1.
  set (r1 := fold_left (fun r t => upd r (ro + fc + t) (getn Ar xs t)) (seq 1 (w - 1)) r) in *.
  destruct (fold_upd_range Ar (fun k old => lsolve_elim Ar M mo ldm fc xs k old w) ro (ncol - (fc + w)) (fc + w) r1) as [Hl2 Hx2]; [lia|].
  cbv zeta in Hl2, Hx2.
  set (r2 := fold_left _ (seq (fc + w) (ncol - (fc + w))) r1) in *.
  assert (Hxs0 : getn Ar xs 0 = getn Ar r (ro + fc)).
  { unfold xs. rewrite lsolve_xs_chain by lia. simpl. rewrite Nat.add_0_r. reflexivity. }
  assert (Hr1 : forall t, t < w -> getn Ar r1 (ro + fc + t) = getn Ar xs t).
  { intros t Ht. rewrite Hx1. destruct t as [|t].
    - destruct (Nat.leb_spec (ro + fc + 1) (ro + fc + 0)); try lia. simpl. rewrite Nat.add_0_r. auto.
    - destruct (Nat.leb_spec (ro + fc + 1) (ro + fc + S t)); try lia.
      destruct (Nat.ltb_spec (ro + fc + S t) (ro + fc + 1 + (w - 1))); try lia. simpl.
      f_equal. lia. }
  assert (Hr2 : forall t, t < w -> getn Ar r2 (ro + fc + t) = getn Ar xs t).
  { intros t Ht. rewrite Hx2. destruct (Nat.leb_spec (ro + (fc + w)) (ro + fc + t)); try lia. simpl. auto. }
  split. { congruence. }
  split.
  - intros k Hk. rewrite Hx2, Hx1.
    destruct (Nat.leb_spec (ro + (fc + w)) k); destruct (Nat.ltb_spec k (ro + (fc + w) + (ncol - (fc + w))));
      destruct (Nat.leb_spec (ro + fc + 1) k); destruct (Nat.ltb_spec k (ro + fc + 1 + (w - 1))); simpl; auto; lia.
  - intros i Hi. destruct (Nat.lt_ge_cases i (fc + w)) as [Hin|Hout].
    + replace (ro + i) with (ro + fc + (i - fc)) by lia. rewrite Hr2 by lia.
      unfold xs. rewrite lsolve_xs_chain by lia. fold xs.
      replace (Nat.min (i - fc) w) with (i - fc) by lia.
      replace (fc + (i - fc)) with i by lia.
      apply fold_left_seq_ext. intros y c Hc. rewrite Hr2 by lia. reflexivity.
    + rewrite Hx2. destruct (Nat.leb_spec (ro + (fc + w)) (ro + i)); try lia.
      destruct (Nat.ltb_spec (ro + i) (ro + (fc + w) + (ncol - (fc + w)))); try lia. simpl.
      unfold lsolve_elim. replace (ro + i - ro) with i by lia.
      replace (Nat.min (i - fc) w) with w by lia.
      assert (E : getn Ar r1 (ro + i) = getn Ar r (ro + i)).
      { rewrite Hx1. destruct (Nat.ltb_spec (ro + i) (ro + fc + 1 + (w - 1))); try lia. rewrite andb_false_r. auto. }
      rewrite E. apply fold_left_seq_ext. intros y c Hc. rewrite Hr2 by lia. reflexivity.
Qed.

Definition LIc (b : list Tt) (fc : nat) (r : list Tt) : Prop :=
  length r = length b /\
  (forall k, (k < ro \/ ro + ncol <= k) -> getn Ar r k = getn Ar b k) /\
  forall i, i < ncol ->
    getn Ar r (ro + i) = fold_left (fun acc c => acc -! getn Ar r (ro + c) *! A i c) (seq 0 (Nat.min i fc)) (getn Ar b (ro + i)).

Lemma LIc_block : forall b w fc r, 1 <= w -> fc + w <= ncol -> ro + ncol <= length b ->
  LIc b fc r -> LIc b (fc + w) (lsolve_block Ar w M mo ldm ncol fc r ro).
Proof.
  intros b w fc r Hw Hfc Hlen (Hl & Hfr & Hinv).
  destruct (lsolve_block_chain w fc r Hw Hfc ltac:(lia)) as (Hl' & Hout & Hin). cbv zeta in Hl', Hout, Hin.
  set (r' := lsolve_block Ar w M mo ldm ncol fc r ro) in *.
  split; [congruence|]. split.
  - intros k Hk. rewrite Hout by lia. apply Hfr; auto.
  - intros i Hi. destruct (Nat.lt_ge_cases i fc) as [Hlo|Hhi].
    + replace (Nat.min i (fc + w)) with i by lia. rewrite Hout by lia. rewrite (Hinv i Hi).
      replace (Nat.min i fc) with i by lia.
      apply fold_left_seq_ext. intros y c Hc. rewrite Hout by lia. reflexivity.
    + rewrite (Hin i) by lia. rewrite (Hinv i Hi).
      replace (Nat.min i fc) with fc by lia.
      replace (Nat.min i (fc + w)) with (fc + Nat.min (i - fc) w) by lia.
      rewrite fold_left_seq_app.
      rewrite (fold_left_seq_ext _ (fun acc c => acc -! getn Ar r (ro + c) *! A i c)
                                   (fun acc c => acc -! getn Ar r' (ro + c) *! A i c) 0 fc).
      2:{ intros y c Hc. rewrite Hout by lia. reflexivity. }
      apply fold_left_seq_ext. intros y c Hc. rewrite Nat.add_assoc. reflexivity.
Qed.

Lemma lsolve_loop8_chain : forall b fuel fc r, ro + ncol <= length b -> fc <= ncol -> LIc b fc r ->
  let res := lsolve_loop8 Ar fuel M mo ldm ncol fc r ro in
  fc <= fst res <= ncol /\ (ncol - fc <= fuel -> ncol <= fst res + 7) /\ LIc b (fst res) (snd res).
Proof.
  intros b. induction fuel as [|fuel IH]; intros fc r Hlen Hfc HI; cbv zeta.
  - simpl. split; [lia|]. split; [lia|]. exact HI.
  - simpl. destruct (Nat.ltb_spec (fc + 7) ncol) as [Hlt|Hge].
    + specialize (IH (fc + 8) (lsolve_block Ar 8 M mo ldm ncol fc r ro) Hlen ltac:(lia)
                     (LIc_block b 8 fc r ltac:(lia) ltac:(lia) Hlen HI)).
      cbv zeta in IH. destruct IH as (B & Fu & I). split; [lia|]. split; auto. intros; apply Fu; lia.
    + simpl. split; [lia|]. split; [lia|]. exact HI.
Qed.

Lemma lsolve_loop4_chain : forall b fuel fc r, ro + ncol <= length b -> fc <= ncol -> LIc b fc r ->
  let res := lsolve_loop4 Ar fuel M mo ldm ncol fc r ro in
  fc <= fst res <= ncol /\ (ncol - fc <= fuel -> ncol <= fst res + 3) /\ LIc b (fst res) (snd res).
Proof.
  intros b. induction fuel as [|fuel IH]; intros fc r Hlen Hfc HI; cbv zeta.
  - simpl. split; [lia|]. split; [lia|]. exact HI.
  - simpl. destruct (Nat.ltb_spec (fc + 3) ncol) as [Hlt|Hge].
    + specialize (IH (fc + 4) (lsolve_block Ar 4 M mo ldm ncol fc r ro) Hlen ltac:(lia)
                     (LIc_block b 4 fc r ltac:(lia) ltac:(lia) Hlen HI)).
      cbv zeta in IH. destruct IH as (B & Fu & I). split; [lia|]. split; auto. intros; apply Fu; lia.
    + simpl. split; [lia|]. split; [lia|]. exact HI.
Qed.

(* dlsolve: r[i] = (..((b[i] - r[0]*A(i,0)) - r[1]*A(i,1)) .. - r[i-1]*A(i,i-1)), whatever the unrolling *)
Theorem lsolve_chain : forall b, ro + ncol <= length b ->
  let r := lsolve Ar ldm ncol M mo b ro in
  length r = length b /\
  (forall k, (k < ro \/ ro + ncol <= k) -> getn Ar r k = getn Ar b k) /\
  forall i, i < ncol ->
    getn Ar r (ro + i) = fold_left (fun acc c => acc -! getn Ar r (ro + c) *! A i c) (seq 0 i) (getn Ar b (ro + i)).
Proof.
  intros b Hlen. cbv zeta. unfold lsolve.
  assert (H0 : LIc b 0 b).
  { split; auto. split; auto. intros i Hi. rewrite Nat.min_0_r. reflexivity. }
  pose proof (lsolve_loop8_chain b ncol 0 b Hlen ltac:(lia) H0) as H1. cbv zeta in H1.
  destruct (lsolve_loop8 Ar ncol M mo ldm ncol 0 b ro) as [fc1 r1]. simpl in H1. destruct H1 as (B1 & _ & I1).
  pose proof (lsolve_loop4_chain b ncol fc1 r1 Hlen ltac:(lia) I1) as H2. cbv zeta in H2.
  destruct (lsolve_loop4 Ar ncol M mo ldm ncol fc1 r1 ro) as [fc2 r2]. simpl in H2. destruct H2 as (B2 & F2 & I2).
  specialize (F2 ltac:(lia)).
  assert (Hfin : forall fc r, LIc b fc r -> ncol <= fc + 1 ->
            length r = length b /\ (forall k, (k < ro \/ ro + ncol <= k) -> getn Ar r k = getn Ar b k) /\
            forall i, i < ncol -> getn Ar r (ro + i) = fold_left (fun acc c => acc -! getn Ar r (ro + c) *! A i c) (seq 0 i) (getn Ar b (ro + i))).
  { intros fc r (Hl & Hf & Hi) Hfc. split; auto. split; auto. intros i Hlt. rewrite (Hi i Hlt).
    replace (Nat.min i fc) with i by lia. reflexivity. }
  destruct (Nat.ltb_spec (fc2 + 1) ncol) as [Hlt|Hge].
  - apply (Hfin (fc2 + 2)); [|lia]. apply LIc_block; auto; lia.
  - apply (Hfin fc2); auto.
Qed.
End DenseS.

(* ---- dmatvec: block structure, with an arbitrary invariant *)
Section MatvecS.
Variables (M : list Tt) (mo ldm nrow ncol : nat) (vec : list Tt) (vo xo : nat).

Lemma matvec_block_get : forall w fc Mx, xo + nrow <= length Mx ->
  let r := matvec_block Ar w M mo ldm nrow fc vec vo Mx xo in
  length r = length Mx /\
  forall i, getn Ar r i = if (xo <=? i) && (i <? xo + nrow)
                          then getn Ar Mx i +! matvec_row Ar w M mo ldm fc vec vo (i - xo)
                          else getn Ar Mx i.
Proof.
  intros w fc Mx Hlen. unfold matvec_block.
  destruct (fold_upd_range Ar (fun k old => old +! matvec_row Ar w M mo ldm fc vec vo k) xo nrow 0 Mx) as [Hl Hx]; [lia|].
  cbv zeta in *. split; auto. intros i. rewrite Hx. rewrite !Nat.add_0_r. reflexivity.
Qed.

Variable P : nat -> list Tt -> Prop.
Hypothesis Pstep : forall w fc Mx, 1 <= w -> fc + w <= ncol -> P fc Mx ->
  P (fc + w) (matvec_block Ar w M mo ldm nrow fc vec vo Mx xo).

Lemma matvec_loop_inv : forall w, 1 <= w -> forall fuel fc Mx, fc <= ncol -> P fc Mx ->
  let res := matvec_loop Ar w fuel M mo ldm nrow ncol fc vec vo Mx xo in
  fc <= fst res <= ncol /\ (ncol - fc <= fuel -> ncol < fst res + w) /\ P (fst res) (snd res).
Proof.
  intros w Hw. induction fuel as [|fuel IH]; intros fc Mx Hfc HP; cbv zeta.
  - simpl. split; [lia|]. split; [lia|]. exact HP.
  - simpl. destruct (Nat.ltb_spec (fc + (w - 1)) ncol) as [Hlt|Hge].
    + specialize (IH (fc + w) (matvec_block Ar w M mo ldm nrow fc vec vo Mx xo) ltac:(lia)
                     (Pstep w fc Mx Hw ltac:(lia) HP)).
      cbv zeta in IH. destruct IH as (Hr & Hf & Ha).
      split; [lia|]. split; [intros; apply Hf; lia|]. exact Ha.
    + simpl. split; [lia|]. split; [lia|]. exact HP.
Qed.

Theorem matvec_inv : forall Mx, P 0 Mx -> P ncol (matvec Ar ldm nrow ncol M mo vec vo Mx xo).
Proof.
  intros Mx H0. unfold matvec.
  pose proof (matvec_loop_inv 8 ltac:(lia) ncol 0 Mx ltac:(lia) H0) as H1. cbv zeta in H1.
  destruct (matvec_loop Ar 8 ncol M mo ldm nrow ncol 0 vec vo Mx xo) as [fc1 r1]. simpl in H1.
  destruct H1 as (B1 & _ & A1).
  pose proof (matvec_loop_inv 4 ltac:(lia) ncol fc1 r1 ltac:(lia) A1) as H2. cbv zeta in H2.
  destruct (matvec_loop Ar 4 ncol M mo ldm nrow ncol fc1 vec vo r1 xo) as [fc2 r2]. simpl in H2.
  destruct H2 as (B2 & _ & A2).
  pose proof (matvec_loop_inv 1 ltac:(lia) ncol fc2 r2 ltac:(lia) A2) as H3. cbv zeta in H3.
  destruct (matvec_loop Ar 1 ncol M mo ldm nrow ncol fc2 vec vo r2 xo) as [fc3 r3]. simpl in H3. simpl.
  destruct H3 as (B3 & F3 & A3). specialize (F3 ltac:(lia)).
  assert (fc3 = ncol) by lia. subst fc3. exact A3.
Qed.
End MatvecS.

(* ---- scatter loops with pairwise distinct targets *)

(* for t < m:  x[r t] := x[r t] - x[f] * v t      with r t <> f, r injective *)
Lemma scatter_col_inj : forall (r : nat -> nat) (v : nat -> Tt) (f : nat) m (x : list Tt),
  (forall t, t < m -> r t < length x) -> (forall t, t < m -> r t <> f) ->
  (forall t1 t2, t1 < m -> t2 < m -> r t1 = r t2 -> t1 = t2) ->
  let x' := fold_left (fun x t => upd x (r t) (getn Ar x (r t) -! getn Ar x f *! v t)) (seq 0 m) x in
  length x' = length x /\
  (forall t, t < m -> getn Ar x' (r t) = getn Ar x (r t) -! getn Ar x f *! v t) /\
  (forall i, (forall t, t < m -> r t <> i) -> getn Ar x' i = getn Ar x i).
Proof.
  induction m as [|m IH]; intros x Hr Hf Hinj.
  - simpl. repeat split; auto. intros; lia.
  - cbv zeta. rewrite fold_left_seq_snoc. simpl plus.
    destruct (IH x) as (Hl & Hin & Hout); [intros; apply Hr; lia | intros; apply Hf; lia | intros; apply Hinj; auto; lia |].
    cbv zeta in Hl, Hin, Hout. set (x1 := fold_left _ (seq 0 m) x) in *.
    split. { rewrite upd_length; auto. }
    split.
    + intros t Ht. destruct (Nat.eq_dec t m) as [->|Hne].
      * rewrite getn_upd_same' by (rewrite Hl; apply Hr; lia).
        rewrite (Hout (r m)) by (intros t Ht2 E; apply Hinj in E; lia).
        rewrite (Hout f) by (intros t Ht2; apply Hf; lia). reflexivity.
      * rewrite getn_upd_other'. apply Hin; lia. intros E. apply Hinj in E; lia.
    + intros i Hi. rewrite getn_upd_other' by (apply Hi; lia). apply Hout. intros; apply Hi; lia.
Qed.

(* x[R i] -= work[i]; work[i] = 0   with R injective *)
Lemma scatter_work_inj : forall (Rw : nat -> nat) nrow (x w : list Tt),
  (forall i, i < nrow -> Rw i < length x) -> nrow <= length w ->
  (forall i j, i < nrow -> j < nrow -> Rw i = Rw j -> i = j) ->
  let res := fold_left (fun xw i => let '(x, w) := xw in
                                    (upd x (Rw i) (getn Ar x (Rw i) -! getn Ar w i), upd w i z0))
                       (seq 0 nrow) (x, w) in
  length (fst res) = length x /\ length (snd res) = length w /\
  (forall i, i < nrow -> getn Ar (fst res) (Rw i) = getn Ar x (Rw i) -! getn Ar w i) /\
  (forall r, (forall i, i < nrow -> Rw i <> r) -> getn Ar (fst res) r = getn Ar x r) /\
  (forall i, getn Ar (snd res) i = if i <? nrow then z0 else getn Ar w i).
Proof.
  induction nrow as [|nrow IH]; intros x w HR Hw Hinj; cbv zeta.
  - simpl. repeat split; auto. intros; lia.
  - rewrite fold_left_seq_snoc. simpl plus.
    destruct (IH x w) as (Hlx & Hlw & Hin & Hout & Hwk); [intros; apply HR; lia | lia | intros; apply Hinj; auto; lia |].
    cbv zeta in Hlx, Hlw, Hin, Hout, Hwk.
    destruct (fold_left _ (seq 0 nrow) (x, w)) as [x1 w1]. simpl in *.
    split. { rewrite upd_length; auto. } split. { rewrite upd_length; auto. }
    split; [|split].
    + intros i Hi. destruct (Nat.eq_dec i nrow) as [->|Hne].
      * rewrite getn_upd_same' by (rewrite Hlx; apply HR; lia).
        rewrite (Hout (Rw nrow)). 2:{ intros j Hj E. apply Hinj in E; lia. }
        rewrite (Hwk nrow). destruct (Nat.ltb_spec nrow nrow); [lia|]. reflexivity.
      * rewrite getn_upd_other'. apply Hin; lia. intros E. apply Hinj in E; lia.
    + intros r Hr. rewrite getn_upd_other' by (apply Hr; lia). apply Hout. intros; apply Hr; lia.
    + intros i. rewrite (getn_upd Ar). rewrite Hwk.
      destruct (Nat.eqb_spec nrow i) as [E|E]; simpl.
      * subst i. assert (Hlt : (nrow <? length w1) = true) by (apply Nat.ltb_lt; lia). rewrite Hlt.
        destruct (Nat.ltb_spec nrow (S nrow)); auto; lia.
      * destruct (Nat.ltb_spec i nrow); destruct (Nat.ltb_spec i (S nrow)); auto; lia.
Qed.

End Struct.

Local Open Scope R_scope.

Local Open Scope R_scope.

(* ------------------------------------------------------------------------------------------------ *)
(* 3. the kernels over the reals with rounding                                                      *)

Lemma Rsum_app : forall f a m, Rsum f (a + m) = Rsum f a + Rsum (fun c => f (a + c)%nat) m.
Proof.
  intros f a m. induction m as [|m IH].
  - rewrite Nat.add_0_r. simpl. ring.
  - rewrite Nat.add_succ_r. simpl. rewrite IH. ring.
Qed.

Lemma Rsum_single : forall f m q, (q < m)%nat -> (forall q', (q' < m)%nat -> q' <> q -> f q' = 0) -> Rsum f m = f q.
Proof.
  induction m as [|m IH]; intros q Hq H; [lia|]. simpl.
  destruct (Nat.eq_dec q m) as [->|Hne].
  - rewrite Rsum_0; [ring|]. intros t Ht. apply H; lia.
  - rewrite (IH q) by (try lia; intros; apply H; lia). rewrite (H m) by lia. ring.
Qed.

Lemma bsum_Rsum : forall f m, bsum (ArR (fun r => r)) f m = Rsum f m.
Proof. induction m as [|m IH]; simpl; [reflexivity|]. rewrite IH. reflexivity. Qed.

Section Analysis.
Variables (rnd : R -> R) (u : R).
Hypothesis Hstd : std_model rnd u.
Notation Ar := (ArR rnd).
Notation ArX := (ArR (fun r => r)).
Let Hu : 0 <= u := proj1 Hstd.

(* ---- dmatvec into a zero work vector *)
Section MatvecR.
Variables (M : list R) (mo ldm nrow ncol : nat) (vec : list R) (vo : nat).
Definition tm (k c : nat) : R := getn Ar vec (vo + c) * Mat Ar M mo ldm k c.

Lemma mv_row_Ap : forall k fc j,
  Ap u (S j) (matvec_row Ar (S j) M mo ldm fc vec vo k)
     (Rsum (fun c => tm k (fc + c)) (S j)) (Rsum (fun c => Rabs (tm k (fc + c))) (S j)).
Proof.
  intros k fc j. unfold matvec_row. replace (S j - 1)%nat with j by lia.
  induction j as [|j IH].
  - simpl fold_left. cbn [mul ArR]. simpl Rsum. unfold tm. rewrite !Nat.add_0_r.
    eapply Ap_ext; [| |apply (Ap_prod u Hu rnd Hstd)]; ring.
  - rewrite fold_left_seq_snoc. cbn [add mul ArR].
    pose proof (Ap_add u Hu rnd Hstd _ _ _ _ _ _ _ _ IH
                  (Ap_prod u Hu rnd Hstd (getn Ar vec (vo + fc + (1 + j)) * Mat Ar M mo ldm k (fc + (1 + j))))) as H.
    replace (S (Nat.max (S j) 1)) with (S (S j)) in H by lia.
    eapply Ap_ext; [| |exact H].
    + simpl Rsum. unfold tm. replace (vo + (fc + S j))%nat with (vo + fc + (1 + j))%nat by lia.
      replace (fc + S j)%nat with (fc + (1 + j))%nat by lia. reflexivity.
    + simpl Rsum. unfold tm. replace (vo + (fc + S j))%nat with (vo + fc + (1 + j))%nat by lia.
      replace (fc + S j)%nat with (fc + (1 + j))%nat by lia. reflexivity.
Qed.

Variable Mx : list R.
Definition MvP (fc : nat) (r : list R) : Prop :=
  length r = length Mx /\ (forall q, (nrow <= q)%nat -> getn Ar r q = getn Ar Mx q) /\
  forall q, (q < nrow)%nat -> Ap u (fc + 1) (getn Ar r q) (Rsum (tm q) fc) (Rsum (fun c => Rabs (tm q c)) fc).

Lemma MvP_step : (nrow <= length Mx)%nat -> forall w fc r, (1 <= w)%nat -> (fc + w <= ncol)%nat -> MvP fc r ->
  MvP (fc + w) (matvec_block Ar w M mo ldm nrow fc vec vo r 0).
Proof.
  intros Hlen w fc r Hw Hfc (Hl & Hhi & Hlo).
  destruct (matvec_block_get Ar M mo ldm nrow vec vo 0 w fc r ltac:(simpl; lia)) as [Hl' Hx]. cbv zeta in Hl', Hx.
  split; [exact (eq_trans Hl' Hl)|]. split.
  - intros q Hq. rewrite Hx. destruct (Nat.ltb_spec q (0 + nrow)); [lia|]. rewrite andb_false_r. apply Hhi; auto.
  - intros q Hq. rewrite Hx. destruct (Nat.ltb_spec q (0 + nrow)); [|lia]. simpl andb. cbv iota.
    rewrite Nat.sub_0_r. cbn [add ArR].
    destruct w as [|w]; [lia|].
    pose proof (Ap_add u Hu rnd Hstd _ _ _ _ _ _ _ _ (Hlo q Hq) (mv_row_Ap q fc w)) as HA.
    apply (Ap_mono u Hu _ (fc + S w + 1)) in HA; [|lia].
    eapply Ap_ext; [| |exact HA]; rewrite Rsum_app; reflexivity.
Qed.

Theorem matvec_Ap : (nrow <= length Mx)%nat -> (forall q, (q < nrow)%nat -> getn Ar Mx q = 0) ->
  MvP ncol (matvec Ar ldm nrow ncol M mo vec vo Mx 0).
Proof.
  intros Hlen H0. apply (matvec_inv Ar M mo ldm nrow ncol vec vo 0 MvP).
  - intros w fc r Hw Hfc HP. apply MvP_step; auto.
  - split; auto. split; auto. intros q Hq. rewrite H0 by auto. simpl Rsum.
    apply (Ap_mono u Hu 0); [lia|]. apply Ap_zero.
Qed.
End MatvecR.


(* ---- the supernodal factor *)
Section Factor.
Variables (L : scp Ar) (U : ncp Ar) (n ns : nat).
Hypothesis WF : wf_factor Ar L U n ns.
Notation Lval := (l_val Ar L).
Notation fs := (sn_fsupc Ar L).
Notation wd := (sn_nsupc Ar L).
Notation is_ := (sn_istart Ar L).
Notation nr := (sn_nsupr Ar L).
Notation lu := (sn_luptr Ar L).
Notation srow := (snrow Ar L).
(* the row indices stored below the diagonal block of a supernode are pairwise distinct *)
Hypothesis Hdist : forall k t1 t2, (k < ns)%nat -> (wd k <= t1 < nr k)%nat -> (wd k <= t2 < nr k)%nat ->
  srow k t1 = srow k t2 -> t1 = t2.
Hypothesis HK : INR (n + 1) * u < 1.

Definition tailR (i j : nat) : R :=
  let k := nget (l_col2sup Ar L) j in
  Rsum (fun q => if Nat.eqb (srow k (wd k + q)) i then getn Ar Lval (nget (l_nzbeg Ar L) j + wd k + q) else 0) (nr k - wd k).
Definition LdR (i j : nat) : R :=
  let k := nget (l_col2sup Ar L) j in
  (if (fs k <=? i)%nat && (i <? fs k + wd k)%nat && (j <? i)%nat then getn Ar Lval (nget (l_nzbeg Ar L) j + (i - fs k)) else 0)
  + tailR i j.

Lemma LdX_R : forall i j, Ld ArX (exactL rnd L) i j = LdR i j.
Proof. intros. unfold Ld, tailL, LdR, tailR. cbv zeta. rewrite bsum_Rsum. reflexivity. Qed.

Lemma tailR_hit : forall k c q i, (k < ns)%nat -> (c < wd k)%nat -> (q < nr k - wd k)%nat -> srow k (wd k + q) = i ->
  tailR i (fs k + c) = getn Ar Lval (nget (l_nzbeg Ar L) (fs k + c) + wd k + q).
Proof.
  intros k c q i Hk Hc Hq Hi. unfold tailR. rewrite (wf_c2s Ar L U n ns WF k c Hk Hc). cbv zeta.
  rewrite (Rsum_single _ _ q); auto.
  - rewrite Hi, Nat.eqb_refl. reflexivity.
  - intros q' Hq' Hne. destruct (Nat.eqb_spec (srow k (wd k + q')) i) as [E|E]; auto.
    exfalso. apply Hne. assert (wd k + q' = wd k + q)%nat by (apply (Hdist k); auto; try lia; congruence). lia.
Qed.

Lemma tailR_miss : forall k c i, (k < ns)%nat -> (c < wd k)%nat ->
  (forall q, (q < nr k - wd k)%nat -> srow k (wd k + q) <> i) -> tailR i (fs k + c) = 0.
Proof.
  intros k c i Hk Hc Hm. unfold tailR. rewrite (wf_c2s Ar L U n ns WF k c Hk Hc). cbv zeta.
  apply Rsum_0. intros q Hq. destruct (Nat.eqb_spec (srow k (wd k + q)) i) as [E|E]; auto. exfalso. eapply Hm; eauto.
Qed.

Lemma LdR_block : forall k t c, (k < ns)%nat -> (c < t)%nat -> (t < wd k)%nat ->
  LdR (fs k + t) (fs k + c) = Mat Ar Lval (lu k) (nr k) t c.
Proof.
  intros k t c Hk Hc Ht. unfold LdR. rewrite (wf_c2s Ar L U n ns WF k c Hk ltac:(lia)). cbv zeta.
  destruct (wf_rows Ar L U n ns WF k Hk) as (Hwr & _).
  rewrite tailR_miss; auto; try lia.
  2:{ intros q Hq. pose proof (wf_below Ar L U n ns WF k (wd k + q)%nat Hk ltac:(lia)). lia. }
  destruct (Nat.leb_spec (fs k) (fs k + t)); [|lia].
  destruct (Nat.ltb_spec (fs k + t) (fs k + wd k)); [|lia].
  destruct (Nat.ltb_spec (fs k + c) (fs k + t)); [|lia]. simpl andb. cbv iota.
  replace (fs k + t - fs k)%nat with t by lia.
  rewrite (blk_mat Ar L U n ns WF k t c Hk ltac:(lia) ltac:(lia)). ring.
Qed.

Lemma LdR_tail : forall k i c, (k < ns)%nat -> (c < wd k)%nat -> (fs k + wd k <= i)%nat ->
  LdR i (fs k + c) = tailR i (fs k + c).
Proof.
  intros k i c Hk Hc Hi. unfold LdR. rewrite (wf_c2s Ar L U n ns WF k c Hk Hc). cbv zeta.
  destruct (Nat.ltb_spec i (fs k + wd k)); [lia|]. rewrite andb_false_r. simpl andb. cbv iota. ring.
Qed.

(* ---- the invariant of the forward solve *)
Variable bvec : list R.
Notation K := (n + 1)%nat.
Definition E_ (x : list R) (i m : nat) : R := Rsum (fun j => LdR i j * getn Ar x j) m.
Definition M_ (x : list R) (i m : nat) : R := Rsum (fun j => Rabs (LdR i j) * Rabs (getn Ar x j)) m.
Definition INV (f : nat) (x : list R) : Prop :=
  length x = n /\
  forall i, (i < n)%nat ->
    Ch u (getn Ar bvec i) K (Nat.min i f) (getn Ar x i) (E_ x i (Nat.min i f)) (M_ x i (Nat.min i f)).

Definition LNr (k : nat) (x x2 : list R) : Prop :=
  length x2 = length x /\
  (forall i, (i < fs k)%nat -> getn Ar x2 i = getn Ar x i) /\
  (forall t, (t < wd k)%nat ->
     getn Ar x2 (fs k + t) = fold_left (fun acc c => rnd (acc - rnd (getn Ar x2 (fs k + c) * Mat Ar Lval (lu k) (nr k) t c)))
                                       (seq 0 t) (getn Ar x (fs k + t))) /\
  (forall i, (fs k + wd k <= i)%nat -> (i < n)%nat ->
     (getn Ar x2 i = getn Ar x i /\ forall c, (c < wd k)%nat -> tailR i (fs k + c) = 0) \/
     (exists w, getn Ar x2 i = rnd (getn Ar x i - w) /\
                Ap u (wd k + 1) w (Rsum (fun c => tailR i (fs k + c) * getn Ar x2 (fs k + c)) (wd k))
                                  (Rsum (fun c => Rabs (tailR i (fs k + c)) * Rabs (getn Ar x2 (fs k + c))) (wd k)))).

Lemma E_ext : forall x x2 i m, (forall j, (j < m)%nat -> getn Ar x2 j = getn Ar x j) -> E_ x2 i m = E_ x i m.
Proof. intros. apply Rsum_ext. intros j Hj. rewrite H by auto. reflexivity. Qed.
Lemma M_ext : forall x x2 i m, (forall j, (j < m)%nat -> getn Ar x2 j = getn Ar x j) -> M_ x2 i m = M_ x i m.
Proof. intros. apply Rsum_ext. intros j Hj. rewrite H by auto. reflexivity. Qed.

Lemma Kn : forall a, (a <= n)%nat -> INR a * u < 1.
Proof. intros a Ha. apply INR_u_mono with K; auto. lia. Qed.

Lemma LNr_inv : forall k x x2, (k < ns)%nat -> INV (fs k) x -> LNr k x x2 -> INV (fs k + wd k) x2.
Proof.
  intros k x x2 Hk [Hlx Hinv] (Hl & Hlo & Hblk & Hhi).
  pose proof (fs_mono Ar L U n ns WF k Hk) as Hfe.
  pose proof (wf_width Ar L U n ns WF k Hk) as Hwpos.
  split; [congruence|]. intros i Hi. specialize (Hinv i Hi).
  destruct (Nat.lt_ge_cases i (fs k)) as [C1|C1].
  - replace (Nat.min i (fs k)) with i in Hinv by lia. replace (Nat.min i (fs k + wd k)) with i by lia.
    rewrite Hlo by lia. rewrite (E_ext x), (M_ext x); auto; intros j Hj; apply Hlo; lia.
  - replace (Nat.min i (fs k)) with (fs k) in Hinv by lia.
    rewrite <- (E_ext x x2), <- (M_ext x x2) in Hinv by (intros j Hj; apply Hlo; lia).
    destruct (Nat.lt_ge_cases i (fs k + wd k)) as [C2|C2].
    + (* inside the diagonal block *)
      set (t := (i - fs k)%nat). assert (Ei : i = (fs k + t)%nat) by (unfold t; lia).
      replace (Nat.min i (fs k + wd k)) with (fs k + t)%nat by lia.
      rewrite Ei. rewrite (Hblk t ltac:(unfold t; lia)). rewrite Ei in Hinv.
      assert (Hgen : forall t', (t' <= t)%nat ->
        Ch u (getn Ar bvec (fs k + t)) K (fs k + t')
           (fold_left (fun acc c => rnd (acc - rnd (getn Ar x2 (fs k + c) * Mat Ar Lval (lu k) (nr k) t c)))
                      (seq 0 t') (getn Ar x (fs k + t)))
           (E_ x2 (fs k + t) (fs k + t')) (M_ x2 (fs k + t) (fs k + t'))).
      { induction t' as [|t' IH]; intros Ht'.
        - rewrite Nat.add_0_r. simpl. exact Hinv.
        - rewrite fold_left_seq_snoc. simpl plus. specialize (IH ltac:(lia)).
          replace (fs k + S t')%nat with (S (fs k + t')) by lia.
          eapply Ch_ext; [| |eapply (Ch_step u Hu rnd Hstd _ K _ 1); [exact HK | lia | lia | exact IH | apply (Ap_prod u Hu rnd Hstd)]].
          + unfold E_. simpl Rsum. rewrite (LdR_block k t t' Hk ltac:(lia) ltac:(unfold t; lia)). ring.
          + unfold M_. simpl Rsum. rewrite (LdR_block k t t' Hk ltac:(lia) ltac:(unfold t; lia)).
            rewrite Rabs_mult. ring. }
      apply Hgen. lia.
    + (* below the block *)
      replace (Nat.min i (fs k + wd k)) with (fs k + wd k)%nat by lia.
      assert (HE : E_ x2 i (fs k + wd k) = E_ x2 i (fs k) + Rsum (fun c => tailR i (fs k + c) * getn Ar x2 (fs k + c)) (wd k)).
      { unfold E_. rewrite Rsum_app. f_equal. apply Rsum_ext. intros c Hc. rewrite LdR_tail by auto. reflexivity. }
      assert (HM : M_ x2 i (fs k + wd k) = M_ x2 i (fs k) + Rsum (fun c => Rabs (tailR i (fs k + c)) * Rabs (getn Ar x2 (fs k + c))) (wd k)).
      { unfold M_. rewrite Rsum_app. f_equal. apply Rsum_ext. intros c Hc. rewrite LdR_tail by auto. reflexivity. }
      rewrite HE, HM.
      destruct (Hhi i C2 Hi) as [[Hsame Hz] | (w & Hw & HAp)].
      * rewrite Hsame. rewrite !Rsum_0.
        -- rewrite !Rplus_0_r. eapply Ch_mono; [auto | | apply Kn | exact Hinv]; lia.
        -- intros c Hc. rewrite Hz by auto. rewrite Rabs_R0. ring.
        -- intros c Hc. rewrite Hz by auto. ring.
      * rewrite Hw. eapply (Ch_mono u Hu _ K (S (fs k))); [lia | apply Kn; lia |].
        eapply (Ch_step u Hu rnd Hstd _ K _ (wd k + 1)); [exact HK | lia | lia | exact Hinv | exact HAp].
Qed.


Lemma LN_sn_r : forall k x w, (k < ns)%nat -> length x = n -> work_ok Ar n w ->
  let res := trsv_LN_sn Ar L (x, w) k in
  LNr k x (fst res) /\ work_ok Ar n (snd res).
Proof.
  intros k x w Hk Hlx [Hlw Hw0]. cbv zeta. unfold trsv_LN_sn.
  assert (Hlx' : @length R x = n) by exact Hlx. assert (Hlw' : @length R w = n) by exact Hlw.
  destruct (wf_rows Ar L U n ns WF k Hk) as (Hwr & Hrn & Hriend).
  pose proof (wf_width Ar L U n ns WF k Hk) as Hwpos. pose proof (fs_mono Ar L U n ns WF k Hk) as Hfe.
  destruct (Nat.eqb_spec (wd k) 1) as [E1|E1].
  - (* single column *)
    simpl snd. simpl fst. split; [|split; auto].
    rewrite Hriend. replace (is_ k + nr k - (is_ k + 1))%nat with (nr k - 1)%nat by lia.
    assert (Hb : forall t, (t < nr k - 1)%nat ->
               (fs k + wd k <= nget (l_rowind Ar L) (is_ k + 1 + t) < n)%nat).
    { intros t Ht. pose proof (wf_below Ar L U n ns WF k (1 + t)%nat Hk ltac:(lia)) as Hb.
      unfold snrow in Hb. rewrite Nat.add_assoc in Hb. exact Hb. }
    destruct (scatter_col_inj Ar (fun t => nget (l_rowind Ar L) (is_ k + 1 + t)) (fun t => getn Ar Lval (lu k + 1 + t))
                              (fs k) (nr k - 1) x) as (Hl & Hin & Hout).
    { intros t Ht. specialize (Hb t Ht). cbv beta. lia. }
    { intros t Ht. specialize (Hb t Ht). cbv beta. lia. }
    { intros t1 t2 Ht1 Ht2 E. assert (1 + t1 = 1 + t2)%nat; [|lia].
      apply (Hdist k); auto; try lia. unfold snrow. rewrite !Nat.add_assoc. exact E. }
    cbv beta zeta in Hl, Hin, Hout.
    set (x2 := fold_left _ (seq 0 (nr k - 1)) x) in *.
    match goal with |- LNr _ _ ?r => change r with x2 end.
    split; [exact Hl|]. split; [|split].
    + intros i Hi. apply Hout. intros t Ht. specialize (Hb t Ht). lia.
    + intros t Ht. assert (t = 0)%nat by lia. subst t. simpl fold_left.
      apply Hout. intros t Ht2. specialize (Hb t Ht2). lia.
    + intros i Hi Hin'.
      destruct (exists_dec_lt (fun t => nget (l_rowind Ar L) (is_ k + 1 + t) = i) ltac:(intros; apply Nat.eq_dec) (nr k - 1))
        as [(t & Ht & Et) | Hmiss].
      * right. exists (rnd (getn Ar x (fs k) * getn Ar Lval (lu k + 1 + t))). split.
        -- rewrite <- Et. rewrite (Hin t Ht). reflexivity.
        -- rewrite E1. apply (Ap_mono u Hu 1); [lia|].
           assert (Ex : getn Ar x2 (fs k + 0) = getn Ar x (fs k)).
           { rewrite Nat.add_0_r. apply Hout. intros t' Ht'. specialize (Hb t' Ht'). lia. }
           assert (Et' : tailR i (fs k + 0) = getn Ar Lval (lu k + 1 + t)).
           { rewrite (tailR_hit k 0 t i Hk ltac:(lia) ltac:(lia)).
             - destruct (wf_nz Ar L U n ns WF k 0%nat Hk ltac:(lia)) as [En _]. rewrite En, E1. f_equal. lia.
             - unfold snrow. rewrite E1. rewrite Nat.add_assoc. exact Et. }
           eapply Ap_ext; [| |apply (Ap_prod u Hu rnd Hstd)].
           ++ simpl Rsum. rewrite Ex, Et'. ring.
           ++ simpl Rsum. rewrite Ex, Et'. rewrite Rabs_mult. ring.
      * left. split.
        -- apply Hout. exact Hmiss.
        -- intros c Hc. apply tailR_miss; auto. intros q Hq. unfold snrow. rewrite E1. rewrite Nat.add_assoc.
           apply Hmiss. lia.
  - (* lsolve + matvec + scatter *)
    set (w_ := wd k) in *. set (nrow := (nr k - w_)%nat).
    destruct (lsolve_chain Ar Lval (lu k) (nr k) w_ (fs k) x ltac:(lia))
      as (Hl1 & Hfr1 & Hls). cbv zeta in Hl1, Hfr1, Hls.
    set (x1 := lsolve Ar (nr k) w_ Lval (lu k) x (fs k)) in *.
    destruct (matvec_Ap Lval (lu k + w_) (nr k) nrow w_ x1 (fs k) w ltac:(unfold nrow; lia) ltac:(intros; apply Hw0))
      as (Hlw1 & Hwhi & Hwlo).
    set (w1 := matvec Ar (nr k) nrow w_ Lval (lu k + w_) x1 (fs k) w 0) in *.
    assert (Hb : forall q, (q < nrow)%nat -> (fs k + w_ <= nget (l_rowind Ar L) (is_ k + w_ + q) < n)%nat).
    { intros q Hq. pose proof (wf_below Ar L U n ns WF k (w_ + q)%nat Hk ltac:(unfold nrow in Hq; lia)) as Hb.
      unfold snrow in Hb. rewrite Nat.add_assoc in Hb. exact Hb. }
    destruct (scatter_work_inj Ar (fun i => nget (l_rowind Ar L) (is_ k + w_ + i)) nrow x1 w1) as (Hl2 & Hlw2 & Hx2in & Hx2out & Hw2).
    { intros q Hq. specialize (Hb q Hq). cbv beta.
      assert (@length (T Ar) x1 = n) by exact (eq_trans Hl1 Hlx). lia. }
    { assert (@length (T Ar) w1 = n) by exact (eq_trans Hlw1 Hlw). unfold nrow. lia. }
    { intros q1 q2 Hq1 Hq2 E. assert (w_ + q1 = w_ + q2)%nat; [|lia].
      apply (Hdist k); auto; try (unfold nrow in *; lia). unfold snrow. rewrite !Nat.add_assoc. exact E. }
    cbv beta zeta in Hl2, Hlw2, Hx2in, Hx2out, Hw2.
    match goal with |- LNr _ _ (fst ?r) /\ _ => set (res := r) in * end.
    assert (Hlow : forall r, (r < fs k + w_)%nat -> getn Ar (fst res) r = getn Ar x1 r).
    { intros r Hr. apply Hx2out. intros q Hq. specialize (Hb q Hq). lia. }
    split.
    + split; [exact (eq_trans Hl2 Hl1)|]. split; [|split].
      * intros i Hi. rewrite Hlow by lia. apply Hfr1. lia.
      * intros t Ht. rewrite Hlow by lia. rewrite (Hls t Ht).
        apply fold_left_seq_ext. intros y c Hc. rewrite Hlow by lia. reflexivity.
      * intros i Hi Hin'.
        destruct (exists_dec_lt (fun q => nget (l_rowind Ar L) (is_ k + w_ + q) = i) ltac:(intros; apply Nat.eq_dec) nrow)
          as [(q & Hq & Eq) | Hmiss].
        -- right. exists (getn Ar w1 q). split.
           ++ rewrite <- Eq. rewrite (Hx2in q Hq). rewrite (Hfr1 _) by (specialize (Hb q Hq); lia). reflexivity.
           ++ eapply Ap_ext; [| |apply (Hwlo q Hq)].
              ** apply Rsum_ext. intros c Hc. unfold tm. rewrite Hlow by lia.
                 rewrite (tailR_hit k c q i Hk Hc ltac:(unfold nrow in Hq; lia)).
                 2:{ unfold snrow. rewrite Nat.add_assoc. exact Eq. }
                 destruct (wf_nz Ar L U n ns WF k c Hk Hc) as [En _]. rewrite En. unfold Mat. fold w_.
                 replace (lu k + c * nr k + w_ + q)%nat with (lu k + w_ + q + c * nr k)%nat by lia. ring.
              ** apply Rsum_ext. intros c Hc. unfold tm. rewrite Hlow by lia.
                 rewrite (tailR_hit k c q i Hk Hc ltac:(unfold nrow in Hq; lia)).
                 2:{ unfold snrow. rewrite Nat.add_assoc. exact Eq. }
                 destruct (wf_nz Ar L U n ns WF k c Hk Hc) as [En _]. rewrite En. unfold Mat. fold w_.
                 replace (lu k + c * nr k + w_ + q)%nat with (lu k + w_ + q + c * nr k)%nat by lia.
                 rewrite Rabs_mult. ring.
        -- left. split.
           ++ rewrite (Hx2out i Hmiss). apply Hfr1. lia.
           ++ intros c Hc. apply tailR_miss; auto. intros q Hq. unfold snrow. rewrite Nat.add_assoc.
              apply Hmiss. unfold nrow. exact Hq.
    + split; [exact (eq_trans Hlw2 (eq_trans Hlw1 Hlw))|]. intros i. rewrite Hw2.
      destruct (Nat.ltb_spec i nrow) as [Hlt|Hge]; auto.
      rewrite (Hwhi i Hge). apply Hw0.
Qed.


Theorem trsv_LN_rounded : length bvec = n ->
  exists x', sp_trsv Ar L U cL cN cU bvec = S_ok x' /\ length x' = n /\
    forall i, (i < n)%nat ->
      Rabs (getn Ar bvec i - (getn Ar x' i + Rsum (fun j => LdR i j * getn Ar x' j) i))
      <= gammaR (n + 1) u * (Rabs (getn Ar x' i) + Rsum (fun j => Rabs (LdR i j) * Rabs (getn Ar x' j)) i).
Proof.
  intros Hlb. unfold sp_trsv. simpl tchar_eqb. simpl negb. simpl andb.
  destruct (wf_ldim Ar L U n ns WF) as [E1 E2]. destruct (wf_udim Ar L U n ns WF) as [E3 E4].
  destruct (wf_nsup Ar L U n ns WF) as [E5 Hns].
  pose proof (wf_npos Ar L U n ns WF) as Hn.
  rewrite E1, E2, E3, E4, E5.
  rewrite !Z.eqb_refl. simpl negb. simpl orb.
  destruct (Z.ltb_spec (Z.of_nat n) 0); [lia|]. cbv iota.
  destruct (Z.eqb_spec (Z.of_nat n) 0); [lia|].
  replace (Z.to_nat (Z.of_nat ns - 1 + 1)) with ns by lia. rewrite Nat2Z.id.
  eexists. split; [reflexivity|].
  assert (Hloop : forall c, (c <= ns)%nat ->
            let res := fold_left (trsv_LN_sn Ar L) (seq 0 c) (bvec, repeat (zero Ar) n) in
            INV (if (c =? 0)%nat then 0%nat else (fs (c - 1) + wd (c - 1))%nat) (fst res) /\ work_ok Ar n (snd res)).
  { induction c as [|c IH]; intros Hc; cbv zeta.
    - simpl. split.
      + split; auto. intros i Hi. rewrite Nat.min_0_r. unfold E_, M_. simpl Rsum. apply Ch_init; auto.
      + split. apply repeat_length. intros i. unfold getn. destruct (Nat.lt_ge_cases i n).
        * apply nth_repeat.
        * apply nth_overflow. rewrite repeat_length. lia.
    - rewrite fold_left_seq_snoc. change (0 + c)%nat with c. destruct IH as [HI HW]; [lia|]. cbv zeta in HI, HW.
      destruct (fold_left (trsv_LN_sn Ar L) (seq 0 c) (bvec, repeat (zero Ar) n)) as [xc wc]. cbn [fst snd] in HI, HW.
      assert (Hfc : (if (c =? 0)%nat then 0%nat else (fs (c - 1) + wd (c - 1))%nat) = fs c).
      { destruct c as [|c]; simpl. symmetry; apply (wf_first Ar L U n ns WF).
        rewrite Nat.sub_0_r. symmetry. apply (wf_next Ar L U n ns WF). lia. }
      rewrite Hfc in HI.
      destruct (LN_sn_r c xc wc ltac:(lia) ltac:(destruct HI; auto) HW) as [Hch Hwk]. cbv zeta in Hch, Hwk.
      split; [|exact Hwk]. change (S c =? 0)%nat with false. cbv iota. replace (S c - 1)%nat with c by lia.
      exact (LNr_inv c xc _ ltac:(lia) HI Hch). }
  destruct (Hloop ns (le_n ns)) as [[Hl Hinv] _]. cbv zeta in Hl, Hinv.
  destruct (Nat.eqb_spec ns 0); [lia|]. rewrite (wf_last Ar L U n ns WF) in Hinv.
  split; auto. intros i Hi. specialize (Hinv i Hi). replace (Nat.min i n) with i in Hinv by lia.
  apply (Ch_final u Hu _ K i); auto. lia.
Qed.

End Factor.
End Analysis.

Local Open Scope R_scope.

Definition trsv_rounded_partial_stmt : Prop :=
  forall rnd u, std_model rnd u ->
  forall (L : scp (ArR rnd)) (U : ncp (ArR rnd)) (n ns : nat) (b : list R),
    wf_factor (ArR rnd) L U n ns -> length b = n -> INR (n + 1) * u < 1 ->
    (* EXTRA: the row indices stored below the diagonal block of each supernode are pairwise distinct *)
    (forall k t1 t2, (k < ns)%nat ->
       (sn_nsupc (ArR rnd) L k <= t1 < sn_nsupr (ArR rnd) L k)%nat ->
       (sn_nsupc (ArR rnd) L k <= t2 < sn_nsupr (ArR rnd) L k)%nat ->
       snrow (ArR rnd) L k t1 = snrow (ArR rnd) L k t2 -> t1 = t2) ->
    exists x', sp_trsv (ArR rnd) L U cL cN cU b = S_ok x' /\
      forall i, (i < n)%nat ->
        Rabs (nth i b 0 - (nth i x' 0 + Rsum (fun j => Ld (ArR (fun r => r)) (exactL rnd L) i j
                  * nth j x' 0) i))
        <= gammaR (n + 1) u * (Rabs (nth i x' 0) +
             Rsum (fun j => Rabs (Ld (ArR (fun r => r)) (exactL rnd L) i j)
                  * Rabs (nth j x' 0)) i).

Theorem trsv_rounded_partial : trsv_rounded_partial_stmt.
Proof.
  intros rnd u Hstd L U n ns b WF Hlb HK Hdist.
  destruct (trsv_LN_rounded rnd u Hstd L U n ns WF Hdist HK b Hlb) as (x' & Hx & Hl & Hb).
  exists x'. split; [exact Hx|]. intros i Hi. specialize (Hb i Hi).
  rewrite (Rsum_ext (fun j => Ld (ArR (fun r => r)) (exactL rnd L) i j * nth j x' 0)
                    (fun j => LdR rnd L i j * getn (ArR rnd) x' j)) by (intros; rewrite LdX_R; reflexivity).
  rewrite (Rsum_ext (fun j => Rabs (Ld (ArR (fun r => r)) (exactL rnd L) i j) * Rabs (nth j x' 0))
                    (fun j => Rabs (LdR rnd L i j) * Rabs (getn (ArR rnd) x' j))) by (intros; rewrite LdX_R; reflexivity).
  exact Hb.
Qed.

Print Assumptions trsv_rounded_partial.

(* the original statement is false: witness *)
Definition wrnd2 (z : R) : R := if Req_EM_T z 3 then 51 / 16 else z.

Lemma wrnd2_std : std_model wrnd2 (1 / 16).
Proof.
  split; [lra|]. intros z. unfold wrnd2. destruct (Req_EM_T z 3) as [->|Hne].
  - exists (1 / 16). split; [rewrite Rabs_right; lra | lra].
  - exists 0. split; [rewrite Rabs_R0; lra | ring].
Qed.
Lemma wrnd2_ne : forall z, z <> 3 -> wrnd2 z = z.
Proof. intros z Hz. unfold wrnd2. destruct (Req_EM_T z 3); [contradiction | reflexivity]. Qed.
Lemma wrnd2_3 : wrnd2 3 = 51 / 16.
Proof. unfold wrnd2. destruct (Req_EM_T 3 3); [reflexivity | contradiction]. Qed.

Definition wL : scp (ArR wrnd2) :=
  mkScp (ArR wrnd2) 3 3 2 [1; 3; -3; 1; 1] [0; 3; 4]%nat [3; 4; 5]%nat [0; 2; 2; 1; 2]%nat [0; 3; 4]%nat [3; 4; 5]%nat
        [0; 1; 2; 2]%nat [0; 1; 2]%nat [1; 2; 3]%nat.
Definition wU : ncp (ArR wrnd2) := mkNcp (ArR wrnd2) 3 3 [] [] [0; 0; 0]%nat [0; 0; 0]%nat.

Lemma w_wf : wf_factor (ArR wrnd2) wL wU 3 3.
Proof.
  constructor.
  - lia.
  - split; reflexivity.
  - split; reflexivity.
  - split; [reflexivity | lia].
  - reflexivity.
  - intros k Hk. destruct k as [|[|[|k]]]; try lia; cbv; lia.
  - intros k Hk. destruct k as [|[|[|k]]]; try lia; reflexivity.
  - reflexivity.
  - intros k Hk. destruct k as [|[|[|k]]]; try lia; reflexivity.
  - intros k Hk. destruct k as [|[|[|k]]]; try lia; cbv; lia.
  - intros k t Hk Ht. destruct k as [|[|[|k]]]; try lia;
      (assert (t = 0)%nat by (revert Ht; cbv; lia)); subst t; reflexivity.
  - intros k t Hk Ht. destruct k as [|[|[|k]]]; try lia.
    + assert (t = 1 \/ t = 2)%nat as [-> | ->] by (revert Ht; cbv; lia); cbv; lia.
    + exfalso. revert Ht. cbv. lia.
    + exfalso. revert Ht. cbv. lia.
  - intros k c Hk Hc. destruct k as [|[|[|k]]]; try lia;
      (assert (c = 0)%nat by (revert Hc; cbv; lia)); subst c; cbv; lia.
  - intros k c Hk Hc. destruct k as [|[|[|k]]]; try lia;
      (assert (c = 0)%nat by (revert Hc; cbv; lia)); subst c; reflexivity.
  - intros k c p Hk Hc Hp. exfalso. destruct k as [|[|[|k]]]; try lia;
      (assert (c = 0)%nat by (revert Hc; cbv; lia)); subst c; revert Hp; cbv; lia.
Qed.

Lemma w_run : sp_trsv (ArR wrnd2) wL wU cL cN cU [1; 0; 0] = @S_ok (ArR wrnd2) [1; 0; - (3 / 16)].
Proof.
  cbv -[Rplus Rminus Rmult Rdiv Rinv Ropp IZR wrnd2 Req_EM_T Rlt_dec].
  replace (1 * 3) with 3 by ring. rewrite wrnd2_3.
  replace (0 - 51 / 16) with (- (51 / 16)) by ring. rewrite (wrnd2_ne (- (51 / 16))) by lra.
  replace (1 * -3) with (-3) by ring. rewrite (wrnd2_ne (-3)) by lra.
  replace (- (51 / 16) - -3) with (- (3 / 16)) by lra. rewrite wrnd2_ne by lra. reflexivity.
Qed.

Theorem trsv_rounded_full_false : ~ trsv_rounded_full.
Proof.
  intros H.
  destruct (H wrnd2 (1 / 16) wrnd2_std wL wU 3%nat 3%nat [1; 0; 0] w_wf eq_refl) as (x' & Hx & Hb).
  - simpl. lra.
  - rewrite w_run in Hx. injection Hx as <-.
    specialize (Hb 2%nat ltac:(lia)).
    cbv -[Rplus Rminus Rmult Rdiv Rinv Ropp IZR Rabs Rle gammaR] in Hb.
    replace (0 - (- (3 / 16) + (0 + (0 + (0 + 3 + -3)) * 1 + (0 + 0) * 0))) with (3 / 16) in Hb by lra.
    replace (0 + (0 + 3 + -3)) with 0 in Hb by lra. replace (0 + 0) with 0 in Hb by lra.
    rewrite Rabs_Ropp, Rabs_R0, Rabs_R1 in Hb. rewrite !(Rabs_right (3 / 16)) in Hb by lra.
    unfold gammaR in Hb. simpl INR in Hb. lra.
Qed.

Print Assumptions trsv_rounded_full_false.
