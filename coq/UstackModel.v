(* C14 -- executable model of the workspace management of SuperLU_MT (SRC/p?memory.c,
   p?gstrf_thread_init.c, p?gstrf.c, p?gstrf_thread.c, p?gssvx.c).  Definitions only (no proofs).

   Modelled line by line (the four precisions differ only in dword = sizeof(element)):
     p?gstrf_SetupSpace, ?user_malloc, ?user_free (StackFull test), the alignment fix-ups in
     p?gstrf_expand (no_expand = 0 branch: the only one reachable, p?gstrf_MemXpand has no caller)
     and p?gstrf_WorkInit, p?gstrf_WorkFree, superlu_?TempSpace, p?gstrf_memory_use (with the
     float / double roundings of the C expressions), p?gstrf_MemInit (query, first factorization
     with the halving retry loop, refactorization), the info plumbing of p?gstrf_thread,
     p?gstrf_thread_finalize, p?gstrf and p?gssvx.
   The system allocator is an oracle  fail : nat -> bool  on the ordinal of the request.
   Addresses inside the user buffer are offsets relative to work[0]; ba = (address of work[0]) mod 8. *)
Require Import ZArith List Bool.
From SLU Require Import Consts.
Import ListNotations.
Local Open Scope Z_scope.

(* ------------------------------------------------------------------ *)
(* IEEE rounding (to nearest, ties to even) of an integer to p significant bits: every float/double
   value in these routines is an integer, so the binary32/binary64 operations of the C code are
   "exact integer operation, then rnd 24 / rnd 53" (no overflow below 2^127). *)
Definition rnd_pos (p z : Z) : Z :=
  let e := Z.log2 z + 1 - p in
  if e <=? 0 then z else
    let m := 2 ^ e in
    let q := z / m in
    let r := z mod m in
    let h := m / 2 in
    (if (h <? r) || ((r =? h) && Z.odd q) then q + 1 else q) * m.

Definition rnd (p z : Z) : Z :=
  if z <=? 0 then - rnd_pos p (- z) else rnd_pos p z.

Definition f32 := rnd 24.
Definition f64 := rnd 53.

(* ------------------------------------------------------------------ *)
Definition iword : Z := 4.                 (* sizeof(int_t), int_t = int (no _LONGINT) *)
Definition exphdr_bytes : Z := 4 * 16.     (* NO_MEMTYPE * sizeof(ExpHeader) *)

Record cfg := mkCfg {
  dword : Z;          (* sizeof(float|double|complex|doublecomplex) *)
  maxsuper : Z;       (* sp_ienv(3) *)
  rowblk : Z;         (* sp_ienv(4) *)
  fill_lusup : Z;     (* sp_ienv(6) *)
  fill_ucol : Z;      (* sp_ienv(7) *)
  fill_lsub : Z       (* sp_ienv(8) *)
}.

(* ------------------------------------------------------------------ *)
(* The two-ended user stack  (LU_stack_t; SRC/pdmemory.c:50-68, 85-166) *)
Record stack := mkStack { s_size : Z; s_used : Z; s_top1 : Z; s_top2 : Z }.

Inductive end_t := HEAD | TAIL.

(* #define StackFull(x) ( x + stack.used >= stack.size ) *)
Definition stack_full (x : Z) (s : stack) : bool := s_size s <=? x + s_used s.

Definition setup_stack (lwork : Z) : stack := mkStack lwork 0 0 lwork.

(* NotDoubleAlign / DoubleAlign on the address  base + off,  base mod 8 = ba *)
Definition misalign (ba off : Z) : Z := (ba + off) mod 8.
Definition align_up_extra (ba off : Z) : Z := (8 - misalign ba off) mod 8.   (* DoubleAlign(a) - a *)

(* ?user_malloc, TAIL end (since fix 'tail blocks are aligned by the allocator'):
     extra = ( address of (stack.array + stack.top2 - bytes) ) & 7;
   the address is positive, so  & 7  is  mod 8  of  ba + top2 - bytes *)
Definition tail_extra (ba bytes : Z) (s : stack) : Z := misalign ba (s_top2 s - bytes).

(* the byte count a granted request takes from the stack (what the C hook logs: `bytes` after `bytes += extra`) *)
Definition granted_bytes (ba bytes : Z) (e : end_t) (s : stack) : Z :=
  match e with HEAD => bytes | TAIL => bytes + tail_extra ba bytes s end.

(* ?user_malloc (ba = (address of stack.array) mod 8), statement by statement:
     if ( StackFull(bytes) ) return NULL;
     HEAD:  buf = array + top1;  top1 += bytes;
     TAIL:  extra = (array + top2 - bytes) & 7;  if ( StackFull(bytes + extra) ) return NULL;
            bytes += extra;  top2 -= bytes;  buf = array + top2;
     used += bytes; *)
Definition user_malloc (ba bytes : Z) (e : end_t) (s : stack) : option Z * stack :=
  if stack_full bytes s then (None, s)
  else match e with
       | HEAD => (Some (s_top1 s),
                  mkStack (s_size s) (s_used s + bytes) (s_top1 s + bytes) (s_top2 s))
       | TAIL =>
           let extra := tail_extra ba bytes s in
           if stack_full (bytes + extra) s then (None, s)
           else
             let bytes := bytes + extra in
             (Some (s_top2 s - bytes),
              mkStack (s_size s) (s_used s + bytes) (s_top1 s) (s_top2 s - bytes))
       end.

Definition user_free (bytes : Z) (e : end_t) (s : stack) : stack :=
  match e with
  | HEAD => mkStack (s_size s) (s_used s - bytes) (s_top1 s - bytes) (s_top2 s)
  | TAIL => mkStack (s_size s) (s_used s - bytes) (s_top1 s) (s_top2 s + bytes)
  end.

(* reclaiming the whole tail (the work arrays of all threads of the last factorization): done by the next
   p?gstrf_MemInit (refact = YES: size/top2 re-armed, used := top1; refact = NO: SetupSpace).  Until fix 'WorkFree keeps the
   tail' this was what p?gstrf_WorkFree did in the USER branch -- by whichever thread finished first, while the others were
   still using their arrays (findings F17, C14-workfree). *)
Definition tail_reclaim_stack (s : stack) : stack :=
  mkStack (s_size s) (s_used s - (s_size s - s_top2 s)) (s_top1 s) (s_size s).

(* p?gstrf_WorkFree, USER branch: nothing is released (other threads may still be running) *)
Definition work_free_stack (s : stack) : stack := s.

(* ------------------------------------------------------------------ *)
(* A client of the bare allocator that respects the stack discipline the allocator was written for:
   it frees only the most recent live block of an end (or, like the next p?gstrf_MemInit, the whole tail).
   The client knows the byte count it asked for, not the alignment slack (0..7 bytes, above the block) that the
   allocator adds to a TAIL request: it records (offset, bytes) and frees `bytes`; the slack of a freed TAIL block
   stays taken until the tail is reclaimed as a whole.  ba = (address of the buffer) mod 8. *)
Inductive req :=
| RMalloc (bytes : Z) (e : end_t)
| RFreeLast (e : end_t)
| RWorkFree                       (* p?gstrf_WorkFree: keeps everything *)
| RReclaim.                       (* the whole tail is given back (next MemInit) *)

Record ust := mkUst {
  u_stack : stack;
  u_head : list (Z * Z);      (* live HEAD blocks (offset, bytes), most recent first *)
  u_tail : list (Z * Z)       (* live TAIL blocks, most recent first *)
}.

Definition init_ust (lwork : Z) : ust := mkUst (setup_stack lwork) [] [].

Definition do_req (ba : Z) (r : req) (u : ust) : ust :=
  match r with
  | RMalloc bytes e =>
      match user_malloc ba bytes e (u_stack u) with
      | (None, _) => u
      | (Some off, s) =>
          match e with
          | HEAD => mkUst s ((off, bytes) :: u_head u) (u_tail u)
          | TAIL => mkUst s (u_head u) ((off, bytes) :: u_tail u)
          end
      end
  | RFreeLast HEAD =>
      match u_head u with
      | [] => u
      | (_, b) :: t => mkUst (user_free b HEAD (u_stack u)) t (u_tail u)
      end
  | RFreeLast TAIL =>
      match u_tail u with
      | [] => u
      | (_, b) :: t => mkUst (user_free b TAIL (u_stack u)) (u_head u) t
      end
  | RWorkFree => u
  | RReclaim => mkUst (tail_reclaim_stack (u_stack u)) (u_head u) []
  end.

Definition run_reqs (ba : Z) (rs : list req) (u : ust) : ust := fold_left (fun u r => do_req ba r u) rs u.

Definition req_ok (r : req) : Prop :=
  match r with RMalloc bytes _ => 0 <= bytes | _ => True end.

Definition block_in (lo hi : Z) (b : Z * Z) : Prop := lo <= fst b /\ fst b + snd b <= hi.
Definition disjoint (b1 b2 : Z * Z) : Prop := fst b1 + snd b1 <= fst b2 \/ fst b2 + snd b2 <= fst b1.

(* ------------------------------------------------------------------ *)
(* Pointers and the whole memory-manager state *)
Inductive ptr := PNull | POff (off : Z) | PSys (k : nat).

Definition is_null (p : ptr) : bool := match p with PNull => true | _ => false end.

Inductive space := SYSTEM | USER.

Inductive event :=
| EvUser (off bytes : Z) (e : end_t)      (* block handed out from the user buffer *)
| EvShift (off bytes : Z) (e : end_t)     (* the block just handed out is moved by an alignment fix-up *)
| EvUserFree (bytes : Z) (e : end_t)
| EvUserRestore (top1 used : Z)           (* stack.top1 = top1; stack.used = used;  (retry loop of p?gstrf_MemInit, user space) *)
| EvWorkFree
| EvSys (k : nat) (bytes : Z)             (* k-th system request granted *)
| EvSysFail (k : nat) (bytes : Z)
| EvSysFree (k : nat).

Record mem := mkMem {
  m_stack : stack;
  m_space : space;           (* static LU_space_t whichspace *)
  m_ndim : Z;                (* static int_t ndim *)
  m_noexp : Z;               (* static int_t no_expand *)
  m_ba : Z;                  (* (address of work[0]) mod 8 *)
  m_exp : option (list (ptr * Z));   (* ?expanders: None = NULL, else 4 x (mem, size) *)
  m_sysn : nat;              (* number of system requests issued so far *)
  m_log : list event         (* most recent first *)
}.

Definition init_mem : mem :=
  mkMem (mkStack 0 0 0 0) SYSTEM 0 0 0 None O [].

Definition set_stack (m : mem) (s : stack) : mem :=
  mkMem s (m_space m) (m_ndim m) (m_noexp m) (m_ba m) (m_exp m) (m_sysn m) (m_log m).
Definition set_space (m : mem) (w : space) : mem :=
  mkMem (m_stack m) w (m_ndim m) (m_noexp m) (m_ba m) (m_exp m) (m_sysn m) (m_log m).
Definition set_ba (m : mem) (b : Z) : mem :=
  mkMem (m_stack m) (m_space m) (m_ndim m) (m_noexp m) b (m_exp m) (m_sysn m) (m_log m).
Definition set_dims (m : mem) (nd ne : Z) : mem :=
  mkMem (m_stack m) (m_space m) nd ne (m_ba m) (m_exp m) (m_sysn m) (m_log m).
Definition set_exp (m : mem) (x : option (list (ptr * Z))) : mem :=
  mkMem (m_stack m) (m_space m) (m_ndim m) (m_noexp m) (m_ba m) x (m_sysn m) (m_log m).
Definition add_log (m : mem) (e : event) : mem :=
  mkMem (m_stack m) (m_space m) (m_ndim m) (m_noexp m) (m_ba m) (m_exp m) (m_sysn m) (e :: m_log m).

(* how a library call can stop instead of returning *)
Inductive stop :=
| ExitDiag      (* fprintf(stderr, "SUPERLU_MALLOC failed ...") ; exit(1)  (intMalloc / intCalloc) *)
| Crash         (* NULL dereference *)
| Hang.         (* fuel exhausted in the model (before fix 'the retry loop gives up when nzumax < 1': a loop that never ends) *)

Inductive res (A : Type) :=
| Ok (a : A) (m : mem)
| Stop (s : stop) (m : mem).
Arguments Ok {A} _ _.
Arguments Stop {A} _ _.

Definition bind {A B} (r : res A) (f : A -> mem -> res B) : res B :=
  match r with
  | Ok a m => f a m
  | Stop s m => Stop s m
  end.

Section WithAllocator.
Variable fail : nat -> bool.     (* fail k = true: the k-th (1-based) system request returns NULL *)
Variable c : cfg.

(* SUPERLU_MALLOC *)
Definition sys_malloc (bytes : Z) (m : mem) : ptr * mem :=
  let k := S (m_sysn m) in
  let m1 := mkMem (m_stack m) (m_space m) (m_ndim m) (m_noexp m) (m_ba m) (m_exp m) k (m_log m) in
  if fail k then (PNull, add_log m1 (EvSysFail k bytes))
  else (PSys k, add_log m1 (EvSys k bytes)).

(* SUPERLU_FREE (free(NULL) is a no-op) *)
Definition sys_free (p : ptr) (m : mem) : mem :=
  match p with
  | PSys k => add_log m (EvSysFree k)
  | _ => m
  end.

(* intMalloc / intCalloc: exit(1) with a diagnostic on failure *)
Definition int_malloc (count : Z) (m : mem) : res ptr :=
  let '(p, m1) := sys_malloc (count * iword) m in
  if is_null p then Stop ExitDiag m1 else Ok p m1.

(* ?user_malloc on the state; the event carries the byte count taken (TAIL: alignment slack included) *)
Definition umalloc (bytes : Z) (e : end_t) (m : mem) : ptr * mem :=
  match user_malloc (m_ba m) bytes e (m_stack m) with
  | (None, _) => (PNull, m)
  | (Some off, s) => (POff off, add_log (set_stack m s) (EvUser off (granted_bytes (m_ba m) bytes e (m_stack m)) e))
  end.

Definition ufree (bytes : Z) (e : end_t) (m : mem) : mem :=
  add_log (set_stack m (user_free bytes e (m_stack m))) (EvUserFree bytes e).

(* stack.top1 = retry_top1; stack.used = retry_used;   (p?gstrf_MemInit, retry loop, user space: since fix 'the retry
   loop gives back exactly what the last attempt took' this replaces  ?user_free(nzumax*dword + (nzlmax+nzumax)*iword, HEAD),
   an amount computed as if ucol, lsub and usub had all been granted -- finding C14-overfree) *)
Definition urestore (top1 used : Z) (m : mem) : mem :=
  let s := m_stack m in
  add_log (set_stack m (mkStack (s_size s) used top1 (s_top2 s))) (EvUserRestore top1 used).

(* p?gstrf_SetupSpace *)
Definition setup_space (lwork : Z) (m : mem) : mem :=
  if lwork =? 0 then set_space m SYSTEM
  else if 0 <? lwork then set_stack (set_space m USER) (setup_stack lwork)
  else m.

(* #define NUM_TEMPV(n,w,t,b)  (SUPERLU_MAX( 2*n, (t + b)*w )) *)
Definition num_tempv (n w t b : Z) : Z := Z.max (2 * n) ((t + b) * w).

(* superlu_?TempSpace: tmp, ptmp are C floats *)
Definition temp_space (n w p : Z) : Z :=
  let tmp := f32 (14 * n * iword) in
  let ptmp0 := f32 ((2 * w + 5 + c_NO_MARKER) * n * iword) in
  let ptmp1 := f32 (ptmp0 + f32 ((n * w + num_tempv n w (maxsuper c) (rowblk c)) * dword c)) in
  let ptmp2 := f32 (ptmp1 * f32 p) in
  f32 (tmp + ptmp2).

(* p?gstrf_memory_use:  t = 10. * ndim * iword + nzlmax * iword + nzumax * (iword + dword) + nzlumax * dword
   with float iword, dword, t; the first product is a double, the other three are float products,
   the sums are double, the assignment rounds to float. *)
Definition memory_use (ndim nzl nzu nzlu : Z) : Z :=
  let a := f64 (f64 (10 * ndim) * iword) in
  let b := f32 (f32 nzl * iword) in
  let cc := f32 (f32 nzu * f32 (iword + dword c)) in
  let d := f32 (f32 nzlu * dword c) in
  f32 (f64 (f64 (f64 (a + b) + cc) + d)).

(* #define GluIntArray(n)   (9 * (n) + 5) *)
Definition glu_int_array (n : Z) : Z := 9 * n + 5.

(* value returned by the lwork = -1 query (int_t expression converted to the float return type) *)
Definition query_estimate (n w nprocs nzl nzu nzlu : Z) : Z :=
  f32 (glu_int_array n * iword + temp_space n w nprocs + (nzl + nzu) * iword + (nzlu + nzu) * dword c).

(* ---------- ?expanders[type] = (mem, size); a NULL ?expanders is a crash ---------- *)
Fixpoint upd {A} (l : list A) (i : nat) (x : A) : list A :=
  match l, i with
  | [], _ => []
  | _ :: t, O => x :: t
  | h :: t, S j => h :: upd t j x
  end.

Definition set_expander (ty : Z) (p : ptr) (sz : Z) (m : mem) : res unit :=
  match m_exp m with
  | None => Stop Crash m
  | Some l => Ok tt (set_exp m (Some (upd l (Z.to_nat ty) (p, sz))))
  end.

(* p?gstrf_expand with no_expand == 0 (first-time allocation of len elements of the given type) *)
Definition expand0 (len : Z) (ty : Z) (m : mem) : res ptr :=
  let lword := if (ty =? c_LSUB) || (ty =? c_USUB) then iword else dword c in
  match m_space m with
  | SYSTEM =>
      let '(p, m1) := sys_malloc (len * lword) m in
      bind (set_expander ty p len m1) (fun _ m2 => Ok p m2)
  | USER =>
      let '(p, m1) := umalloc (len * lword) HEAD m in
      let '(p2, m2) :=
        match p with
        | POff off =>
            if negb (misalign (m_ba m1) off =? 0) && ((ty =? c_LUSUP) || (ty =? c_UCOL)) then
              let extra := align_up_extra (m_ba m1) off in
              let s := m_stack m1 in
              (POff (off + extra),
               add_log (set_stack m1 (mkStack (s_size s) (s_used s + extra) (s_top1 s + extra) (s_top2 s)))
                       (EvShift (off + extra) (len * lword) HEAD))
            else (p, m1)
        | _ => (p, m1)
        end in
      bind (set_expander ty p2 len m2) (fun _ m3 => Ok p2 m3)
  end.

(* the 13 arrays of GlobalLU_t and the three capacities *)
Record glu := mkGlu {
  g_xsup : ptr; g_xsup_end : ptr; g_supno : ptr; g_xlsub : ptr; g_xlsub_end : ptr;
  g_xlusup : ptr; g_xlusup_end : ptr; g_xusub : ptr; g_xusub_end : ptr;
  g_lusup : ptr; g_ucol : ptr; g_lsub : ptr; g_usub : ptr;
  g_nzlmax : Z; g_nzumax : Z; g_nzlumax : Z
}.

Record mi_args := mkArgs {
  a_n : Z; a_annz : Z; a_nprocs : Z; a_w : Z;
  a_refact : bool;
  a_dyn : bool;        (* Glu->dynamic_snode_bound *)
  a_nzlumax : Z;       (* Glu->nzlumax on entry *)
  a_nzlmax : Z;        (* Glu->nzlmax on entry (refact only) *)
  a_nzumax : Z;        (* Glu->nzumax on entry (refact only) *)
  a_lwork : Z;
  a_ba : Z;            (* address of work[] mod 8 *)
  a_prev : option glu  (* arrays of the previous factorization found in L->Store / U->Store (refact) *)
}.

(* the nine integer arrays: sizes in int_t units, in allocation order *)
Definition int_array_sizes (n : Z) : list Z := [n + 1; n; n + 1; n + 1; n; n + 1; n; n + 1; n].

Fixpoint alloc_ints_sys (szs : list Z) (m : mem) : res (list ptr) :=
  match szs with
  | [] => Ok [] m
  | s :: t => bind (int_malloc s m) (fun p m1 => bind (alloc_ints_sys t m1) (fun ps m2 => Ok (p :: ps) m2))
  end.

(* user space: the nine requests are issued one after the other, whatever their results; the results are tested
   together afterwards (mi_prefix; since fix 'MemInit tests the nine integer arrays', finding C14-intarrays) *)
Fixpoint alloc_ints_user (szs : list Z) (m : mem) : list ptr * mem :=
  match szs with
  | [] => ([], m)
  | s :: t => let '(p, m1) := umalloc (s * iword) HEAD m in
              let '(ps, m2) := alloc_ints_user t m1 in (p :: ps, m2)
  end.

Definition nthp (l : list ptr) (i : nat) : ptr := nth i l PNull.

(* result of MemInit: the float return value (an integer) and, when it is 0, the Glu fields *)
Inductive mi_result :=
| MIquery (estimate : Z)
| MIfail (code : Z)
| MIok (g : glu).

(* the  while ( !ucol || !lsub || !usub )  retry loop; fuel = iterations still allowed.
   rtop1, rused = the locals retry_top1, retry_used: stack.top1 and stack.used as they were right after
   lusup = p?gstrf_expand(&nzlumax, LUSUP, ...), i.e. before ucol, lsub and usub were requested. *)
Inductive loop_result :=
| RLok (ucol lsub usub : ptr) (nzumax nzlmax : Z)
| RLgiveup (nzumax nzlmax : Z).        (* "Not enough memory to perform factorization." *)

Fixpoint retry_loop (fuel : nat) (annz : Z) (ucol lsub usub : ptr) (nzumax nzlmax : Z) (rtop1 rused : Z) (m : mem)
  : res loop_result :=
  if negb (is_null ucol || is_null lsub || is_null usub) then Ok (RLok ucol lsub usub nzumax nzlmax) m
  else match fuel with
       | O => Stop Hang m          (* fuel exhausted: cannot happen with fuel > log2(nzumax), UstackProofs.retry_loop_no_hang *)
       | S fuel' =>
           let m1 := match m_space m with
                     | SYSTEM => sys_free usub (sys_free lsub (sys_free ucol m))
                     | USER => urestore rtop1 rused m       (* stack.top1 = retry_top1; stack.used = retry_used; *)
                     end in
           let nzumax' := nzumax / 2 in           (* operands are non-negative: C and Coq division agree *)
           let nzlmax' := nzlmax / 2 in
           (* if ( nzumax < annz/2 || nzumax < 1 )   (annz/2 may be 0: finding C14-hang) *)
           if (nzumax' <? annz / 2) || (nzumax' <? 1) then Ok (RLgiveup nzumax' nzlmax') m1
           else
             bind (expand0 nzumax' c_UCOL m1) (fun ucol' m2 =>
             bind (expand0 nzlmax' c_LSUB m2) (fun lsub' m3 =>
             bind (expand0 nzumax' c_USUB m3) (fun usub' m4 =>
               retry_loop fuel' annz ucol' lsub' usub' nzumax' nzlmax' rtop1 rused m4)))
       end.

(* "Guess amount of storage needed by L\U factors" *)
Definition guess (fill annz : Z) : Z := if fill <? 0 then - fill * annz else fill.
Definition nzumax0 (a : mi_args) : Z := guess (fill_ucol c) (a_annz a).
Definition nzlmax0 (a : mi_args) : Z := guess (fill_lsub c) (a_annz a).
Definition nzlumax0 (a : mi_args) : Z := if a_dyn a then guess (fill_lusup c) (a_annz a) else a_nzlumax a.

(* if ( !dexpanders ) dexpanders = SUPERLU_MALLOC(NO_MEMTYPE * sizeof(ExpHeader));   -- result not tested *)
Definition ensure_expanders (m : mem) : mem :=
  match m_exp m with
  | Some _ => m
  | None => let '(p, m1) := sys_malloc exphdr_bytes m in
            if is_null p then m1 else set_exp m1 (Some [(PNull, 0); (PNull, 0); (PNull, 0); (PNull, 0)])
  end.

(* first factorization, lwork <> -1: everything up to the retry loop *)
Record mi_pre := mkPre { p_ia : list ptr; p_lusup : ptr; p_ucol : ptr; p_lsub : ptr; p_usub : ptr;
                         p_top1 : Z; p_used : Z      (* retry_top1, retry_used *) }.

(* either the early return "work[] cannot even hold the pointer arrays" (user space) or the state before the loop *)
Inductive pre_result :=
| PreFail (code : Z)
| PreOk (pre : mi_pre).

Definition mi_prefix (a : mi_args) (m : mem) : res pre_result :=
  let n := a_n a in
  let m := setup_space (a_lwork a) m in
  bind (match m_space m with
        | SYSTEM => bind (alloc_ints_sys (int_array_sizes n) m) (fun ps m1 => Ok (Some ps) m1)
        | USER => let '(ps, m1) := alloc_ints_user (int_array_sizes n) m in
                  (* if ( !xsup || !xsup_end || ... || !xusub_end ) return (memory_use(nzlmax, nzumax, nzlumax) + n); *)
                  if existsb is_null ps then Ok None m1 else Ok (Some ps) m1
        end) (fun oia m =>
  match oia with
  | None => Ok (PreFail (f32 (memory_use n (nzlmax0 a) (nzumax0 a) (nzlumax0 a) + f32 n))) m
  | Some ia =>
  bind (expand0 (nzlumax0 a) c_LUSUP m) (fun lusup m =>
  let rtop1 := s_top1 (m_stack m) in             (* retry_top1 = stack.top1; *)
  let rused := s_used (m_stack m) in             (* retry_used = stack.used; *)
  bind (expand0 (nzumax0 a) c_UCOL m) (fun ucol m =>
  bind (expand0 (nzlmax0 a) c_LSUB m) (fun lsub m =>
  bind (expand0 (nzumax0 a) c_USUB m) (fun usub m =>
    Ok (PreOk (mkPre ia lusup ucol lsub usub rtop1 rused)) m))))
  end).

(* after the loop *)
Definition mi_finish (a : mi_args) (pre : mi_pre) (r : loop_result) (m : mem) : res mi_result :=
  let n := a_n a in
  match r with
  | RLgiveup nzu nzl =>
      (* return (memory_use(nzlmax, nzumax, nzlumax) + n) with the halved values *)
      Ok (MIfail (f32 (memory_use n nzl nzu (nzlumax0 a) + f32 n))) m
  | RLok ucol lsub usub nzumax nzlmax =>
      if is_null (p_lusup pre) then
        Ok (MIfail (f32 (memory_use n nzlmax nzumax (nzlumax0 a) + f32 n))) m
      else
        let ia := p_ia pre in
        let g := mkGlu (nthp ia 0) (nthp ia 1) (nthp ia 2) (nthp ia 3) (nthp ia 4)
                       (nthp ia 5) (nthp ia 6) (nthp ia 7) (nthp ia 8)
                       (p_lusup pre) ucol lsub usub nzlmax nzumax (nzlumax0 a) in
        Ok (MIok g) (set_dims m (m_ndim m) (m_noexp m + 1))
  end.

(* refact == YES, lwork <> -1 *)
Definition mi_refact (a : mi_args) (g0 : glu) (m : mem) : res mi_result :=
  let nzlmax := a_nzlmax a in
  let nzumax := a_nzumax a in
  let nzlumax := a_nzlumax a in
  let m := if a_lwork a =? 0 then set_space m SYSTEM
           else let s := m_stack m in
                (* stack.size = lwork; stack.top2 = lwork; stack.used = stack.top1;  (the tail is reclaimed here) *)
                set_stack (set_space m USER) (mkStack (a_lwork a) (s_top1 s) (s_top1 s) (a_lwork a)) in
  bind (set_expander c_LSUB (g_lsub g0) nzlmax m) (fun _ m =>
  bind (set_expander c_LUSUP (g_lusup g0) nzlumax m) (fun _ m =>
  bind (set_expander c_USUB (g_usub g0) nzumax m) (fun _ m =>
  bind (set_expander c_UCOL (g_ucol g0) nzumax m) (fun _ m =>
    let g := mkGlu (g_xsup g0) (g_xsup_end g0) (g_supno g0) (g_xlsub g0) (g_xlsub_end g0)
                   (g_xlusup g0) (g_xlusup_end g0) (g_xusub g0) (g_xusub_end g0)
                   (g_lusup g0) (g_ucol g0) (g_lsub g0) (g_usub g0) nzlmax nzumax nzlumax in
    Ok (MIok g) (set_dims m (m_ndim m) (m_noexp m + 1)))))).

Definition mem_init (fuel : nat) (a : mi_args) (m0 : mem) : res mi_result :=
  let n := a_n a in
  (* no_expand = 0; ndim = n; *)
  let m := ensure_expanders (set_ba (set_dims m0 n 0) (a_ba a)) in
  if negb (a_refact a) then
    if a_lwork a =? -1 then
      Ok (MIquery (query_estimate n (a_w a) (a_nprocs a) (nzlmax0 a) (nzumax0 a) (nzlumax0 a))) m
    else
      bind (mi_prefix a m) (fun pr m =>
      match pr with
      | PreFail code => Ok (MIfail code) m
      | PreOk pre =>
          bind (retry_loop fuel (a_annz a) (p_ucol pre) (p_lsub pre) (p_usub pre) (nzumax0 a) (nzlmax0 a)
                           (p_top1 pre) (p_used pre) m)
               (fun r m => mi_finish a pre r m)
      end)
  else
    (* refact == YES: arrays are those of the previous factorization *)
    match a_prev a with
    | None => Stop Crash m            (* L->Store / U->Store not valid *)
    | Some g0 =>
        if a_lwork a =? -1 then
          Ok (MIquery (query_estimate n (a_w a) (a_nprocs a) (a_nzlmax a) (a_nzumax a) (a_nzlumax a))) m
        else mi_refact a g0 m
    end.

(* the 13 blocks of a Glu (offset, bytes) when all of them are inside the user buffer *)
Definition poff (p : ptr) : option Z := match p with POff o => Some o | _ => None end.

Fixpoint zip_blocks (ps : list ptr) (szs : list Z) : option (list (Z * Z)) :=
  match ps, szs with
  | [], [] => Some []
  | p :: pt, s :: st =>
      match poff p, zip_blocks pt st with
      | Some o, Some l => Some ((o, s) :: l)
      | _, _ => None
      end
  | _, _ => None
  end.

Definition glu_ptrs (g : glu) : list ptr :=
  [g_xsup g; g_xsup_end g; g_supno g; g_xlsub g; g_xlsub_end g; g_xlusup g; g_xlusup_end g;
   g_xusub g; g_xusub_end g; g_lusup g; g_ucol g; g_lsub g; g_usub g].

Definition glu_sizes (n : Z) (g : glu) : list Z :=
  map (fun k => k * iword) (int_array_sizes n) ++
  [g_nzlumax g * dword c; g_nzumax g * dword c; g_nzlmax g * iword; g_nzumax g * iword].

Definition glu_blocks (n : Z) (g : glu) : option (list (Z * Z)) := zip_blocks (glu_ptrs g) (glu_sizes n g).

(* ------------------------------------------------------------------ *)
(* p?gstrf_WorkInit (n = A->nrow, w = panel_size): returns (return value, iwork, dwork) *)
Definition work_isize (n w : Z) : Z := (2 * w + 5 + c_NO_MARKER) * n * iword.
Definition work_dsize (n w : Z) : Z := (n * w + num_tempv n w (maxsuper c) (rowblk c)) * dword c.

Definition work_init (n w : Z) (m : mem) : res (Z * ptr * ptr) :=
  let isize := work_isize n w in
  let dsize := work_dsize n w in
  match m_space m with
  | SYSTEM =>
      bind (int_malloc (isize / iword) m) (fun iw m1 =>
        let '(dw, m2) := sys_malloc dsize m1 in
        if is_null dw then Ok (isize + dsize + n, iw, PNull) m2 else Ok (0, iw, dw) m2)
  | USER =>
      let '(iw, m1) := umalloc isize TAIL m in
      if is_null iw then Ok (isize + n, PNull, PNull) m1
      else
        let '(dw, m2) := umalloc dsize TAIL m1 in
        match dw with
        | POff off =>
            (* since fix 'tail blocks are aligned by the allocator' off is aligned and this branch is dead
               (UstackProofs.umalloc_tail_aligned, work_init_no_shift); the C statement is still there *)
            if negb (misalign (m_ba m2) off =? 0) then
              (* DoubleAlign(p) - 8: round DOWN to the previous 8-byte boundary *)
              let extra := misalign (m_ba m2) off in
              let s := m_stack m2 in
              Ok (0, iw, POff (off - extra))
                 (add_log (set_stack m2 (mkStack (s_size s) (s_used s + extra) (s_top1 s) (s_top2 s - extra)))
                          (EvShift (off - extra) dsize TAIL))
            else Ok (0, iw, dw) m2
        | _ => Ok (isize + dsize + n, iw, PNull) m2
        end
  end.

(* p?gstrf_WorkFree *)
Definition work_free (iw dw : ptr) (m : mem) : mem :=
  match m_space m with
  | SYSTEM => sys_free dw (sys_free iw m)
  | USER => add_log (set_stack m (work_free_stack (m_stack m))) EvWorkFree
  end.

(* ------------------------------------------------------------------ *)
(* P threads running WorkInit concurrently on the user stack: every section protected by stack.lock
   is one atomic step; sched lists the thread that performs its next step. *)
Inductive tstate :=
| TStart                          (* before  iwork = user_malloc(isize, TAIL) *)
| TGotI (iw : Z)                  (* before  dwork = user_malloc(dsize, TAIL) *)
| TGotD (iw dw extra : Z)         (* dwork was misaligned and has been moved down by extra: before the
                                     locked section  top2 -= extra; used += extra
                                     (unreachable since the allocator aligns TAIL blocks itself) *)
| TReady (iw dw : Z)              (* WorkInit returned 0; the thread is working with its two blocks *)
| TFailed (code : Z)              (* WorkInit returned code > 0: the thread returns at once *)
| TDone.                          (* WorkFree executed *)

Definition thread_step (n w ba : Z) (t : tstate) (s : stack) : tstate * stack :=
  let isize := work_isize n w in
  let dsize := work_dsize n w in
  match t with
  | TStart => match user_malloc ba isize TAIL s with
              | (Some off, s1) => (TGotI off, s1)
              | (None, _) => (TFailed (isize + n), s)
              end
  | TGotI iw => match user_malloc ba dsize TAIL s with
                | (Some off, s1) => if misalign ba off =? 0 then (TReady iw off, s1)
                                    else (TGotD iw (off - misalign ba off) (misalign ba off), s1)
                | (None, _) => (TFailed (isize + dsize + n), s)
                end
  | TGotD iw dw extra =>
      (TReady iw dw, mkStack (s_size s) (s_used s + extra) (s_top1 s) (s_top2 s - extra))
  | TReady iw dw => (TDone, work_free_stack s)
  | TFailed code => (TFailed code, s)
  | TDone => (TDone, s)
  end.

Fixpoint run_sched (n w ba : Z) (sched : list nat) (ts : list tstate) (s : stack) : list tstate * stack :=
  match sched with
  | [] => (ts, s)
  | i :: rest =>
      match nth_error ts i with
      | None => run_sched n w ba rest ts s          (* no such thread: ignored *)
      | Some t => let '(t', s') := thread_step n w ba t s in
                  run_sched n w ba rest (upd ts i t') s'
      end
  end.

(* the start-up phase only: a thread that is ready keeps working (no WorkFree yet) *)
Definition init_step (n w ba : Z) (t : tstate) (s : stack) : tstate * stack :=
  match t with
  | TReady _ _ => (t, s)
  | _ => thread_step n w ba t s
  end.

Fixpoint run_init (n w ba : Z) (sched : list nat) (ts : list tstate) (s : stack) : list tstate * stack :=
  match sched with
  | [] => (ts, s)
  | i :: rest =>
      match nth_error ts i with
      | None => run_init n w ba rest ts s
      | Some t => let '(t', s') := init_step n w ba t s in
                  run_init n w ba rest (upd ts i t') s'
      end
  end.

(* the blocks a thread may still read or write *)
Definition thread_blocks (n w : Z) (t : tstate) : list (Z * Z) :=    (* (offset, bytes) *)
  match t with
  | TGotI iw => [(iw, work_isize n w)]
  | TGotD iw dw _ => [(iw, work_isize n w); (dw, work_dsize n w)]
  | TReady iw dw => [(iw, work_isize n w); (dw, work_dsize n w)]
  | _ => []
  end.

Definition live_blocks (n w : Z) (ts : list tstate) : list (Z * Z) := flat_map (thread_blocks n w) ts.

Definition disjointb (b1 b2 : Z * Z) : bool :=
  (fst b1 + snd b1 <=? fst b2) || (fst b2 + snd b2 <=? fst b1) || (snd b1 <=? 0) || (snd b2 <=? 0).

Fixpoint pairwise_disjointb (l : list (Z * Z)) : bool :=
  match l with
  | [] => true
  | b :: t => forallb (disjointb b) t && pairwise_disjointb t
  end.

Definition in_rangeb (lo hi : Z) (b : Z * Z) : bool := (lo <=? fst b) && (fst b + snd b <=? hi).

(* the property's own oracle on a set of blocks: all inside [0, lwork), pairwise disjoint *)
Definition blocks_okb (lwork : Z) (bl : list (Z * Z)) : bool :=
  forallb (in_rangeb 0 lwork) bl && pairwise_disjointb bl.

(* ------------------------------------------------------------------ *)
(* info plumbing *)

(* p?gstrf_thread:  if ( ( info[0] = WorkInit(...)) ) { info[0] += memory_use(Glu->nzlmax, ...); return 0; }
   (int_t += float: converted to float, added, truncated) *)
Definition thread_fail_info (wi_ret ndim nzl nzu nzlu : Z) : Z :=
  f32 (f32 wi_ret + memory_use ndim nzl nzu nzlu).

(* p?gstrf_thread_finalize: smallest non-zero thread info, 0 if none *)
Fixpoint finalize_info (acc : Z) (infos : list Z) : Z :=
  match infos with
  | [] => acc
  | i :: t => finalize_info (if i =? 0 then acc else if acc =? 0 then i else Z.min acc i) t
  end.

End WithAllocator.

(* ------------------------------------------------------------------ *)
(* p?gstrf (SRC/pdgstrf.c:165-167): threads are created and p?gstrf_thread_finalize builds L and U only
   when MemInit returned 0.  info is an int_t: the float is truncated (undefined from 2^31 on). *)
Definition int_max : Z := 2147483647.

Record fact_outcome := mkFact {
  fo_info : Z;
  fo_threads_ran : bool;
  fo_lu_built : bool           (* L->Store / U->Store set by dCreate_SuperNode_Permuted / dCreate_CompCol_Permuted *)
}.

Definition gstrf_outcome (mi : mi_result) (thread_infos : list Z) : option fact_outcome :=
  match mi with
  | MIok _ => Some (mkFact (finalize_info 0 thread_infos) true true)
  | MIquery e => if e <=? int_max then Some (mkFact e false false) else None
  | MIfail cd => if cd <=? int_max then Some (mkFact cd false false) else None
  end.

(* what p?gssvx does after the factorization call (SRC/pdgssvx.c:596-616, 675) *)
Inductive action :=
| AReturnQuery (total_needed : Z)   (* superlu_memusage->total_needed = info[0] - A->ncol; return; *)
| APivotGrowth (ncols : Z)          (* dPivotGrowth(ncols, AA, perm_c, L, U) *)
| ARcondSolveRefine                 (* dgscon, dgstrs, dgsrfs on L, U *)
| AQuerySpace.                      (* superlu_dQuerySpace(nprocs, L, U, ...): reads L->Store, U->Store *)

(* the statistics are read off L and U only when they exist: info <= n + 1 (a memory failure returns more than n + 1) *)
Definition gssvx_tail (lwork n info : Z) : list action :=
  if lwork =? -1 then [AReturnQuery (info - n)]
  else (if 0 <? info then (if info <=? n then [APivotGrowth info] else [])
        else [APivotGrowth n; ARcondSolveRefine]) ++ (if info <=? n + 1 then [AQuerySpace] else []).

Definition reads_lu (a : action) : bool :=
  match a with AReturnQuery _ => false | _ => true end.
