(* SchedTie.v (properties C03 / C04 / C05): the panel scheduler RE-TRANSLATED from the current C source of pxgstrf_scheduler
   (SchedGen.v, generated on every run by tools/gen_trans.py from SRC/pxgstrf_scheduler.c) computes exactly what the hand-written
   model SchedModel.sched computes: new shared state field by field, the panel handed out ( *cur_pan ) and *bcol.  Hence every
   theorem of Sched*.v / Properties_C03.v / Properties_C04.v about the model is a theorem about what the source says now.

   Correspondence of the arguments (gen_sched below)
     n                                   sn s                     etree[]                        etree s
     pan_status[].state / size / ukids   pstate s / psize s / pukids s
     fb_cols[]  spin_locks[]             fb s   spin s            taskq.queue / head / tail / count   q s / qhead s / qtail s / qcount s
     tasks_remain                        tasks s                  *cur_pan on entry              cur
     *bcol on entry                      b0 (any value: the routine leaves *bcol alone when it hands out no panel)
     fuel                                the fuel of the three while loops; fuel_of s = n + 2 is enough in every guarded state
   Hypotheses of the tie: sched_guard s cur = true (the executable index guard of SchedModel.v, proved for every scheduler call
   of every reachable state in SchedGuard.v; it is used here only because it bounds the number of loop iterations: lists are read
   and written with the same total nthZ / updZ on both sides) and fuel_of s <= fuel. *)
From Coq Require Import ZArith List Bool Lia ZifyBool.
From SLU Require Import Consts C2GalLib SchedModel SchedGen.
Import ListNotations.
Local Open Scope Z_scope.

(* the translated function on a model state: the raw result ... *)
Definition gen_sched (s : sstate) (cur b0 : Z) (fuel : nat) :=
  gen_pxgstrf_scheduler (sn s) (etree s) (pstate s) (psize s) (pukids s) (fb s) (q s) (qhead s) (qtail s) (qcount s)
                        (tasks s) (spin s) cur b0 fuel.

(* ... and packed into a model state again (n, etree, the panel types and sizes and nsplits are not written by the routine) *)
Definition gen_sched_state (s : sstate) (cur b0 : Z) (fuel : nat) : option (sstate * Z * Z) :=
  match gen_sched s cur b0 fuel with
  | Some (pst, puk, fbc, qu, hd, tl, ct, tr, sp, j, b) =>
      Some (mkS (sn s) (etree s) (ptype s) pst (psize s) puk fbc qu hd tl ct tr (nsplits s) sp, j, b)
  | None => None
  end.

(* the model's result in the shape of the raw result *)
Definition enc (b0 : Z) (r : sstate * Z * Z) : list Z * list Z * list Z * list Z * Z * Z * Z * Z * list Z * Z * Z :=
  let '(s', j, b) := r in
  (pstate s', pukids s', fb s', q s', qhead s', qtail s', qcount s', tasks s', spin s', j, if j =? c_EMPTY then b0 else b).

(* ---------------------------------------------------------------------------------------------------------------------- *)
(* tactics: both sides are nests of if / let over the same atoms (nthZ / updZ of the same lists).  [norm] exposes the atoms;
   [walk] splits every remaining test on either side, closes a branch when its tests contradict each other (lia with ZifyBool
   reads the boolean equations), and compares the values componentwise at the leaves.  Harmless rewrites of the source
   (`count < 1` for `count <= 0`, operands of && swapped, `x -= 1` for `--x`, a separate `head++;` statement, a renamed local)
   leave the same leaves; a changed decision or value leaves a leaf whose two sides differ, and the proof fails there. *)
Ltac norm :=
  cbv beta iota zeta delta [st sz uk dadpanel set_pstate set_pukids set_fb set_queue set_tasks set_spin];
  cbn [sn etree ptype pstate psize pukids fb q qhead qtail qcount tasks nsplits spin fst snd].
Ltac norm_in H :=
  cbv beta iota zeta delta [st sz uk dadpanel set_pstate set_pukids set_fb set_queue set_tasks set_spin] in H;
  cbn [sn etree ptype pstate psize pukids fb q qhead qtail qcount tasks nsplits spin fst snd] in H.
Ltac consts := unfold c_DONE, c_BUSY, c_CANGO, c_CANPIPE, c_UNREADY, c_EMPTY, ERR in *.
Ltac split_pairs := repeat match goal with |- (_, _) = (_, _) => apply f_equal2 end.
Ltac leaf := first [ reflexivity | solve [ repeat (first [ apply (f_equal (@Some _)) | apply f_equal2 ]); first [ reflexivity | f_equal; lia | lia ] ] ].
Ltac walk_step :=
  match goal with
  | |- context [if ?c then _ else _] =>
      lazymatch c with context [if _ then _ else _] => fail | _ => idtac end;
      let H := fresh "Htest" in destruct c eqn:H
  end.

(* ---------------------------------------------------------------------------------------------------------------------- *)
(* frame: what the model's loops leave alone *)
Lemma deq_frame : forall f s, exists h c, fst (deq f s) = set_queue s (q s) h (qtail s) c.
Proof.
  induction f as [|f IH]; intros s.
  - exists (qhead s), (qcount s). destruct s; reflexivity.
  - cbn [deq]. destruct (qcount s <=? 0).
    + exists (qhead s), (qcount s). destruct s; reflexivity.
    + match goal with |- context [if ?c then _ else _] => destruct c end.
      * eexists _, _. reflexivity.
      * destruct (IH (set_queue s (q s) (qhead s + 1) (qtail s) (qcount s - 1))) as (h & c & E).
        exists h, c. rewrite E. reflexivity.
Qed.

Lemma climb_ext : forall f a a' b, pstate a' = pstate a -> psize a' = psize a -> etree a' = etree a ->
  climb f a' b = climb f a b.
Proof.
  induction f as [|f IH]; intros a a' b H1 H2 H3; cbn [climb]; [reflexivity|].
  unfold st, dadpanel, sz. rewrite H1, H2, H3.
  destruct (nthZ (pstate a) b =? c_DONE); [apply IH; assumption | reflexivity].
Qed.

Lemma climb_guard_ext : forall f a a' b, sn a' = sn a -> pstate a' = pstate a -> psize a' = psize a -> etree a' = etree a ->
  climb_guard f a' b = climb_guard f a b.
Proof.
  induction f as [|f IH]; intros a a' b H0 H1 H2 H3; cbn [climb_guard]; [reflexivity|].
  unfold st, dadpanel, sz. rewrite H0, H1, H2, H3.
  destruct (nthZ (pstate a) b =? c_DONE); [|reflexivity].
  rewrite (IH a a'); auto.
Qed.

(* ---------------------------------------------------------------------------------------------------------------------- *)
(* the dequeue loop:  while (1) { if (count <= 0) { jcol = EMPTY; break; } jcol = queue[head++]; --count;
                                   if (STATE(jcol) >= CANGO) break; }                                                        *)
Lemma deq_tie : forall f s, deq_guard f s = true -> forall f' j0, (f <= f')%nat ->
  gen_pxgstrf_scheduler_while2 f' (pstate s) (q s) (j0, qhead s, qcount s) =
  Some (snd (deq f s), qhead (fst (deq f s)), qcount (fst (deq f s))).
Proof.
  induction f as [|f IH]; intros s Hg f' j0 Hf; [discriminate Hg|].
  destruct f' as [|f']; [lia|].
  cbn [deq_guard] in Hg. cbn [deq gen_pxgstrf_scheduler_while2].
  destruct (qcount s <=? 0) eqn:Hc.
  - norm. consts. repeat (first [ solve [exfalso; lia] | walk_step ]); leaf.
  - apply andb_true_iff in Hg as [_ Hg]. apply andb_true_iff in Hg as [_ Hg].
    set (s' := set_queue s (q s) (qhead s + 1) (qtail s) (qcount s - 1)) in *.
    destruct (c_CANGO <=? st s' (nthZ (q s) (qhead s))) eqn:Hgo.
    + subst s'. norm_in Hgo. norm. consts. repeat (first [ solve [exfalso; lia] | walk_step ]); leaf.
    + pose proof (IH s' Hg f' (nthZ (q s) (qhead s)) ltac:(lia)) as Hrec.
      subst s'. norm_in Hgo. norm_in Hrec. norm. consts.
      repeat (first [ solve [exfalso; lia] | walk_step ]); first [ exact Hrec | leaf ].
Qed.

(* the climb:  while ( STATE( *bcol ) == DONE ) *bcol = DADPANEL( *bcol );  *)
Lemma climb_tie : forall f s b, climb_guard f s b = true -> forall f', (f <= f')%nat ->
  gen_pxgstrf_scheduler_while1 f' (etree s) (psize s) (pstate s) b = Some (climb f s b).
Proof.
  induction f as [|f IH]; intros s b Hg f' Hf; [discriminate Hg|].
  destruct f' as [|f']; [lia|].
  cbn [climb_guard] in Hg. cbn [climb gen_pxgstrf_scheduler_while1].
  apply andb_true_iff in Hg as [_ Hg].
  destruct (st s b =? c_DONE) eqn:Hd.
  - apply andb_true_iff in Hg as [_ Hg].
    pose proof (IH s (dadpanel s b) Hg f' ltac:(lia)) as Hrec.
    norm_in Hd. norm_in Hrec. norm. consts.
    repeat (first [ solve [exfalso; lia] | walk_step ]); first [ exact Hrec | leaf ].
  - norm_in Hd. norm. consts. repeat (first [ solve [exfalso; lia] | walk_step ]); leaf.
Qed.

(* the spin locks:  for (j = jcol; j < jcol+w; ++j) spin_locks[j] = 1;  *)
Lemma spin_tie_nat : forall c j l,
  fold_left gen_pxgstrf_scheduler_loop1 (zrange j (j + Z.of_nat c)) l = set_range l j c 1.
Proof.
  induction c as [|c IH]; intros j l.
  - rewrite zrange_nil by lia. reflexivity.
  - rewrite zrange_of_nat. cbn [fold_left set_range]. rewrite IH.
    assert (Hb : gen_pxgstrf_scheduler_loop1 l j = updZ l j 1) by (unfold gen_pxgstrf_scheduler_loop1; cbv beta zeta; leaf).
    rewrite Hb. reflexivity.
Qed.

Lemma spin_tie : forall j e l,
  fold_left gen_pxgstrf_scheduler_loop1 (zrange j e) l = set_range l j (Z.to_nat (e - j)) 1.
Proof.
  intros j e l. destruct (Z_lt_dec e j) as [He|He].
  - rewrite zrange_nil by lia. replace (Z.to_nat (e - j)) with 0%nat by lia. reflexivity.
  - rewrite <- (spin_tie_nat (Z.to_nat (e - j)) j l). do 2 f_equal. lia.
Qed.

(* ---------------------------------------------------------------------------------------------------------------------- *)
(* the second half of the model, field by field (a model-side restatement: no generated name occurs) *)
Definition tps (s : sstate) (j : Z) : list Z :=
  if (dadpanel s j <? sn s) && (uk s (dadpanel s j) =? 1)
  then updZ (updZ (pstate s) j c_BUSY) (dadpanel s j) c_CANPIPE else updZ (pstate s) j c_BUSY.

Definition take_flat (s : sstate) (j : Z) : sstate * Z :=
  let dad := dadpanel s j in
  let c := (dad <? sn s) && (uk s dad =? 1) in
  let b := climb (fuel_of s) (set_pstate s (tps s j)) (nthZ (fb s) j) in
  (mkS (sn s) (etree s) (ptype s) (tps s j) (psize s) (pukids s) (updZ (fb s) dad b)
       (if c then updZ (q s) (qtail s) dad else q s) (qhead s) (if c then qtail s + 1 else qtail s)
       (if c then qcount s + 1 else qcount s) (tasks s - 1) (nsplits s) (set_range (spin s) j (Z.to_nat (sz s j)) 1), b).

Lemma take_flat_eq : forall s j, sched_take s j = take_flat s j.
Proof.
  intros s j. unfold sched_take, take_flat, tps.
  change (sz (set_pstate (set_tasks s (tasks s - 1)) (updZ (pstate (set_tasks s (tasks s - 1))) j c_BUSY)) j) with (sz s j).
  set (s3 := set_spin _ _).
  change (dadpanel s3 j) with (dadpanel s j). change (sn s3) with (sn s). change (uk s3 (dadpanel s j)) with (uk s (dadpanel s j)).
  cbv zeta.
  destruct ((dadpanel s j <? sn s) && (uk s (dadpanel s j) =? 1)).
  - match goal with |- context [climb (fuel_of ?a) ?a ?b] =>
      assert (Hb : climb (fuel_of a) a b =
                   climb (fuel_of s) (set_pstate s (updZ (updZ (pstate s) j c_BUSY) (dadpanel s j) c_CANPIPE)) (nthZ (fb s) j))
        by (apply climb_ext; reflexivity);
      rewrite Hb end.
    reflexivity.
  - match goal with |- context [climb (fuel_of ?a) ?a ?b] =>
      assert (Hb : climb (fuel_of a) a b =
                   climb (fuel_of s) (set_pstate s (updZ (pstate s) j c_BUSY)) (nthZ (fb s) j))
        by (apply climb_ext; reflexivity);
      rewrite Hb end.
    reflexivity.
Qed.

Lemma take_guard_climb : forall s j, take_guard s j = true ->
  climb_guard (fuel_of s) (set_pstate s (tps s j)) (nthZ (fb s) j) = true.
Proof.
  intros s j H. unfold take_guard in H. cbv zeta in H.
  apply andb_true_iff in H as [_ H]. apply andb_true_iff in H as [_ H].
  apply andb_true_iff in H as [_ H]. apply andb_true_iff in H as [_ H].
  unfold tps. destruct ((dadpanel s j <? sn s) && (uk s (dadpanel s j) =? 1)); exact H.
Qed.

(* ---------------------------------------------------------------------------------------------------------------------- *)
(* the head of the translated side is a test that the facts in the context decide *)
Ltac head_if :=
  lazymatch goal with
  | |- (if ?c then _ else _) = _ =>
      let H := fresh "Hhead" in destruct c eqn:H; [ try (exfalso; lia) | try (exfalso; lia) ]
  end.

(* after the choice: the chosen panel j in the state S1; Htk : the guard of the second half *)
Ltac second_half j fuel Hf Htk :=
  let Hj1 := fresh "Hj1" in let Hj2 := fresh "Hj2" in
  destruct (j =? -1) eqn:Hj1;
  [ cbn [orb]; try head_if; unfold enc; norm; consts; rewrite ?Hj1; leaf
  | destruct (j =? -2) eqn:Hj2; [discriminate Htk|];
    cbn [orb]; try head_if;
    rewrite take_flat_eq;
    let Hcg := fresh "Hcg" in pose proof (take_guard_climb _ _ Htk) as Hcg;
    let Hcl := fresh "Hcl" in pose proof (climb_tie _ _ _ Hcg fuel Hf) as Hcl;
    unfold take_flat, tps, enc, fuel_of in *; norm_in Hcl; norm; consts; rewrite ?spin_tie, ?Hj1;
    revert Hcl;
    repeat (first [ solve [exfalso; lia] | walk_step; cbv beta iota ]);
    intros Hcl; rewrite ?Hcl; cbv beta iota; leaf ].

(* THE TIE.  For every state and finished panel that pass the model's executable index guard, and enough fuel, the function
   translated from the C source returns (it does not run out of fuel) and its result is the model's: every written field of the
   shared state, the panel handed out, and *bcol (left as it was when no panel is handed out). *)
Theorem sched_tie : forall s cur b0 fuel, sched_guard s cur = true -> (fuel_of s <= fuel)%nat ->
  gen_sched s cur b0 fuel = Some (enc b0 (sched s cur)).
Proof.
  intros s cur b0 fuel Hg Hf. unfold sched_guard in Hg. apply andb_true_iff in Hg as [Hch Htk].
  unfold choose_guard in Hch. unfold sched. unfold sched_choose in *.
  destruct (cur =? c_EMPTY) eqn:He.
  - pose proof (deq_tie _ _ Hch fuel cur Hf) as Hdq. destruct (deq_frame (fuel_of s) s) as (h & c & Efr).
    destruct (deq (fuel_of s) s) as [s1 j]. cbn [fst snd] in Hdq, Efr. subst s1.
    unfold gen_sched, gen_pxgstrf_scheduler. cbv beta zeta. consts. head_if.
    norm_in Hdq. norm. rewrite Hdq. cbv beta iota.
    second_half j fuel Hf Htk.
  - apply andb_true_iff in Hch as [_ Hch]. apply andb_true_iff in Hch as [Hdad Hch].
    unfold inb in Hdad. norm_in Hdad. norm_in Hch. norm_in Htk. norm.
    match type of Hch with context [if ?c then true else deq_guard _ _] => destruct c eqn:Hc1 end.
    + cbv beta iota in Htk. cbv beta iota.
      unfold gen_sched, gen_pxgstrf_scheduler. cbv beta zeta. consts. norm. head_if. head_if.
      set (j := nthZ (etree s) (cur + nthZ (psize s) cur - 1)) in *.
      second_half j fuel Hf Htk.
    + pose proof (deq_tie _ _ Hch fuel cur Hf) as Hdq.
      match type of Hch with deq_guard _ ?S1 = true => destruct (deq_frame (fuel_of s) S1) as (h & c & Efr) end.
      match type of Hch with deq_guard _ ?S1 = true => destruct (deq (fuel_of s) S1) as [s1 j] end.
      cbn [fst snd] in Hdq, Efr. subst s1.
      unfold gen_sched, gen_pxgstrf_scheduler. cbv beta zeta. consts. norm. head_if. head_if.
      norm_in Hdq. norm_in Htk. norm. rewrite Hdq. cbv beta iota.
      second_half j fuel Hf Htk.
Qed.

(* the fields the routine never writes are left alone by the model as well *)
Lemma sched_frame : forall s cur, let '(s', _, _) := sched s cur in
  sn s' = sn s /\ etree s' = etree s /\ ptype s' = ptype s /\ psize s' = psize s /\ nsplits s' = nsplits s.
Proof.
  intros s cur. unfold sched.
  assert (Hc : let '(s1, _) := sched_choose s cur in
               sn s1 = sn s /\ etree s1 = etree s /\ ptype s1 = ptype s /\ psize s1 = psize s /\ nsplits s1 = nsplits s).
  { unfold sched_choose. destruct (cur =? c_EMPTY).
    - destruct (deq_frame (fuel_of s) s) as (h & c & E). destruct (deq (fuel_of s) s) as [s1 j]. cbn [fst] in E. subst s1.
      cbn. repeat split.
    - match goal with |- context [if ?c then _ else _] => destruct c end; [cbn; repeat split|].
      match goal with |- context [deq ?f ?a] => destruct (deq_frame f a) as (h & c & E); destruct (deq f a) as [s1 j] end.
      cbn [fst] in E. subst s1. cbn. repeat split. }
  destruct (sched_choose s cur) as [s1 j].
  destruct ((j =? c_EMPTY) || (j =? ERR)); [exact Hc|].
  rewrite take_flat_eq. unfold take_flat. cbn [sn etree ptype psize nsplits]. exact Hc.
Qed.

(* the same statement on model states *)
Theorem sched_tie_state : forall s cur b0 fuel, sched_guard s cur = true -> (fuel_of s <= fuel)%nat ->
  gen_sched_state s cur b0 fuel = Some (let '(s', j, b) := sched s cur in (s', j, if j =? c_EMPTY then b0 else b)).
Proof.
  intros s cur b0 fuel Hg Hf. unfold gen_sched_state. rewrite (sched_tie s cur b0 fuel Hg Hf).
  pose proof (sched_frame s cur) as Hfr. destruct (sched s cur) as [[s' j] b].
  destruct Hfr as (H1 & H2 & H3 & H4 & H5). unfold enc. rewrite <- H1, <- H2, <- H3, <- H4, <- H5.
  destruct s'; reflexivity.
Qed.

(* with the fuel the model itself uses *)
Corollary sched_tie_fuel_of : forall s cur b0, sched_guard s cur = true ->
  gen_sched_state s cur b0 (fuel_of s) = Some (let '(s', j, b) := sched s cur in (s', j, if j =? c_EMPTY then b0 else b)).
Proof. intros s cur b0 Hg. apply sched_tie_state; [exact Hg | apply le_n]. Qed.

(* ---------------------------------------------------------------------------------------------------------------------- *)
(* consequences in reachable states of the protocol (SchedGuard.v: the guard holds at every scheduler call of a reachable state) *)
From SLU Require Import SchedInv SchedProofs SchedGuard SchedPipe.

Theorem sched_tie_reachable : forall s0 P g t cur b0 fuel,
  reachable s0 P g -> 0 <= t < tlen (thr g) -> thr_get (thr g) t = (M_READY, cur) -> (fuel_of (gs g) <= fuel)%nat ->
  gen_sched_state (gs g) cur b0 fuel =
  Some (let '(s', j, b) := sched (gs g) cur in (s', j, if j =? c_EMPTY then b0 else b)).
Proof.
  intros s0 P g t cur b0 fuel R Ht G Hf. apply sched_tie_state; [|exact Hf].
  exact (sched_guard_reachable s0 P g t cur R Ht G).
Qed.

(* what the translated scheduler returns is what the model returns (a panel was handed out) *)
Lemma gen_sched_handout : forall s0 P g t cur b0 fuel s' j b,
  reachable s0 P g -> 0 <= t < tlen (thr g) -> thr_get (thr g) t = (M_READY, cur) -> (fuel_of (gs g) <= fuel)%nat ->
  gen_sched_state (gs g) cur b0 fuel = Some (s', j, b) -> j <> c_EMPTY -> sched (gs g) cur = (s', j, b).
Proof.
  intros s0 P g t cur b0 fuel s' j b R Ht G Hf E Hj.
  rewrite (sched_tie_reachable s0 P g t cur b0 fuel R Ht G Hf) in E.
  destruct (sched (gs g) cur) as [[s2 j2] b2]. injection E as E1 E2 E3. subst s2 j2.
  destruct (j =? c_EMPTY) eqn:Ej; [apply Z.eqb_eq in Ej; contradiction|]. subst b2. reflexivity.
Qed.

(* C03 for the translated function: the pipeline property of every hand-out *)
Theorem source_pipeline_handout : forall s0 P g t cur b0 fuel s' j b,
  reachable s0 P g -> 0 <= t < tlen (thr g) -> thr_get (thr g) t = (M_READY, cur) -> (fuel_of (gs g) <= fuel)%nat ->
  gen_sched_state (gs g) cur b0 fuel = Some (s', j, b) -> j <> c_EMPTY ->
  anc s' b j /\ st s' b <> c_DONE /\ (forall c, kid s' b c = true -> st s' c = c_DONE) /\
  forall x, anc s' x j -> x <> j -> st s' x <= c_BUSY /\ (st s' x <> c_DONE -> anc s' b x).
Proof.
  intros s0 P g t cur b0 fuel s' j b R Ht G Hf E Hj.
  exact (pipeline_handout s0 P g t cur s' j b R Ht G (gen_sched_handout s0 P g t cur b0 fuel s' j b R Ht G Hf E Hj) Hj).
Qed.

(* C04 for the translated function: the state it leaves is the state of the model's LCall step, hence reachable, hence the
   task queue stays within its n slots with head / tail / count consistent *)
Theorem source_call_reachable : forall s0 P g t cur b0 fuel s' j b,
  reachable s0 P g -> 0 <= t < tlen (thr g) -> thr_get (thr g) t = (M_READY, cur) -> (fuel_of (gs g) <= fuel)%nat ->
  gen_sched_state (gs g) cur b0 fuel = Some (s', j, b) ->
  reachable s0 P (mkG s' (thr_upd (thr g) t (if j =? c_EMPTY then M_TEST else M_WORK, j))).
Proof.
  intros s0 P g t cur b0 fuel s' j b R Ht G Hf E.
  rewrite (sched_tie_reachable s0 P g t cur b0 fuel R Ht G Hf) in E.
  destruct R as [Hc (ls & Hr)]. split; [exact Hc|]. exists (ls ++ [LCall t]).
  assert (Hs : gstep g (LCall t) = Some (mkG s' (thr_upd (thr g) t (if j =? c_EMPTY then M_TEST else M_WORK, j)))).
  { cbn [gstep]. rewrite G.
    assert (Hin : inb t (Z.of_nat (length (thr g))) = true) by (unfold inb, tlen in *; lia).
    rewrite Hin, Z.eqb_refl. cbn [andb].
    destruct (sched (gs g) cur) as [[s2 j2] b2]. injection E as E1 E2 E3. subst s2 j2. reflexivity. }
  clear E. revert Hr Hs. generalize (ginit s0 P). induction ls as [|l r IH]; intros g0 Hr Hs; cbn [grun app] in *.
  - injection Hr as ->. rewrite Hs. reflexivity.
  - destruct (gstep g0 l) as [g1|]; [|discriminate]. apply IH; assumption.
Qed.

Theorem source_queue_bounds : forall s0 P g t cur b0 fuel s' j b,
  reachable s0 P g -> 0 <= t < tlen (thr g) -> thr_get (thr g) t = (M_READY, cur) -> (fuel_of (gs g) <= fuel)%nat ->
  gen_sched_state (gs g) cur b0 fuel = Some (s', j, b) ->
  0 <= qhead s' <= qtail s' /\ qtail s' <= sn s' /\ qcount s' = qtail s' - qhead s'.
Proof.
  intros s0 P g t cur b0 fuel s' j b R Ht G Hf E.
  exact (queue_bounds s0 P _ (source_call_reachable s0 P g t cur b0 fuel s' j b R Ht G Hf E)).
Qed.
