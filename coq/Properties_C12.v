From SLU Require Import Consts LaconModel LaconProofs.
Require Import ZArith List QArith Qabs.
Import ListNotations.

(* C12 -- condition estimate and pivot growth are sound.  Every Theorem below is an obligation of the check. *)

(* the dlacon_ calling loop stops after at most 11 operator applications (12 calls), for every arithmetic
   (Q, binary64 with NaNs, ...), every operator (even one that changes lengths) and every state left in the
   function statics by earlier calls *)
Theorem lacon_terminates :
  forall (T : Type) (A : Arith T) (X : Type) (op : X -> lacon_io -> X * list T) (n : nat) (s : X)
         (st : lacon_st) (io : lacon_io) (fuel : nat),
    kase io = 0%Z -> (12 <= fuel)%nat ->
    exists r, lacon_drive A fuel n op s st io O = Some r /\ (r_napp r <= 11)%nat /\ kase (r_io r) = 0%Z.
Proof. exact (@lacon_terminates_gen). Qed.
Print Assumptions lacon_terminates.

(* exact arithmetic: the returned estimate is an attained ratio ||M w||_1 / ||w||_1, w <> 0 *)
Theorem lacon_lower :
  forall (A : Arith Q), ArithQ_ok A -> forall (n : nat), (1 <= n)%nat ->
  forall (opM opMT : list Q -> list Q),
    (forall x, length x = n -> length (opM x) = n) -> (forall x, length x = n -> length (opMT x) = n) ->
  forall st r, lacon_run A n opM opMT st = Some r ->
    exists w, length w = n /\ (0 < sumabs w)%Q /\ (est (r_io r) * sumabs w == sumabs (opM w))%Q.
Proof. exact lacon_lower_thm. Qed.
Print Assumptions lacon_lower.

(* ... hence it never exceeds the operator 1-norm (any N with ||M w||_1 <= N ||w||_1) *)
Theorem lacon_le_norm :
  forall (A : Arith Q), ArithQ_ok A -> forall (n : nat), (1 <= n)%nat ->
  forall (opM opMT : list Q -> list Q),
    (forall x, length x = n -> length (opM x) = n) -> (forall x, length x = n -> length (opMT x) = n) ->
  forall st r N, lacon_run A n opM opMT st = Some r ->
    (forall w, length w = n -> (sumabs (opM w) <= N * sumabs w)%Q) -> (est (r_io r) <= N)%Q.
Proof. exact lacon_le_norm_thm. Qed.
Print Assumptions lacon_le_norm.

(* exact arithmetic, adjoint operator pair: the estimate never drops below the first iterate ||M (e/n)||_1 *)
Theorem lacon_upper :
  forall (A : Arith Q), ArithQ_ok A -> forall (n : nat), (1 <= n)%nat ->
  forall (opM opMT : list Q -> list Q),
    (forall x, length x = n -> length (opM x) = n) -> (forall x, length x = n -> length (opMT x) = n) ->
  forall st r, lacon_run A n opM opMT st = Some r ->
    (forall a b, length a = n -> length b = n -> (dot (opM a) b == dot a (opMT b))%Q) ->
    (sumabs (opM (x0 A n)) <= est (r_io r))%Q.
Proof. exact lacon_upper_thm. Qed.
Print Assumptions lacon_upper.

(* dgscon: with M = inv(U) inv(L) for norm '1'/'O' and M = inv(L') inv(U') for 'I',
     1/(anorm * ||M||_1) <= rcond <= 1/(anorm * ||M e/n||_1) *)
Theorem gscon_rcond_bounds :
  forall (A : Arith Q), ArithQ_ok A -> forall (nz : Z), (1 <= Z.to_nat nz)%nat ->
  forall (f : trsv_kind -> list Q -> list Q),
    (forall k x, length x = Z.to_nat nz -> length (f k x) = Z.to_nat nz) ->
  forall (normc : Z) st (anorm N : Q),
    gscon_info normc (Ldesc nz) (Udesc nz) = 0%Z -> (0 < anorm)%Q ->
    (forall w, length w = Z.to_nat nz -> (sumabs (gM f normc w) <= N * sumabs w)%Q) ->
    (forall a b, length a = Z.to_nat nz -> length b = Z.to_nat nz -> (dot (gM f normc a) b == dot a (gMt f normc b))%Q) ->
    (0 < sumabs (gM f normc (x0 A (Z.to_nat nz))))%Q ->
    exists rc, g_rcond (gscon A normc (Ldesc nz) (Udesc nz) (psolve f) tt st anorm) = Some rc /\
               (1 / (anorm * N) <= rc)%Q /\ (rc <= 1 / (anorm * sumabs (gM f normc (x0 A (Z.to_nat nz)))))%Q.
Proof. exact gscon_rcond_bounds_thm. Qed.
Print Assumptions gscon_rcond_bounds.

(* pdgssvx: for every (Stype, trans) the norm handed to dlangs/dgscon is the 1-norm of the user's A when
   A X = B is solved and its infinity norm otherwise, whatever the storage orientation; dlangs computes it *)
Theorem norm_selection :
  forall (A : Arith Q), ArithQ_ok A ->
  forall (Stype trans : Z) (n : nat) (cols : list (list (nat * Q))),
    (1 <= n)%nat -> length cols = n -> (Stype = c_SLU_NC \/ Stype = c_SLU_NR) ->
    let d := ssvx_decode Stype trans in
    exists r, langs A (dec_normc d) n n cols = Some r /\
      is_max_of r n (if (trans =? c_NOTRANS)%Z then user_colsum Stype cols else user_rowsum Stype cols) /\
      gscon_onenrm (dec_normc d) = dec_notran d /\
      dec_trant d = (if (Stype =? c_SLU_NR)%Z then (if (trans =? c_NOTRANS)%Z then c_TRANS else c_NOTRANS) else trans).
Proof. exact norm_selection_thm. Qed.
Print Assumptions norm_selection.

(* after a successful factorization: info = n+1 exactly when rcond < eps, and the solve and refinement calls
   are made whatever the outcome of that comparison *)
Theorem info_nplus1_iff :
  forall (Stype trans ncol info_solve : Z) (b : bool), (0 <= ncol)%Z -> (info_solve <= 0)%Z ->
    (ssvx_info ncol 0 info_solve b = (ncol + 1)%Z <-> b = true) /\
    (exists pre, ssvx_calls Stype trans ncol 0 =
                 pre ++ [CallGstrs (dec_trant (ssvx_decode Stype trans)); CallGsrfs (dec_trant (ssvx_decode Stype trans))]).
Proof. exact info_nplus1_thm. Qed.
Print Assumptions info_nplus1_iff.

(* dPivotGrowth(ncols) = SUPERLU_MIN-fold over the leading ncols columns of max|A(:,j)| / max|U(:,j)| (1 when
   the U column is zero), started from 1/smlnum: the nested supernode loops with the early break are that flat
   loop, for every arithmetic *)
Theorem pivot_growth_def :
  forall (T : Type) (A : Arith T) (d : pg_data) (nsuper ncols : nat) (c2f : nat -> nat),
    (forall k j, (k <= nsuper)%nat -> (fs d k <= j < ls d k)%nat -> c2f j = fs d k) ->
    pg_wf d nsuper ncols ->
    forall smlnum, pivot_growth A d nsuper ncols smlnum =
                   fold_left (stepG A d c2f) (seq O ncols) (adiv A (a1 A) smlnum).
Proof. exact (@pivot_growth_def_thm). Qed.
Print Assumptions pivot_growth_def.

(* exact arithmetic: that value is the minimum *)
Theorem pivot_growth_is_min :
  forall (A : Arith Q), ArithQ_ok A ->
  forall (d : pg_data) (nsuper ncols : nat) (c2f : nat -> nat) (smlnum : Q),
    pg_wf d nsuper ncols ->
    (forall k j, (k <= nsuper)%nat -> (fs d k <= j < ls d k)%nat -> c2f j = fs d k) ->
    let r := pivot_growth A d nsuper ncols smlnum in
    let ratio := fun j => pg_ratio A d (c2f j) j in
    (r <= adiv A (a1 A) smlnum)%Q /\ (forall j, (j < ncols)%nat -> (r <= ratio j)%Q) /\
    (r = adiv A (a1 A) smlnum \/ exists j, (j < ncols)%nat /\ r = ratio j).
Proof. exact pivot_growth_is_min_thm. Qed.
Print Assumptions pivot_growth_is_min.
