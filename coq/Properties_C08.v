From Coq Require Import ZArith List Bool.
From SLU Require Import Consts PersistModel PersistProofs.
Import ListNotations.
Local Open Scope Z_scope.

Theorem history_correct : forall (h : list (bool * op)) (s : pstate) (se : sess),
  inv s se -> hist_ok (s, se) h -> outs_ok (s, se) h.
Proof. exact history_correct_inv. Qed.
Print Assumptions history_correct.

Theorem history_correct_fresh_session : forall (h : list (bool * op)) (s : pstate) (pat n annz dword : Z),
  hist_ok (s, sess0 pat n annz dword) h -> outs_ok (s, sess0 pat n annz dword) h.
Proof. exact history_correct_fresh. Qed.
Print Assumptions history_correct_fresh_session.

Theorem step_keeps_invariant : forall (ex : bool) (s : pstate) (se : sess) (o : op),
  inv s se -> wf_op se o ->
  inv (fst (fst (step ex (s, se) o))) (snd (fst (step ex (s, se) o))) /\ out_ok se o (snd (step ex (s, se) o)).
Proof. exact step_inv. Qed.
Print Assumptions step_keeps_invariant.

Theorem usepr_semantics : forall (cand : list Z -> Z -> list Z) (mag : list Z -> Z -> Z -> Z) (oldpiv diagrow : Z -> Z) (un ud : Z) (N : nat),
  (forall piv j r, In r (cand piv j) -> ~ In r piv) ->
  (forall piv j, (j < N)%nat -> length piv = j -> cand piv (Z.of_nat j) <> []) ->
  ((forall j, (j < N)%nat -> In (oldpiv (Z.of_nat j)) (cand (oldprefix oldpiv j) (Z.of_nat j))) ->
   (forall j, (j < N)%nat -> old_passes cand mag oldpiv un ud j) ->
   eliminate N 0 cand mag oldpiv diagrow un ud true [] = (oldprefix oldpiv N, true)) /\
  (forall usepr, NoDup (fst (eliminate N 0 cand mag oldpiv diagrow un ud usepr [])) /\
                 length (fst (eliminate N 0 cand mag oldpiv diagrow un ud usepr [])) = N).
Proof. exact usepr_semantics_all. Qed.
Print Assumptions usepr_semantics.

Theorem usepr_foreign_perm_falls_back :
  eliminate 2 0 cand2 (fun _ _ _ => 3) (fun _ => 7) (fun j => j) 1 1 true [] = ([0; 1], false).
Proof. exact usepr_foreign_perm. Qed.
Print Assumptions usepr_foreign_perm_falls_back.

Theorem factored_is_readonly : forall (ex ex' : bool) (s : pstate) (se : sess) (t b : Z),
  snd (fst (step ex (s, se) (OSolve ex' t b))) = se.
Proof. exact solve_readonly. Qed.
Print Assumptions factored_is_readonly.

Theorem refact_storage_fits_partial : forall (ex : bool) (s : pstate) (se : sess) (a : fargs) (opid : Z) (r : freads) (e : bool) (x : Z),
  inv s se -> wf_op se (ORefact a opid) -> snd (step ex (s, se) (ORefact a opid)) = RFactor r e x ->
  exists f0, s_fac se = Some f0 /\ fr_nzlmax r = f_nzlmax f0 /\ fr_nzumax r = f_nzumax f0 /\ fr_store r = lu_store (f_lu f0).
Proof. exact refact_limits_are_allocation. Qed.
Print Assumptions refact_storage_fits_partial.

Theorem refact_lusup_unchecked_refuted : exists (s : pstate) (se : sess) (a : fargs) (opid : Z) (f0 : factors) (r : freads) (e : bool) (x : Z),
  s_fac se = Some f0 /\ f_nzlumax f0 < fa_preset a /\ inv s se /\ wf_op se (ORefact a opid) /\
  snd (step true (s, se) (ORefact a opid)) = RFactor r e x.
Proof. exact refact_lusup_unchecked. Qed.
Print Assumptions refact_lusup_unchecked_refuted.

Theorem query_keeps_perm_r : forall (ex : bool) (s : pstate) (se : sess) (a : fargs) (refact opid : Z) (restore : bool),
  snd (fst (step ex (s, se) (OQuery a refact opid restore))) = se.
Proof. exact query_readonly. Qed.
Print Assumptions query_keeps_perm_r.

Theorem refact_twin_user_workspace_refuted :
  let P0 := proc0 [sess0 1 4 8 8; sess0 1 4 8 8] in
  let P1 := fst (pstep P0 true 0 1 (OFirst (twin_fargs 1 1001 2001 0) 1)) in
  let P2 := fst (pstep P1 true 1 1 (OFirst (twin_fargs 2 1002 2002 0) 2)) in
  exists r e, snd (pstep P2 true 0 1 (ORefact (twin_fargs 3 1001 2003 0) 3)) = RFactor r true e /\ fr_store r = 1001 /\ fr_tmp r = 1002.
Proof. exact refact_twin_user_workspace_stale. Qed.
Print Assumptions refact_twin_user_workspace_refuted.

(* since fix 'tail blocks are aligned by the allocator' (?user_malloc aligns a TAIL block inside its critical section):
   the alignment fix-up of p?gstrf_WorkInit is dead code -- WorkInit is its two TAIL requests and nothing else *)
Theorem workinit_fixup_dead : forall (s : pstate) (a : fargs), work_init_one s a = work_init_one_nofix s a.
Proof. exact work_init_one_no_fixup. Qed.
Print Assumptions workinit_fixup_dead.

(* the work arrays of the nprocs threads never touch the head of the user work space (L, U, the integer arrays: top1 is
   unchanged, top2 stays >= top1, used = top1 + (size - top2)), whether WorkInit succeeds or a thread is refused *)
Theorem workinit_keeps_stack_invariant : forall (p : nat) (s : pstate) (a : fargs),
  0 <= fst (work_sizes a) -> 0 <= snd (work_sizes a) -> kinv (ps_stack s) ->
  match work_init_all p s a with
  | WOk s' | WFail s' _ => kinv (ps_stack s') /\ k_top1 (ps_stack s') = k_top1 (ps_stack s) /\
                           k_top2 (ps_stack s') <= k_top2 (ps_stack s) /\ k_size (ps_stack s') = k_size (ps_stack s)
  end.
Proof. exact work_init_all_kinv. Qed.
Print Assumptions workinit_keeps_stack_invariant.
