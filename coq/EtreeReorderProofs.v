(* EtreeReorderProofs.v -- a topological renumbering sigma of the elimination tree (children before
   parents) maps the fill and the elimination tree of a graph onto those of the renumbered graph:
       P' (sigma j) = sigma (P j)      (sigma n = n).
   Abstract over two instances (E, F, P) and (E', F', P') of the fill axioms of EtreeTheoryProofs.v with
   E' (sigma i) (sigma j) <-> E i j. *)
From Coq Require Import ZArith List Bool Lia.
From SLU Require Import EtreeTheoryProofs.
Import ListNotations.
Local Open Scope Z_scope.

Section Reorder.
  Variable n : Z.
  Variables E F E' F' : Z -> Z -> Prop.
  Variables P P' : Z -> Z.
  Variable sg : Z -> Z.

  Hypothesis Fsym : forall i j, 0 <= i < n -> 0 <= j < n -> F i j -> F j i.
  Hypothesis EF : forall i j, 0 <= i < n -> 0 <= j < n -> E i j -> F i j.
  Hypothesis Fclos : forall k i j, 0 <= k -> k < i < n -> k < j < n -> F k i -> F k j -> F i j.
  Hypothesis Forig : forall i j, 0 <= i < n -> 0 <= j < n -> F i j ->
    E i j \/ exists k, 0 <= k /\ k < i /\ k < j /\ F k i /\ F k j.
  Hypothesis Pspec : forall j, 0 <= j < n ->
    j < P j <= n /\ (forall i, j < i < P j -> ~ F j i) /\ (P j < n -> F j (P j)).

  Hypothesis Fsym' : forall i j, 0 <= i < n -> 0 <= j < n -> F' i j -> F' j i.
  Hypothesis EF' : forall i j, 0 <= i < n -> 0 <= j < n -> E' i j -> F' i j.
  Hypothesis Fclos' : forall k i j, 0 <= k -> k < i < n -> k < j < n -> F' k i -> F' k j -> F' i j.
  Hypothesis Forig' : forall i j, 0 <= i < n -> 0 <= j < n -> F' i j ->
    E' i j \/ exists k, 0 <= k /\ k < i /\ k < j /\ F' k i /\ F' k j.
  Hypothesis Pspec' : forall j, 0 <= j < n ->
    j < P' j <= n /\ (forall i, j < i < P' j -> ~ F' j i) /\ (P' j < n -> F' j (P' j)).

  Hypothesis sg_range : forall i, 0 <= i < n -> 0 <= sg i < n.
  Hypothesis sg_inj : forall i j, 0 <= i < n -> 0 <= j < n -> sg i = sg j -> i = j.
  Hypothesis sg_surj : forall j, 0 <= j < n -> exists i, 0 <= i < n /\ sg i = j.
  Hypothesis sg_topo : forall j, 0 <= j < n -> P j < n -> sg j < sg (P j).
  Hypothesis E_relabel : forall i j, 0 <= i < n -> 0 <= j < n -> (E' (sg i) (sg j) <-> E i j).

  Notation anc := (ancP n P).

  Lemma anc_range : forall a b, anc a b -> 0 <= a < n -> 0 <= b <= n.
  Proof.
    induction 1 as [a|a b Ha H IH]; intros Hr; [lia|].
    destruct (Pspec a Ha) as [Hp _]. destruct (Z.eq_dec (P a) n) as [E1|E1].
    - rewrite E1 in H. inversion H; subst; lia.
    - apply IH. lia.
  Qed.

  (* T1: proper ancestors get larger numbers *)
  Lemma sg_anc : forall a b, anc a b -> 0 <= a < n -> 0 <= b < n -> a <> b -> sg a < sg b.
  Proof.
    induction 1 as [a|a b Ha H IH]; intros Hr Hb Hne; [congruence|].
    destruct (Pspec a Ha) as [Hp _].
    assert (Hpn : P a < n).
    { destruct (Z.eq_dec (P a) n) as [E1|E1]; [|lia]. rewrite E1 in H. inversion H; subst; lia. }
    pose proof (sg_topo a Ha Hpn). destruct (Z.eq_dec (P a) b) as [<-|Hne2]; auto.
    specialize (IH ltac:(lia) Hb Hne2). lia.
  Qed.

  Lemma factA' : forall j i, 0 <= j -> j < i < n -> F j i -> anc j i.
  Proof. intros. eapply (fact_A n F P); eauto. Qed.

  (* F-neighbours with sg j < sg i: i is a proper ancestor of j, in particular j < i *)
  Lemma nb_up : forall j i, 0 <= j < n -> 0 <= i < n -> F j i -> sg j < sg i -> j < i /\ anc j i.
  Proof.
    intros j i Hj Hi HF Hs. destruct (Z_lt_ge_dec j i) as [Hlt|Hge].
    - split; auto. apply factA'; auto; lia.
    - exfalso. assert (i <> j) by (intro; subst; lia).
      assert (Ha : anc i j) by (apply factA'; auto; try lia; apply Fsym; auto).
      pose proof (sg_anc i j Ha Hi Hj H). lia.
  Qed.

  (* image of F *)
  Definition SF (i' j' : Z) : Prop := exists i j, 0 <= i < n /\ 0 <= j < n /\ sg i = i' /\ sg j = j' /\ F i j.

  Lemma SF_closed : forall k' i' j', 0 <= k' -> k' < i' < n -> k' < j' < n -> SF k' i' -> SF k' j' -> SF i' j'.
  Proof.
    intros k' i' j' Hk Hi Hj [k [i [Hk1 [Hi1 [Ek [Ei HF1]]]]]] [k2 [j [Hk2 [Hj1 [Ek2 [Ej HF2]]]]]].
    assert (k2 = k) by (apply sg_inj; auto; congruence). subst k2.
    destruct (nb_up k i Hk1 Hi1 HF1 ltac:(lia)) as [Hki _].
    destruct (nb_up k j Hk1 Hj1 HF2 ltac:(lia)) as [Hkj _].
    exists i, j. repeat split; auto; try lia. apply (Fclos k); auto; lia.
  Qed.

  Lemma F'_sub : forall (m : nat) i' j', (Z.to_nat (Z.min i' j') < m)%nat -> 0 <= i' < n -> 0 <= j' < n -> F' i' j' -> SF i' j'.
  Proof.
    induction m as [|m IH]; intros i' j' Hm Hi Hj HF; [lia|].
    destruct (Forig' i' j' Hi Hj HF) as [HE|[k' [Hk0 [Hki [Hkj [H1 H2]]]]]].
    - destruct (sg_surj i' Hi) as [i [Hi1 Ei]]. destruct (sg_surj j' Hj) as [j [Hj1 Ej]].
      exists i, j. repeat split; auto; try lia. apply EF; auto. apply E_relabel; auto. now rewrite Ei, Ej.
    - apply (SF_closed k'); auto; try lia; apply IH; auto; lia.
  Qed.

  Lemma F_sub : forall (m : nat) i j, (Z.to_nat (Z.min i j) < m)%nat -> 0 <= i < n -> 0 <= j < n -> F i j -> F' (sg i) (sg j).
  Proof.
    induction m as [|m IH]; intros i j Hm Hi Hj HF; [lia|].
    destruct (Forig i j Hi Hj HF) as [HE|[k [Hk0 [Hki [Hkj [H1 H2]]]]]].
    - apply EF'; auto. apply E_relabel; auto.
    - assert (Hk : 0 <= k < n) by lia.
      pose proof (factA' k i Hk0 ltac:(lia) H1) as Ha1. pose proof (factA' k j Hk0 ltac:(lia) H2) as Ha2.
      pose proof (sg_anc k i Ha1 Hk Hi ltac:(lia)). pose proof (sg_anc k j Ha2 Hk Hj ltac:(lia)).
      pose proof (sg_range k Hk). pose proof (sg_range i Hi). pose proof (sg_range j Hj).
      apply (Fclos' (sg k)); try lia; apply IH; auto; lia.
  Qed.

  Theorem reorder_parent : forall j, 0 <= j < n -> P' (sg j) = if P j =? n then n else sg (P j).
  Proof.
    intros j Hj. pose proof (sg_range j Hj) as Hsj.
    destruct (Pspec j Hj) as [Hp [Hmin Hhit]]. destruct (Pspec' (sg j) Hsj) as [Hp' [Hmin' Hhit']].
    (* every F'-neighbour above sg j comes from an F-neighbour above j which is an ancestor of j *)
    assert (Hup : forall i', sg j < i' < n -> F' (sg j) i' -> exists i, 0 <= i < n /\ sg i = i' /\ j < i /\ F j i /\ anc j i).
    { intros i' Hi' HF'. destruct (F'_sub (S (Z.to_nat (Z.min (sg j) i'))) (sg j) i') as [a [i [Ha [Hi1 [Ea [Ei HF]]]]]]; auto; try lia.
      assert (a = j) by (apply sg_inj; auto). subst a.
      destruct (nb_up j i Hj Hi1 HF ltac:(lia)) as [Hji Hanc]. exists i. auto. }
    destruct (P j =? n) eqn:Epn.
    - apply Z.eqb_eq in Epn. destruct (Z.eq_dec (P' (sg j)) n) as [|Hne]; auto. exfalso.
      destruct (Hup (P' (sg j))) as [i [Hi1 [Ei [Hji [HF _]]]]]; [lia|apply Hhit'; lia|].
      apply (Hmin i); auto. lia.
    - apply Z.eqb_neq in Epn. assert (Hpn : P j < n) by lia.
      pose proof (sg_topo j Hj Hpn) as Htopo. pose proof (sg_range (P j) ltac:(lia)) as Hsp.
      assert (HF' : F' (sg j) (sg (P j))).
      { apply (F_sub (S (Z.to_nat (Z.min j (P j))))); auto; try lia. }
      assert (Hle : P' (sg j) <= sg (P j)).
      { destruct (Z_le_gt_dec (P' (sg j)) (sg (P j))); auto. exfalso. apply (Hmin' (sg (P j))); auto. lia. }
      destruct (Hup (P' (sg j))) as [i [Hi1 [Ei [Hji [HF Hanc]]]]]; [lia|apply Hhit'; lia|].
      (* i is a proper ancestor of j: P j is an ancestor-or-self descendant of i *)
      inversion Hanc as [|? ? _ Hanc']; subst; [lia|].
      destruct (Z.eq_dec (P j) i) as [->|Hne]; [lia|].
      pose proof (sg_anc (P j) i Hanc' ltac:(lia) Hi1 Hne). lia.
  Qed.
End Reorder.
