(* SchedWork.v -- C04: the work of a run is bounded.  Along ANY run from ParallelInit's state (any number of threads, any
   interleaving) the steps that hand out a panel and the steps that finish a panel are each at most as many as there are
   panels: DONE is absorbing, a panel is finished at most once, handed out at most once.  All other steps are iterations of
   the workers' polling loop (LTest, a scheduler call that returns EMPTY).  Together with no_stuck_state (some productive
   step is always enabled while panels remain) this is the termination argument of the property up to fairness of the OS
   scheduler: at most 2 * (number of panels) productive steps separate any state from completion. *)
From Coq Require Import ZArith List Bool Lia.
From SLU Require Import Consts SchedModel SchedBase SchedInv SchedSteps SchedCall1 SchedCall2 SchedCall3 SchedProofs SchedPipe SchedBusy.
Import ListNotations.
Local Open Scope Z_scope.

(* panels finished along a run *)
Fixpoint gfinished (g : gstate) (ls : list label) : list Z :=
  match ls with
  | [] => []
  | l :: r => match gstep g l with
              | Some g' => (match l with LFinish t => [snd (thr_get (thr g) t)] | _ => [] end) ++ gfinished g' r
              | None => []
              end
  end.

(* one scheduler call never changes a DONE panel *)
Lemma call_done_mono s th t x s' j b p :
  Inv (mkG s th) -> 0 <= t < tlen th -> thr_get th t = (M_READY, x) -> sched s x = (s', j, b) ->
  st s p = c_DONE -> st s' p = c_DONE.
Proof.
  intros HI Ht Hget Hs Hd. unfold sched, sched_choose in Hs.
  (* common tail *)
  assert (Tail : forall a th1, InvX (mkG a th1) (-5) -> 0 <= t < tlen th1 -> thr_get th1 t = (M_READY, c_EMPTY) ->
            st a p = c_DONE ->
            (let '(a', j0) := deq (fuel_of a) a in
             if (j0 =? c_EMPTY) || (j0 =? ERR) then (a', j0, 0) else let '(s2, b0) := sched_take a' j0 in (s2, j0, b0)) = (s', j, b) ->
            st s' p = c_DONE).
  { intros a th1 HX Ht1 Hg1 Hda Hs1.
    assert (L5 : lead a (-5) = false) by (unfold lead; replace (inb (-5) (sn a)) with false; [reflexivity | symmetry; apply not_true_is_false; rewrite inb_true; lia]).
    destruct (invx_deq a th1 (-5) HX L5) as (h' & j0 & Ed & HX' & Hj & _).
    rewrite Ed in Hs1. destruct Hj as [->|(Lj & Sj & Cj & _)].
    - rewrite Z.eqb_refl in Hs1. cbn [orb] in Hs1. inversion Hs1; subst. exact Hda.
    - pose proof (lead_range _ _ Lj) as [Rj _].
      assert (E1 : (j0 =? c_EMPTY) = false) by (apply Z.eqb_neq; cs; lia).
      assert (E2 : (j0 =? ERR) = false) by (apply Z.eqb_neq; cs; lia).
      rewrite E1, E2 in Hs1. cbn [orb] in Hs1.
      set (a' := set_queue a (q a) h' (qtail a) (qtail a - h')) in *.
      destruct (sched_take a' j0) as [s2 b0] eqn:Etk. inversion Hs1; subst s' j b.
      destruct (take_facts a' th1 t j0 HX' Ht1 Hg1 Lj Sj (or_introl Cj)) as (_ & _ & Hst & _ & _ & Hdad & _ & _ & Htc & _).
      rewrite Etk in Hst. cbn [fst] in Hst. rewrite Hst.
      assert (Hda' : st a' p = c_DONE) by exact Hda.
      destruct (tcond a' j0 && (p =? dadpanel a' j0)) eqn:T1.
      + exfalso. apply andb_true_iff in T1. destruct T1 as [Tc Ep]. apply Z.eqb_eq in Ep. subst p.
        destruct (Htc Tc) as [Hlt _]. destruct (Hdad Hlt) as (_ & _ & Hu). rewrite Hu in Hda'. cs. lia.
      + destruct (p =? j0) eqn:Ep; [|exact Hda']. apply Z.eqb_eq in Ep. subst p. change (st a' j0) with (st a j0) in *. cs. lia. }
  destruct (x =? c_EMPTY) eqn:Ex.
  - apply Z.eqb_eq in Ex. subst x. exact (Tail s th (inv_weaken _ (-5) HI) Ht Hget Hd Hs).
  - apply Z.eqb_neq in Ex.
    set (d0 := dadpanel s x) in *. set (du := uk s d0 - 1) in *.
    set (s1 := set_pukids s (updZ (pukids s) d0 du)) in *.
    set (th1 := thr_upd th t (M_READY, c_EMPTY)).
    pose proof (invx_report s th t x HI Ht Hget Ex) as HXr. fold d0 du s1 th1 in HXr.
    assert (Ht1 : 0 <= t < tlen th1) by (unfold th1; now rewrite tlen_upd).
    assert (Hg1 : thr_get th1 t = (M_READY, c_EMPTY)) by (unfold th1; rewrite thr_get_upd by exact Ht; now rewrite Z.eqb_refl).
    assert (Hd1 : st s1 p = c_DONE) by exact Hd.
    destruct ((du =? 0) && (c_BUSY <? st s1 d0)) eqn:Edad.
    + assert (Hex : rep_exempt s x = d0) by (unfold rep_exempt; fold d0 du; change (st s d0) with (st s1 d0); now rewrite Edad).
      assert (Hne5 : rep_exempt s x <> -5).
      { rewrite Hex. pose proof (rep_x s th t x HI Ht Hget Ex) as [Lx _]. pose proof (inv_wf _ HI) as W. cbn [gs] in W.
        pose proof (wf_dad _ W x Lx). pose proof (lead_range _ _ Lx). fold d0 in H. lia. }
      destruct (rep_exempt_lt s th t x HI Ht Hget Ex Hne5) as (_ & Hdu & Sd & Hdn). fold d0 du in Hdu, Sd, Hdn.
      pose proof (rep_x s th t x HI Ht Hget Ex) as [Lx _]. pose proof (inv_wf _ HI) as W. cbn [gs] in W.
      assert (Ld : lead s d0 = true) by (apply (wf_dadlead _ W x Lx); fold d0; lia).
      assert (F1 : (d0 =? c_EMPTY) = false) by (apply Z.eqb_neq; apply lead_range in Ld; cs; lia).
      assert (F2 : (d0 =? ERR) = false) by (apply Z.eqb_neq; apply lead_range in Ld; cs; lia).
      rewrite F1, F2 in Hs. cbn [orb] in Hs. rewrite Hex in HXr.
      destruct (sched_take s1 d0) as [s2 b0] eqn:Etk. inversion Hs; subst s' j b.
      assert (Cj : st s1 d0 <= c_CANPIPE \/ uk s1 d0 = 0).
      { right. rewrite (rep_uk s th t x HI Ht Hget Ex). fold d0. rewrite Z.eqb_refl. exact Hdu. }
      destruct (take_facts s1 th1 t d0 HXr Ht1 Hg1 Ld Sd Cj) as (_ & _ & Hst & _ & _ & Hdad & _ & _ & Htc & _).
      rewrite Etk in Hst. cbn [fst] in Hst. rewrite Hst.
      destruct (tcond s1 d0 && (p =? dadpanel s1 d0)) eqn:T1.
      * exfalso. apply andb_true_iff in T1. destruct T1 as [Tc Ep]. apply Z.eqb_eq in Ep. subst p.
        destruct (Htc Tc) as [Hlt _]. destruct (Hdad Hlt) as (_ & _ & Hu). rewrite Hu in Hd1. cs. lia.
      * destruct (p =? d0) eqn:Ep; [|exact Hd1]. apply Z.eqb_eq in Ep. subst p. cs. lia.
    + assert (Hex : rep_exempt s x = -5) by (unfold rep_exempt; fold d0 du; change (st s d0) with (st s1 d0); now rewrite Edad).
      rewrite Hex in HXr. exact (Tail s1 th1 HXr Ht1 Hg1 Hd1 Hs).
Qed.

Lemma step_done_mono g l g' p : Inv g -> gstep g l = Some g' -> st (gs g) p = c_DONE -> st (gs g') p = c_DONE.
Proof.
  intros HI Hs Hd. destruct g as [s th]. destruct l as [t|t|t]; cbn [gstep gs thr] in Hs;
    destruct (thr_get th t) as [m cur] eqn:G.
  - destruct (inb t (Z.of_nat (length th)) && (m =? M_WORK) && kids_done s cur) eqn:E; [|discriminate].
    rewrite !andb_true_iff in E. destruct E as ((E1 & E2) & E3). apply inb_true in E1. apply Z.eqb_eq in E2. subst m.
    inversion Hs; subst g'. cbn [gs] in *. rewrite (fin_st s th t cur HI E1 G). destruct (p =? cur); [reflexivity | exact Hd].
  - destruct (inb t (Z.of_nat (length th)) && (m =? M_TEST)); [|discriminate]. inversion Hs; subst g'. exact Hd.
  - destruct (inb t (Z.of_nat (length th)) && (m =? M_READY)) eqn:E; [|discriminate].
    rewrite !andb_true_iff in E. destruct E as (E1 & E2). apply inb_true in E1. apply Z.eqb_eq in E2. subst m.
    destruct (sched s cur) as [[s' j] b] eqn:Es. inversion Hs; subst g'. cbn [gs] in *.
    exact (call_done_mono s th t cur s' j b p HI E1 G Es Hd).
Qed.

Lemma run_done_mono ls : forall g p, Inv g -> st (gs g) p = c_DONE -> forall q, In q (gfinished g ls) -> q <> p.
Proof.
  induction ls as [|l r IH]; intros g p HI Hd q Hq; cbn [gfinished] in Hq; [contradiction|].
  destruct (gstep g l) as [g'|] eqn:Es; [|contradiction].
  pose proof (step_inv _ _ _ HI Es) as HI'. pose proof (step_done_mono g l g' p HI Es Hd) as Hd'.
  apply in_app_or in Hq. destruct Hq as [Hq|Hq]; [|exact (IH g' p HI' Hd' q Hq)].
  destruct l as [t|t|t]; try contradiction. destruct Hq as [<-|[]].
  (* the finished panel was BUSY, not DONE *)
  destruct g as [s th]. cbn [gstep gs thr] in *. destruct (thr_get th t) as [m cur] eqn:G.
  destruct (inb t (Z.of_nat (length th)) && (m =? M_WORK) && kids_done s cur) eqn:E; [|discriminate].
  rewrite !andb_true_iff in E. destruct E as ((E1 & E2) & E3). apply inb_true in E1. apply Z.eqb_eq in E2. subst m.
  cbn [snd]. intros ->. destruct (inv_threads _ HI) as (A & _). specialize (A t E1). cbn [thr gs] in A. rewrite G in A.
  destruct A as (_ & A2 & _). destruct (A2 eq_refl) as [_ Bc]. cbn [gs] in Bc. rewrite Bc in Hd. cs. lia.
Qed.

Theorem finished_once ls : forall g, Inv g ->
  NoDup (gfinished g ls) /\ forall p, In p (gfinished g ls) -> lead (gs g) p = true.
Proof.
  induction ls as [|l r IH]; intros g HI; cbn [gfinished]; [split; [constructor | intros p []]|].
  destruct (gstep g l) as [g'|] eqn:Es; [|split; [constructor | intros p []]].
  pose proof (step_inv _ _ _ HI Es) as HI'. destruct (IH g' HI') as [ND HL].
  assert (HL' : forall p, In p (gfinished g' r) -> lead (gs g) p = true).
  { intros p Hp. rewrite <- (fr_lead _ _ (step_static g l g' HI Es)). exact (HL p Hp). }
  destruct l as [t|t|t]; cbn [app]; try solve [split; auto].
  destruct g as [s th]. cbn [gstep gs thr] in *. destruct (thr_get th t) as [m cur] eqn:G.
  destruct (inb t (Z.of_nat (length th)) && (m =? M_WORK) && kids_done s cur) eqn:E; [|discriminate].
  rewrite !andb_true_iff in E. destruct E as ((E1 & E2) & E3). apply inb_true in E1. apply Z.eqb_eq in E2. subst m.
  inversion Es; subst g'. cbn [snd gs] in *.
  destruct (inv_threads _ HI) as (A & _). specialize (A t E1). cbn [thr gs] in A. rewrite G in A.
  destruct A as (_ & A2 & _). destruct (A2 eq_refl) as [Lc _]. cbn [gs] in Lc.
  split.
  - constructor; [|exact ND]. intros Hin.
    assert (Hd : st (gs (mkG (set_pstate s (updZ (pstate s) cur c_DONE)) (thr_upd th t (M_TEST, cur)))) cur = c_DONE).
    { cbn [gs]. rewrite (fin_st s th t cur HI E1 G). now rewrite Z.eqb_refl. }
    exact (run_done_mono r _ cur HI' Hd cur Hin eq_refl).
  - intros p [<-|Hp]; [exact Lc | exact (HL' p Hp)].
Qed.

Definition npanels (s : sstate) : Z := countb (lead s) (cols (sn s)).

Lemma nodup_leads_bound s l : NoDup l -> (forall p, In p l -> lead s p = true) -> Z.of_nat (length l) <= npanels s.
Proof.
  intros ND HL. unfold npanels, countb. apply inj_le. apply NoDup_incl_length; [exact ND|].
  intros p Hp. apply filter_In. split; [|exact (HL p Hp)].
  apply in_cols. exact (proj1 (lead_range _ _ (HL p Hp))).
Qed.

(* the number of hand-outs and the number of completions of any run are bounded by the number of panels *)
Theorem work_bounded s0 P ls : check_init s0 = true ->
  Z.of_nat (length (gtaken (ginit s0 P) ls)) <= npanels s0 /\
  Z.of_nat (length (gfinished (ginit s0 P) ls)) <= npanels s0.
Proof.
  intros Hc. pose proof (init_inv s0 P Hc) as HI. split.
  - destruct (taken_once ls _ HI) as [ND HU]. apply nodup_leads_bound; [exact ND|].
    intros p Hp. specialize (HU p Hp). cbn [gs ginit] in HU. unfold untaken in HU. apply andb_true_iff in HU. exact (proj1 HU).
  - destruct (finished_once ls _ HI) as [ND HL]. apply nodup_leads_bound; [exact ND|]. exact HL.
Qed.
