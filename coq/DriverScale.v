(* DriverScale.v -- the scaling wiring of the expert driver p?gssvx (C07): equilibrate, solve the scaled system in the
   requested transpose sense, map the solution back.  Exact arithmetic (reals); r, c are the row / column scale
   factors, rowequ / colequ say which of them were applied (equed). *)
From Coq Require Import Reals Lra Lia List.
From SLU Require Import NumLU NumSolve.
Local Open Scope R_scope.

Section SCALE.
Variable n : nat.
Variables rowequ colequ : bool.
Variables r c : nat -> R.
Definition rf (i : nat) : R := if rowequ then r i else 1.
Definition cf (j : nat) : R := if colequ then c j else 1.
Definition scaleA (A : mat) : mat := fun i j => rf i * A i j * cf j.

(* trans = NOTRANS: B is scaled by R, the solution of the scaled system is multiplied by C *)
Theorem unscale_notran (A : mat) (b y : nat -> R) :
  (forall i, (i < n)%nat -> rf i <> 0) ->
  (forall i, (i < n)%nat -> bigsum (fun j => scaleA A i j * y j) n = rf i * b i) ->
  forall i, (i < n)%nat -> bigsum (fun j => A i j * (cf j * y j)) n = b i.
Proof.
  intros Hr Hs i Hi. specialize (Hs i Hi).
  rewrite (bigsum_ext _ (fun j => rf i * (A i j * (cf j * y j)))) in Hs by (intros; unfold scaleA; ring).
  rewrite bigsum_scal in Hs. apply Rmult_eq_reg_l with (rf i); auto.
Qed.

(* trans = TRANS (or CONJ for real data): B is scaled by C, the solution is multiplied by R *)
Theorem unscale_trans (A : mat) (b y : nat -> R) :
  (forall j, (j < n)%nat -> cf j <> 0) ->
  (forall j, (j < n)%nat -> bigsum (fun i => scaleA A i j * y i) n = cf j * b j) ->
  forall j, (j < n)%nat -> bigsum (fun i => A i j * (rf i * y i)) n = b j.
Proof.
  intros Hc Hs j Hj. specialize (Hs j Hj).
  rewrite (bigsum_ext _ (fun i => cf j * (A i j * (rf i * y i)))) in Hs by (intros; unfold scaleA; ring).
  rewrite bigsum_scal in Hs. apply Rmult_eq_reg_l with (cf j); auto.
Qed.
End SCALE.

(* row-wise storage: the arrays of A are those of the column-wise matrix AA = A^T; solving with A in one sense is
   solving with AA in the other sense *)
Theorem nr_is_transposed_nc n (A : mat) (x b : nat -> R) :
  let AA := fun i j => A j i in
  (forall i, (i < n)%nat -> bigsum (fun j => A i j * x j) n = b i) <->
  (forall i, (i < n)%nat -> bigsum (fun j => AA j i * x j) n = b i).
Proof. cbn. tauto. Qed.
