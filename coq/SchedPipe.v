(* SchedPipe.v -- C03, scheduler level: when a panel is handed out, every proper descendant panel is taken,
   the descendants that are not DONE form one chain, and the returned bcol is the bottom of that chain. *)
From Coq Require Import ZArith List Bool Lia.
From SLU Require Import Consts SchedModel SchedBase SchedInv SchedSteps SchedCall1 SchedCall2 SchedCall3 SchedProofs.
Import ListNotations.
Local Open Scope Z_scope.

(* x is a descendant-or-self panel of p (following DADPANEL) *)
Inductive anc (s : sstate) : Z -> Z -> Prop :=
| anc_refl x : anc s x x
| anc_step x p : lead s x = true -> anc s (dadpanel s x) p -> anc s x p.

(* b is the first panel that is not DONE on the way up from x: what the scheduler's climb loop computes *)
Inductive low (s : sstate) : Z -> Z -> Prop :=
| low_here x : st s x <> c_DONE -> low s x x
| low_up x b : st s x = c_DONE -> low s (dadpanel s x) b -> low s x b.

Definition I_fbanc (s : sstate) : Prop := forall p, lead s p = true -> anc s (nthZ (fb s) p) p.
Definition I_canpipe (s : sstate) : Prop :=
  forall p, lead s p = true -> st s p = c_CANPIPE ->
  forall b, low s (nthZ (fb s) p) b -> forall c, kid s b c = true -> st s c = c_DONE.
Definition I2 (s : sstate) : Prop := I_fbanc s /\ I_canpipe s.

Lemma anc_trans s x y z : anc s x y -> anc s y z -> anc s x z.
Proof. induction 1; auto. intros H2. apply anc_step; auto. Qed.

Lemma anc_static s s' x p : same_static s s' -> anc s x p -> anc s' x p.
Proof.
  intros FS. induction 1; [constructor|]. apply anc_step; [now rewrite (fr_lead _ _ FS) | now rewrite (fr_dad _ _ FS)].
Qed.

Lemma anc_le s x p : WF s -> anc s x p -> x <= p.
Proof. intros W. induction 1; [lia|]. pose proof (wf_dad _ W x H). lia. Qed.

(* a proper descendant goes through a child *)
Lemma anc_top s x p : anc s x p -> x <> p -> exists c, kid s p c = true /\ anc s x c.
Proof.
  induction 1 as [x|x p L A IH]; intros Hne; [congruence|].
  destruct (Z.eq_dec (dadpanel s x) p) as [E|E].
  - exists x. split; [apply kid_iff; auto | constructor].
  - destruct (IH E) as (c & K & Ac). exists c. split; auto. apply anc_step; auto.
Qed.

Lemma anc_lead s x p : anc s x p -> x <> p -> lead s x = true.
Proof. inversion 1; subst; auto; congruence. Qed.

Section LIFT.
Variable s : sstate.
Hypothesis IWF : WF s.
Hypothesis ID : forall p, lead s p = true -> st s p = c_DONE -> forall c, kid s p c = true -> st s c = c_DONE.
Hypothesis IJ : forall p, lead s p = true -> st s p <= c_CANPIPE ->
    (forall c, kid s p c = true -> st s c <= c_BUSY) /\
    (forall c1 c2, kid s p c1 = true -> kid s p c2 = true -> st s c1 <> c_DONE -> st s c2 <> c_DONE -> c1 = c2).

Lemma done_lift x p : anc s x p -> lead s p = true \/ x = p -> st s p = c_DONE -> st s x = c_DONE.
Proof.
  induction 1 as [x|x p L A IH]; intros Lp Dp; auto.
  assert (Lp' : lead s p = true) by (destruct Lp as [| -> ]; auto).
  assert (Ld : lead s (dadpanel s x) = true).
  { destruct (Z.eq_dec (dadpanel s x) p) as [->|Hne]; auto. eapply anc_lead; eauto. }
  assert (Hd : st s (dadpanel s x) = c_DONE) by (apply IH; auto).
  apply (ID (dadpanel s x) Ld Hd x). apply kid_iff; auto.
Qed.

Lemma taken_lift x p : anc s x p -> lead s p = true -> st s p <= c_BUSY -> st s x <= c_BUSY.
Proof.
  induction 1 as [x|x p L A IH]; intros Lp Tp; auto.
  assert (Ld : lead s (dadpanel s x) = true).
  { destruct (Z.eq_dec (dadpanel s x) p) as [->|Hne]; auto. eapply anc_lead; eauto. }
  specialize (IH Lp Tp). destruct (IJ (dadpanel s x) Ld ltac:(cs; lia)) as [J1 _].
  apply J1. apply kid_iff; auto.
Qed.

Lemma taken_lift_canpipe x p : anc s x p -> x <> p -> lead s p = true -> st s p <= c_CANPIPE -> st s x <= c_BUSY.
Proof.
  intros A Hne Lp Tp. destruct (anc_top _ _ _ A Hne) as (c & K & Ac).
  destruct (IJ p Lp Tp) as [J1 _]. pose proof (proj1 (kid_iff _ _ _) K) as [Lc _].
  apply (taken_lift x c Ac Lc). now apply J1.
Qed.

(* two not-DONE descendants of a taken (or CANPIPE) panel lie on one chain *)
Lemma chain_unique : forall (k : nat) j x y, (Z.to_nat j <= k)%nat -> lead s j = true -> st s j <= c_CANPIPE ->
  anc s x j -> anc s y j -> st s x <> c_DONE -> st s y <> c_DONE -> anc s x y \/ anc s y x.
Proof.
  induction k as [|k IHk]; intros j x y Hk Lj Tj Ax Ay Nx Ny.
  - destruct (Z.eq_dec x j) as [->|Hx]; [now right|].
    destruct (anc_top _ _ _ Ax Hx) as (c & K & _). pose proof (kid_lt _ _ _ IWF K).
    apply kid_iff in K. destruct K as [Lc _]. apply lead_range in Lc. lia.
  - destruct (Z.eq_dec x j) as [->|Hx]; [now right|].
    destruct (Z.eq_dec y j) as [->|Hy]; [now left|].
    destruct (anc_top _ _ _ Ax Hx) as (cx & Kx & Acx).
    destruct (anc_top _ _ _ Ay Hy) as (cy & Ky & Acy).
    pose proof (proj1 (kid_iff _ _ _) Kx) as [Lcx _]. pose proof (proj1 (kid_iff _ _ _) Ky) as [Lcy _].
    assert (Ncx : st s cx <> c_DONE) by (intros D; apply Nx; eapply done_lift; eauto).
    assert (Ncy : st s cy <> c_DONE) by (intros D; apply Ny; eapply done_lift; eauto).
    destruct (IJ j Lj Tj) as [J1 J2].
    assert (cx = cy) by (apply J2; auto). subst cy.
    pose proof (kid_lt _ _ _ IWF Kx). pose proof (lead_range _ _ Lcx) as [Rc _].
    apply (IHk cx); auto; try lia. specialize (J1 cx Kx). cs; lia.
Qed.
End LIFT.

(* low only depends on which panels are DONE *)
Lemma low_ext s s' x b : same_static s s' -> (forall p, st s' p = c_DONE <-> st s p = c_DONE) -> low s x b -> low s' x b.
Proof.
  intros FS Hd. induction 1.
  - apply low_here. rewrite Hd. auto.
  - apply low_up; [now apply Hd | now rewrite (fr_dad _ _ FS)].
Qed.

Lemma low_fun s x b b' : low s x b -> low s x b' -> b = b'.
Proof. induction 1; intros H2; inversion H2; subst; auto; try congruence. Qed.

Lemma low_notdone s x b : low s x b -> st s b <> c_DONE.
Proof. induction 1; auto. Qed.

(* the climb loop computes low *)
Lemma climb_low a : WF a -> st a (sn a) = c_UNREADY -> forall fuel x, (lead a x = true \/ x = sn a) ->
  (Z.to_nat (sn a - x) < fuel)%nat -> low a x (climb fuel a x).
Proof.
  intros W Hn. induction fuel as [|f IH]; intros x Hx Hf; [lia|].
  cbn [climb]. destruct (st a x =? c_DONE) eqn:E.
  - apply Z.eqb_eq in E. destruct Hx as [L| ->]; [|rewrite Hn in E; cs; lia].
    pose proof (wf_dad _ W x L) as D. pose proof (lead_range _ _ L) as [Rx _].
    apply low_up; auto. apply IH; [|lia].
    destruct (Z_lt_dec (dadpanel a x) (sn a)) as [Hl|]; [left; now apply W | right; lia].
  - apply Z.eqb_neq in E. now apply low_here.
Qed.

(* climbing from a descendant of p never passes a p that is not DONE *)
Lemma low_below s x p b : anc s x p -> st s p <> c_DONE -> low s x b -> anc s x b /\ anc s b p.
Proof.
  induction 1 as [x|x p L A IH]; intros Np Lw.
  - inversion Lw; subst; [split; constructor | congruence].
  - inversion Lw; subst.
    + split; [constructor | apply anc_step; auto].
    + destruct (IH Np H0) as [A1 A2]. split; auto. apply anc_step; auto.
Qed.

Lemma low_exists s x p : anc s x p -> st s p <> c_DONE -> exists b, low s x b.
Proof.
  induction 1 as [x|x p L A IH]; intros Np.
  - exists x. now apply low_here.
  - destruct (Z.eq_dec (st s x) c_DONE) as [D|D]; [|exists x; now apply low_here].
    destruct (IH Np) as (b & Hb). exists b. now apply low_up.
Qed.

(* if every proper descendant of j is DONE, climbing from a descendant ends at j *)
Lemma low_all_done s x j b : anc s x j -> (forall y, anc s y j -> y <> j -> st s y = c_DONE) -> st s j <> c_DONE ->
  low s x b -> b = j.
Proof.
  induction 1 as [x|x p L A IH]; intros Hall Np Lw.
  - inversion Lw; subst; auto. congruence.
  - inversion Lw; subst.
    + destruct (Z.eq_dec b p) as [|Hne]; auto. exfalso. apply H. apply Hall; auto. apply anc_step; auto.
    + apply IH; auto.
Qed.

(* ---------------- preservation of I2 by Finish ---------------- *)
Section FIN2.
Variable s : sstate.
Variable th : list (Z * Z).
Variables t cur : Z.
Hypothesis HI : Inv (mkG s th).
Hypothesis H2 : I2 s.
Hypothesis Ht : 0 <= t < tlen th.
Hypothesis Hget : thr_get th t = (M_WORK, cur).
Hypothesis Hkd : kids_done s cur = true.
Let s' := set_pstate s (updZ (pstate s) cur c_DONE).

Theorem i2_finish : I2 s'.
Proof.
  pose proof (fin_static s cur) as FS. fold s' in FS.
  pose proof (fin_st s th t cur HI Ht Hget) as FST. fold s' in FST.
  destruct (fin_cur s th t cur HI Ht Hget) as [Lc Bc].
  destruct H2 as [Ma Kc]. use_inv HI. split.
  - intros p Lp. rewrite (fr_lead _ _ FS) in Lp. change (fb s') with (fb s). apply (anc_static _ _ _ _ FS). now apply Ma.
  - intros p Lp Sp b Lw c K. rewrite (fr_lead _ _ FS) in Lp. rewrite FST in Sp. change (fb s') with (fb s) in Lw.
    destruct (p =? cur) eqn:Ep; [cs; lia|]. apply Z.eqb_neq in Ep.
    rewrite (fr_kid _ _ FS) in K. rewrite FST. destruct (c =? cur) eqn:Ec; auto. apply Z.eqb_neq in Ec.
    assert (Np : st s p <> c_DONE) by (rewrite Sp; cs; lia).
    destruct (low_exists _ _ _ (Ma p Lp) Np) as (b0 & Lw0).
    destruct (Z.eq_dec b0 cur) as [->|Hb0].
    + (* the old bottom just became DONE: the new bottom is its parent, whose only not-DONE child was cur *)
      assert (G1 : forall x, low s x cur -> low s' x b -> low s' (dadpanel s cur) b).
      { intros x L1. induction L1 as [x Nx|x b1 Dx L1 IH1]; intros L2.
        - inversion L2; subst; [rewrite FST, Z.eqb_refl in H; congruence|]. rewrite (fr_dad _ _ FS) in H0. exact H0.
        - inversion L2; subst.
          + rewrite FST in H. destruct (b =? b1); congruence.
          + rewrite (fr_dad _ _ FS) in H0. auto. }
      specialize (G1 _ Lw0 Lw).
      set (d := dadpanel s cur) in *.
      pose proof (wf_dad _ IWF cur Lc) as Rd. fold d in Rd. pose proof (lead_range _ _ Lc) as [Rc _].
      assert (Hb : b = d).
      { inversion G1; subst; auto. exfalso. rewrite FST in H. assert (E : d =? cur = false) by (apply Z.eqb_neq; lia). rewrite E in H.
        destruct (Z.eq_dec d (sn s)) as [Hd|Hd].
        - destruct ISTATES as (Hr & _). rewrite Hd, Hr in H. cs; lia.
        - destruct (wf_dadlead _ IWF cur Lc ltac:(fold d; lia)) as [Ld _]. fold d in Ld.
          assert (Kc0 : kid s d cur = true) by (apply kid_iff; auto).
          rewrite (ID d Ld H cur Kc0) in Bc. cs; lia. }
      subst b.
      (* d is p itself or a taken proper descendant of p *)
      destruct (low_below _ _ _ _ (Ma p Lp) Np Lw0) as [_ Acp].
      assert (Adp : anc s d p).
      { inversion Acp; subst; [congruence | exact H0]. }
      pose proof (proj1 (kid_iff _ _ _) K) as [Lk Dk].
      assert (Ld : lead s d = true).
      { destruct (Z.eq_dec d p) as [->|Hne]; auto. eapply anc_lead; eauto. }
      assert (Td : st s d <= c_CANPIPE).
      { destruct (Z.eq_dec d p) as [->|Hne]; [rewrite Sp; lia|].
        pose proof (taken_lift_canpipe s IJ d p Adp Hne Lp ltac:(rewrite Sp; lia)). cs; lia. }
      destruct (IJ d Ld Td) as [_ J2].
      destruct (Z.eq_dec (st s c) c_DONE) as [|Nc]; auto. exfalso. apply Ec.
      apply J2; auto; [apply kid_iff; auto | rewrite Bc; cs; lia].
    + (* the bottom did not change *)
      assert (G : forall x, low s x b0 -> low s' x b0).
      { induction 1 as [x Nx|x b1 Dx L1 IH1].
        - apply low_here. rewrite FST. destruct (x =? cur) eqn:E; auto. apply Z.eqb_eq in E. congruence.
        - apply low_up; [rewrite FST; destruct (x =? cur); auto | rewrite (fr_dad _ _ FS); auto]. }
      pose proof (low_fun _ _ _ _ Lw (G _ Lw0)). subst b0.
      apply (Kc p Lp Sp b Lw0 c K).
Qed.
End FIN2.

(* ---------------- taking a panel: I2 is preserved and the pipeline property holds ---------------- *)
Section TAKE2.
Variable a : sstate.
Variable th1 : list (Z * Z).
Variables t j : Z.
Hypothesis HX : InvX (mkG a th1) j.
Hypothesis H2 : I2 a.
Hypothesis Ht : 0 <= t < tlen th1.
Hypothesis Hget : thr_get th1 t = (M_READY, c_EMPTY).
Hypothesis Lj : lead a j = true.
Hypothesis Sj : c_BUSY < st a j.
Hypothesis Hc : st a j <= c_CANPIPE \/ uk a j = 0.

Let d := dadpanel a j.
Let s' := fst (sched_take a j).
Let b := snd (sched_take a j).

(* the pipeline property, stated in the state in which the panel is handed to the thread *)
Definition pipeline (s0 : sstate) (j0 b0 : Z) : Prop :=
  anc s0 b0 j0 /\ st s0 b0 <> c_DONE /\ (forall c, kid s0 b0 c = true -> st s0 c = c_DONE) /\
  forall x, anc s0 x j0 -> x <> j0 -> st s0 x <= c_BUSY /\ (st s0 x <> c_DONE -> anc s0 b0 x).

Theorem i2_take : I2 s' /\ pipeline s' j b.
Proof.
  destruct (take_facts a th1 t j HX Ht Hget Lj Sj Hc) as (FS & Rd & TST & Pfb & Pb & Dun & [Jj1 Jj2] & Juk & Jd & HI').
  fold s' d b in FS, Rd, TST, Pfb, Pb, Dun, HI'. fold d in Jd.
  destruct H2 as [Ma Kc]. use_invx HX. pose proof (lead_range _ _ Lj) as [Rj _].
  assert (DN : forall p, st s' p = c_DONE <-> st a p = c_DONE).
  { intros p. rewrite TST. destruct (tcond a j && (p =? d)) eqn:E.
    - apply andb_true_iff in E. destruct E as [E1 E2]. apply Z.eqb_eq in E2. subst p.
      destruct (Jd E1) as [Hd _]. destruct (Dun Hd) as (_ & _ & U). rewrite U. cs. split; intros; lia.
    - destruct (p =? j) eqn:E2; [|tauto]. apply Z.eqb_eq in E2. subst p. cs. split; intros; lia. }
  assert (FS' : same_static s' a) by (destruct FS as (A & B & C & D); repeat split; congruence).
  assert (DN' : forall p, st a p = c_DONE <-> st s' p = c_DONE) by (intros p; symmetry; apply DN).
  (* b is the first not-DONE panel above fb[j] *)
  set (a4 := set_pstate a (tpst a j)) in *.
  assert (FS4 : same_static a a4) by (repeat split).
  assert (ST4 : forall p, st a4 p = st s' p).
  { intros p. unfold st, a4. cbn [pstate set_pstate]. destruct (take_proj a j) as (_ & P & _). fold s' in P. now rewrite P. }
  assert (Lwb : low a (nthZ (fb a) j) b).
  { assert (L4 : low a4 (nthZ (fb a) j) b).
    { rewrite Pb. apply climb_low.
      - eapply fr_WF; eauto.
      - change (sn a4) with (sn a). rewrite ST4, TST. destruct ISTATES as (Hn & _).
        destruct (tcond a j && (sn a =? d)) eqn:E.
        { apply andb_true_iff in E. destruct E as [E1 E2]. apply Z.eqb_eq in E2. destruct (Jd E1). lia. }
        assert (E2 : sn a =? j = false) by (apply Z.eqb_neq; lia). now rewrite E2.
      - rewrite (fr_lead _ _ FS4). change (sn a4) with (sn a). now apply IFB0.
      - change (sn a4) with (sn a). unfold fuel_of. destruct (IFB0 j Lj) as [L| ->]; [apply lead_range in L; lia | lia]. }
    apply (low_ext a4 a); auto.
    intros p. rewrite ST4. symmetry. apply DN. }
  assert (Nj : st a j <> c_DONE) by (cs; lia).
  destruct (low_below _ _ _ _ (Ma j Lj) Nj Lwb) as [_ Abj].
  assert (Nb : st a b <> c_DONE) by (eapply low_notdone; eauto).
  (* all children of b are DONE *)
  assert (Kb : forall c, kid a b c = true -> st a c = c_DONE).
  { destruct (Z_le_dec (st a j) c_CANPIPE) as [Hle|Hgt].
    - destruct ISTATES as (_ & IS). destruct (IS j Lj) as [S1 S2].
      destruct (wf_types _ IWF j Lj) as [T|T].
      + assert (Sc : st a j = c_CANPIPE) by (destruct (S1 T) as [|[|[|]]]; cs; lia).
        exact (Kc j Lj Sc b Lwb).
      + (* relaxed: no descendants at all *)
        assert (Hbj : b = j).
        { destruct (Z.eq_dec b j); auto. exfalso. destruct (anc_top _ _ _ Abj n) as (c & K & _).
          rewrite (relaxed_no_kid a j c IWF Lj T) in K. discriminate. }
        subst b. intros c K. rewrite Hbj in K. rewrite (relaxed_no_kid a j c IWF Lj T) in K. discriminate.
    - destruct Hc as [|H0]; [lia|]. specialize (Juk H0).
      assert (Hall : forall y, anc a y j -> y <> j -> st a y = c_DONE).
      { intros y Ay Hy. destruct (anc_top _ _ _ Ay Hy) as (c & K & Ac).
        pose proof (proj1 (kid_iff _ _ _) K) as [Lcc _].
        apply (done_lift a ID y c Ac (or_introl Lcc)). now apply Juk. }
      pose proof (low_all_done _ _ _ _ (Ma j Lj) Hall Nj Lwb) as Hbj. rewrite Hbj. exact Juk. }
  pose proof (inv_wf _ HI') as IWF0. pose proof (inv_J _ HI') as IJ0. pose proof (inv_D _ HI') as ID0.
  unfold I_J, I_D in IJ0, ID0. cbn [gs thr] in IWF0, IJ0, ID0.
  split; [split|].
  - (* fb[p] stays below p *)
    intros p Lp. rewrite (fr_lead _ _ FS) in Lp. rewrite Pfb. apply (anc_static _ _ _ _ FS).
    destruct ILEN as (_ & _ & Lfb & _). pose proof (lead_range _ _ Lp) as [Rp _].
    destruct (Z.eq_dec p d) as [->|Hne].
    + rewrite nthZ_updZ_same by lia. apply (anc_trans _ _ j); auto. apply anc_step; auto. fold d. constructor.
    + rewrite nthZ_updZ_other by lia. now apply Ma.
  - (* CANPIPE panels *)
    intros p Lp Sp b1 Lw1 c K. rewrite (fr_lead _ _ FS) in Lp. rewrite (fr_kid _ _ FS) in K.
    apply DN. rewrite Pfb in Lw1.
    destruct ILEN as (_ & _ & Lfb & _). pose proof (lead_range _ _ Lp) as [Rp _].
    destruct (Z.eq_dec p d) as [->|Hne].
    + rewrite nthZ_updZ_same in Lw1 by lia.
      assert (b1 = b).
      { apply (low_fun s' b); auto. apply low_here. rewrite DN. exact Nb. }
      subst b1. now apply Kb.
    + rewrite nthZ_updZ_other in Lw1 by lia.
      assert (Spa : st a p = c_CANPIPE).
      { rewrite TST in Sp. destruct (tcond a j && (p =? d)) eqn:E.
        - apply andb_true_iff in E. destruct E as [_ E]. apply Z.eqb_eq in E. congruence.
        - destruct (p =? j); [cs; lia | auto]. }
      apply (Kc p Lp Spa b1); auto. apply (low_ext s' a); auto.
  - (* the pipeline property *)
    assert (Abj' : anc s' b j) by (apply (anc_static _ _ _ _ FS); auto).
    assert (Nb' : st s' b <> c_DONE) by (rewrite DN; auto).
    assert (Kb' : forall c, kid s' b c = true -> st s' c = c_DONE).
    { intros c K. rewrite (fr_kid _ _ FS) in K. apply DN. now apply Kb. }
    assert (Lj' : lead s' j = true) by (rewrite (fr_lead _ _ FS); auto).
    assert (Bj' : st s' j = c_BUSY).
    { rewrite TST. assert (E : j =? d = false) by (apply Z.eqb_neq; lia). now rewrite E, andb_false_r, Z.eqb_refl. }
    split; [exact Abj'|]. split; [exact Nb'|]. split; [exact Kb'|].
    intros x Ax Hx. split.
    + apply (taken_lift s' IJ0 x j Ax Lj'). rewrite Bj'. lia.
    + intros Nx.
      destruct (chain_unique s' IWF0 ID0 IJ0 (Z.to_nat j) j x b ltac:(lia) Lj' ltac:(rewrite Bj'; cs; lia) Ax Abj' Nx Nb') as [Axb|]; auto.
      destruct (Z.eq_dec x b) as [->|Hxb]; [constructor|]. exfalso.
      destruct (anc_top _ _ _ Axb Hxb) as (c & K & Ac).
      pose proof (proj1 (kid_iff _ _ _) K) as [Lcc _].
      apply Nx. apply (done_lift s' ID0 x c Ac (or_introl Lcc)). now apply Kb'.
Qed.
End TAKE2.

(* ---------------- one scheduler call ---------------- *)
Lemma i2_frame a a' : same_static a a' -> pstate a' = pstate a -> fb a' = fb a -> I2 a -> I2 a'.
Proof.
  intros FS Hp Hf [Ma Kc].
  assert (ST : forall p, st a' p = st a p) by (intros p; unfold st; now rewrite Hp).
  assert (FS' : same_static a' a) by (destruct FS as (A & B & C & D); repeat split; congruence).
  split.
  - intros p Lp. rewrite (fr_lead _ _ FS) in Lp. rewrite Hf. apply (anc_static _ _ _ _ FS). now apply Ma.
  - intros p Lp Sp b Lw c K. rewrite (fr_lead _ _ FS) in Lp. rewrite (fr_kid _ _ FS) in K. rewrite ST in *. rewrite Hf in Lw.
    apply (Kc p Lp Sp b); auto. apply (low_ext a' a); auto. intros q. now rewrite ST.
Qed.

Section CALL2.
Variable s : sstate.
Variable th : list (Z * Z).
Variables t x : Z.
Hypothesis HI : Inv (mkG s th).
Hypothesis H2 : I2 s.
Hypothesis Ht : 0 <= t < tlen th.
Hypothesis Hget : thr_get th t = (M_READY, x).

Lemma call2_tail a th1 :
  InvX (mkG a th1) (-5) -> I2 a -> 0 <= t < tlen th1 -> thr_get th1 t = (M_READY, c_EMPTY) ->
  forall s' j b, (let '(a', j0) := deq (fuel_of a) a in
                  if (j0 =? c_EMPTY) || (j0 =? ERR) then (a', j0, 0)
                  else let '(s2, b0) := sched_take a' j0 in (s2, j0, b0)) = (s', j, b) ->
  I2 s' /\ (j <> c_EMPTY -> pipeline s' j b).
Proof.
  intros HX HA Ht1 Hg1 s' j b Hd.
  assert (He0 : lead a (-5) = false) by (unfold lead, inb; cbn; reflexivity).
  destruct (invx_deq a th1 (-5) HX He0) as (h' & j0 & D & HX' & Hj & Rh).
  rewrite D in Hd. set (a' := set_queue a (q a) h' (qtail a) (qtail a - h')) in *.
  assert (HA' : I2 a') by (apply (i2_frame a a'); auto; repeat split).
  destruct Hj as [-> | (Lj & Sj & Cj & _)].
  - rewrite Z.eqb_refl in Hd. cbn [orb] in Hd. inversion Hd; subst s' j b. split; [exact HA' | congruence].
  - assert (E1 : j0 =? c_EMPTY = false) by (apply Z.eqb_neq; intros ->; apply lead_range in Lj; cs; lia).
    assert (E2 : j0 =? ERR = false) by (apply Z.eqb_neq; intros ->; apply lead_range in Lj; cs; lia).
    rewrite E1, E2 in Hd. cbn [orb] in Hd.
    destruct (sched_take a' j0) as [s2 b0] eqn:Etk. inversion Hd; subst s' j b.
    assert (Cj' : st a' j0 <= c_CANPIPE \/ uk a' j0 = 0) by (left; exact Cj).
    pose proof (i2_take a' th1 t j0 HX' HA' Ht1 Hg1 Lj Sj Cj') as X. rewrite Etk in X. cbn [fst snd] in X.
    destruct X as [X1 X2]. split; auto.
Qed.

Theorem i2_call : forall s' j b, sched s x = (s', j, b) -> I2 s' /\ (j <> c_EMPTY -> pipeline s' j b).
Proof.
  intros s' j b Hs. unfold sched, sched_choose in Hs.
  destruct (x =? c_EMPTY) eqn:Ex.
  - apply Z.eqb_eq in Ex. subst x.
    pose proof (inv_weaken _ (-5) HI) as HX. exact (call2_tail s th HX H2 Ht Hget s' j b Hs).
  - apply Z.eqb_neq in Ex.
    set (d0 := dadpanel s x) in *. set (du := uk s d0 - 1) in *.
    set (s1 := set_pukids s (updZ (pukids s) d0 du)) in *.
    set (th1 := thr_upd th t (M_READY, c_EMPTY)).
    pose proof (invx_report s th t x HI Ht Hget Ex) as HXr. fold d0 du s1 th1 in HXr.
    assert (Ht1 : 0 <= t < tlen th1) by (unfold th1; now rewrite tlen_upd).
    assert (Hg1 : thr_get th1 t = (M_READY, c_EMPTY)) by (unfold th1; rewrite thr_get_upd by exact Ht; now rewrite Z.eqb_refl).
    assert (H21 : I2 s1) by (apply (i2_frame s s1); auto; repeat split).
    destruct ((du =? 0) && (c_BUSY <? st s1 d0)) eqn:Edad.
    + assert (Hex : rep_exempt s x = d0) by (unfold rep_exempt; fold d0 du; change (st s d0) with (st s1 d0); now rewrite Edad).
      pose proof (rep_d0 s th t x HI Ht Hget Ex) as [Rd0 Kx]. fold d0 in Rd0, Kx.
      pose proof (rep_x s th t x HI Ht Hget Ex) as [Lx0 _]. pose proof (lead_range _ _ Lx0) as [Rx0 _].
      assert (Hne5 : rep_exempt s x <> -5) by (rewrite Hex; lia).
      destruct (rep_exempt_lt s th t x HI Ht Hget Ex Hne5) as (_ & Hdu & Sd & Hdn).
      fold d0 du in Hdu, Sd, Hdn.
      assert (Ld : lead s d0 = true).
      { pose proof (inv_wf _ HI) as W. cbn [gs] in W. apply (wf_dadlead _ W x Lx0). fold d0. lia. }
      assert (E1 : d0 =? c_EMPTY = false) by (apply Z.eqb_neq; apply lead_range in Ld; cs; lia).
      assert (E2 : d0 =? ERR = false) by (apply Z.eqb_neq; apply lead_range in Ld; cs; lia).
      rewrite E1, E2 in Hs. cbn [orb] in Hs.
      destruct (sched_take s1 d0) as [s2 b0] eqn:Etk. inversion Hs; subst s' j b.
      rewrite Hex in HXr.
      assert (Cj : st s1 d0 <= c_CANPIPE \/ uk s1 d0 = 0).
      { right. rewrite (rep_uk s th t x HI Ht Hget Ex). fold d0. rewrite Z.eqb_refl. exact Hdu. }
      pose proof (i2_take s1 th1 t d0 HXr H21 Ht1 Hg1 Ld Sd Cj) as X. rewrite Etk in X. cbn [fst snd] in X.
      destruct X as [X1 X2]. split; auto.
    + assert (Hex : rep_exempt s x = -5) by (unfold rep_exempt; fold d0 du; change (st s d0) with (st s1 d0); now rewrite Edad).
      rewrite Hex in HXr. exact (call2_tail s1 th1 HXr H21 Ht1 Hg1 s' j b Hs).
Qed.
End CALL2.

(* ---------------- runs ---------------- *)
Lemma init_i2 s : check_init s = true -> I2 s.
Proof.
  intros Hc. pose proof (init_inv s 0 Hc) as HI. use_inv HI.
  unfold check_init in Hc. rewrite !andb_true_iff in Hc.
  destruct Hc as ((((((((((((((((_ & _) & _) & _) & _) & _) & _) & Hall) & _) & _) & _) & _) & _) & _) & _) & _) & _).
  rewrite forallb_forall in Hall.
  assert (HP : forall p, lead s p = true -> nthZ (fb s) p = p /\ st s p <> c_CANPIPE).
  { intros p Lp. pose proof (lead_range _ _ Lp) as [Rp _]. specialize (Hall p (proj2 (in_cols _ _) Rp)).
    rewrite Lp in Hall. cbn [negb orb] in Hall. rewrite !andb_true_iff in Hall.
    destruct Hall as (((A & _) & C) & _). apply Z.eqb_eq in C. split; auto.
    destruct (nthZ (ptype s) p =? c_REGULAR_PANEL).
    - apply andb_true_iff in A. destruct A as [A _]. apply Z.eqb_eq in A. rewrite A. cs; lia.
    - apply Z.eqb_eq in A. rewrite A. cs; lia. }
  split.
  - intros p Lp. destruct (HP p Lp) as [-> _]. constructor.
  - intros p Lp Sp. destruct (HP p Lp) as [_ N]. congruence.
Qed.

Theorem step_inv2 g l g' : Inv g -> I2 (gs g) -> gstep g l = Some g' -> I2 (gs g').
Proof.
  intros HI H2 Hs. destruct g as [s th]. destruct l as [t|t|t]; cbn [gstep gs thr] in Hs;
    destruct (thr_get th t) as [m cur] eqn:G.
  - destruct (inb t (Z.of_nat (length th)) && (m =? M_WORK) && kids_done s cur) eqn:E; [|discriminate].
    rewrite !andb_true_iff in E. destruct E as ((E1 & E2) & E3). apply inb_true in E1. apply Z.eqb_eq in E2. subst m.
    inversion Hs; subst g'. cbn [gs]. now apply (i2_finish s th t cur).
  - destruct (inb t (Z.of_nat (length th)) && (m =? M_TEST)) eqn:E; [|discriminate]. inversion Hs; subst g'. exact H2.
  - destruct (inb t (Z.of_nat (length th)) && (m =? M_READY)) eqn:E; [|discriminate].
    rewrite !andb_true_iff in E. destruct E as (E1 & E2). apply inb_true in E1. apply Z.eqb_eq in E2. subst m.
    destruct (sched s cur) as [[s' j] b] eqn:Es. inversion Hs; subst g'. cbn [gs].
    apply (i2_call s th t cur HI H2 E1 G s' j b Es).
Qed.

Theorem run_inv2 ls : forall g g', Inv g -> I2 (gs g) -> grun g ls = Some g' -> Inv g' /\ I2 (gs g').
Proof.
  induction ls as [|l r IH]; intros g g' HI H2 Hr; cbn [grun] in Hr.
  - inversion Hr; subst; auto.
  - destruct (gstep g l) as [g1|] eqn:E; [|discriminate]. eapply IH; [| |exact Hr].
    + eapply step_inv; eauto.
    + eapply step_inv2; eauto.
Qed.

(* C03 (scheduler level): in every reachable state, whenever the scheduler hands panel j with bcol b to a thread,
   in the state the thread then works in: b is a descendant-or-self panel of j that is not DONE and all of whose
   children are DONE; every proper descendant panel of j is DONE or BUSY, and the ones that are not DONE are
   exactly the chain of ancestors of b below j. *)
Theorem pipeline_handout s0 P g t cur s' j b :
  reachable s0 P g -> 0 <= t < tlen (thr g) -> thr_get (thr g) t = (M_READY, cur) ->
  sched (gs g) cur = (s', j, b) -> j <> c_EMPTY -> pipeline s' j b.
Proof.
  intros [Hc (ls & Hr)] Ht G Es Hj.
  destruct (run_inv2 ls _ _ (init_inv s0 P Hc) (init_i2 s0 Hc) Hr) as [HI H2].
  destruct g as [s th]. cbn [gs thr] in *.
  destruct (i2_call s th t cur HI H2 Ht G s' j b Es) as [_ X]. now apply X.
Qed.

(* every DONE panel has only DONE descendants (no update is ever missing below a finished panel), and a panel is
   marked DONE only when all its children are DONE -- so the thread that owns j has nothing left to wait for *)
Theorem done_closed s0 P g x p : reachable s0 P g -> anc (gs g) x p -> lead (gs g) p = true ->
  st (gs g) p = c_DONE -> st (gs g) x = c_DONE.
Proof.
  intros R A Lp Dp. apply reachable_inv in R. pose proof (inv_D _ R) as ID. unfold I_D in ID.
  apply (done_lift (gs g) ID x p A (or_introl Lp) Dp).
Qed.
