(* SchedFair.v -- FAIR TERMINATION of the scheduler / thread-loop model of SchedModel.v.

   Main results (all for every initial state accepted by check_init, every number of threads):
     fair_termination      : there is no infinite weakly-fair run;
     fair_termination_from : the same from any state satisfying Inv and ExitOK (in particular any reachable state);
     terminal_all_exit     : a reachable state in which no label is enabled has every thread in M_EXIT;
     can_always_terminate  : from every reachable state some finite run leads to a state with all threads in M_EXIT.

   The potential is
       Phi g = 2 * #(leading panels not DONE) + tasks_remain + #(threads not in M_EXIT)
               + #(threads in M_TEST / M_READY holding a finished panel not yet reported).
   Every step is non-increasing in Phi (phi_step); the "productive" steps -- LFinish, the LTest that reads
   tasks_remain <= 0, the LCall that reports a panel or receives one -- decrease it strictly.  The only other
   steps are the two halves of the polling loop (LTest reading tasks_remain > 0, LCall with nothing to report that
   receives EMPTY); weak fairness excludes an infinite tail made of those (no_quiet_tail). *)
From Coq Require Import ZArith List Bool Lia ZifyBool.
From SLU Require Import Consts SchedModel SchedBase SchedInv SchedSteps SchedCall1 SchedCall2 SchedCall3 SchedProofs
                        SchedPipe SchedBusy SchedWork.
Import ListNotations.
Local Open Scope Z_scope.

(* ------------------------------------------------------------------------------------------ *)
(* the statement                                                                               *)
Definition irun (s0 : sstate) (P : nat) (G : nat -> gstate) (sigma : nat -> label) : Prop :=
  G 0%nat = ginit s0 P /\ forall i, gstep (G i) (sigma i) = Some (G (S i)).
Definition lab_thread (l : label) : Z := match l with LFinish t | LTest t | LCall t => t end.
Definition enabled_thread (g : gstate) (t : Z) : Prop := exists l, lab_thread l = t /\ gstep g l <> None.
(* weak fairness over threads: a thread whose (unique) step is enabled from i on forever takes a step at some j >= i *)
Definition wfair (G : nat -> gstate) (sigma : nat -> label) : Prop :=
  forall t i, (forall j, (i <= j)%nat -> enabled_thread (G j) t) -> exists j, (i <= j)%nat /\ lab_thread (sigma j) = t.

Definition all_exited (g : gstate) : Prop :=
  forall t, 0 <= t < tlen (thr g) -> fst (thr_get (thr g) t) = M_EXIT.

(* ------------------------------------------------------------------------------------------ *)
(* inversion / introduction of single steps                                                    *)
Lemma gstep_fin_inv g t g' : gstep g (LFinish t) = Some g' ->
  exists c, 0 <= t < tlen (thr g) /\ thr_get (thr g) t = (M_WORK, c) /\ kids_done (gs g) c = true /\
            g' = mkG (set_pstate (gs g) (updZ (pstate (gs g)) c c_DONE)) (thr_upd (thr g) t (M_TEST, c)).
Proof.
  destruct g as [s th]. cbn [gstep gs thr]. destruct (thr_get th t) as [m c] eqn:G.
  destruct (inb t (Z.of_nat (length th)) && (m =? M_WORK) && kids_done s c) eqn:E; [|discriminate].
  rewrite !andb_true_iff in E. destruct E as ((E1 & E2) & E3). apply inb_true in E1. apply Z.eqb_eq in E2. subst m.
  intros H. inversion H. exists c. unfold tlen. repeat split; auto; lia.
Qed.

Lemma gstep_test_inv g t g' : gstep g (LTest t) = Some g' ->
  exists c, 0 <= t < tlen (thr g) /\ thr_get (thr g) t = (M_TEST, c) /\
            g' = mkG (gs g) (thr_upd (thr g) t (if 0 <? tasks (gs g) then M_READY else M_EXIT, c)).
Proof.
  destruct g as [s th]. cbn [gstep gs thr]. destruct (thr_get th t) as [m c] eqn:G.
  destruct (inb t (Z.of_nat (length th)) && (m =? M_TEST)) eqn:E; [|discriminate].
  rewrite !andb_true_iff in E. destruct E as (E1 & E2). apply inb_true in E1. apply Z.eqb_eq in E2. subst m.
  intros H. inversion H. exists c. unfold tlen. repeat split; auto; lia.
Qed.

Lemma gstep_call_inv g t g' : gstep g (LCall t) = Some g' ->
  exists c s' j b, 0 <= t < tlen (thr g) /\ thr_get (thr g) t = (M_READY, c) /\ sched (gs g) c = (s', j, b) /\
            g' = mkG s' (thr_upd (thr g) t (if j =? c_EMPTY then M_TEST else M_WORK, j)).
Proof.
  destruct g as [s th]. cbn [gstep gs thr]. destruct (thr_get th t) as [m c] eqn:G.
  destruct (inb t (Z.of_nat (length th)) && (m =? M_READY)) eqn:E; [|discriminate].
  rewrite !andb_true_iff in E. destruct E as (E1 & E2). apply inb_true in E1. apply Z.eqb_eq in E2. subst m.
  destruct (sched s c) as [[s' j] b] eqn:Es.
  intros H. inversion H. exists c, s', j, b. unfold tlen. repeat split; auto; lia.
Qed.

Lemma gstep_fin_intro g t c : 0 <= t < tlen (thr g) -> thr_get (thr g) t = (M_WORK, c) -> kids_done (gs g) c = true ->
  gstep g (LFinish t) = Some (mkG (set_pstate (gs g) (updZ (pstate (gs g)) c c_DONE)) (thr_upd (thr g) t (M_TEST, c))).
Proof.
  intros Ht G K. cbn [gstep]. rewrite G.
  assert (E : inb t (Z.of_nat (length (thr g))) = true) by (apply inb_true; exact Ht).
  rewrite E, K, Z.eqb_refl. reflexivity.
Qed.

Lemma gstep_test_intro g t c : 0 <= t < tlen (thr g) -> thr_get (thr g) t = (M_TEST, c) ->
  gstep g (LTest t) = Some (mkG (gs g) (thr_upd (thr g) t (if 0 <? tasks (gs g) then M_READY else M_EXIT, c))).
Proof.
  intros Ht G. cbn [gstep]. rewrite G.
  assert (E : inb t (Z.of_nat (length (thr g))) = true) by (apply inb_true; exact Ht).
  rewrite E, Z.eqb_refl. reflexivity.
Qed.

Lemma gstep_call_intro g t c s' j b : 0 <= t < tlen (thr g) -> thr_get (thr g) t = (M_READY, c) ->
  sched (gs g) c = (s', j, b) ->
  gstep g (LCall t) = Some (mkG s' (thr_upd (thr g) t (if j =? c_EMPTY then M_TEST else M_WORK, j))).
Proof.
  intros Ht G Es. cbn [gstep]. rewrite G.
  assert (E : inb t (Z.of_nat (length (thr g))) = true) by (apply inb_true; exact Ht).
  rewrite E, Z.eqb_refl, Es. reflexivity.
Qed.

(* what a step does to the thread table *)
Lemma step_thr g l g' : gstep g l = Some g' ->
  0 <= lab_thread l < tlen (thr g) /\ exists v, thr g' = thr_upd (thr g) (lab_thread l) v.
Proof.
  intros Hs. destruct l as [t|t|t]; cbn [lab_thread].
  - destruct (gstep_fin_inv _ _ _ Hs) as (c & Ht & _ & _ & ->). cbn [thr]. eauto.
  - destruct (gstep_test_inv _ _ _ Hs) as (c & Ht & _ & ->). cbn [thr]. eauto.
  - destruct (gstep_call_inv _ _ _ Hs) as (c & s' & j & b & Ht & _ & _ & ->). cbn [thr]. eauto.
Qed.

Lemma step_tlen g l g' : gstep g l = Some g' -> tlen (thr g') = tlen (thr g).
Proof. intros Hs. destruct (step_thr _ _ _ Hs) as (_ & v & ->). apply tlen_upd. Qed.

Lemma step_other g l g' t : gstep g l = Some g' -> t <> lab_thread l -> thr_get (thr g') t = thr_get (thr g) t.
Proof.
  intros Hs Hne. destruct (step_thr _ _ _ Hs) as (Ht & v & ->). rewrite thr_get_upd by exact Ht.
  destruct (t =? lab_thread l) eqn:E; [apply Z.eqb_eq in E; congruence | reflexivity].
Qed.

Lemma run_tlen ls : forall g g', grun g ls = Some g' -> tlen (thr g') = tlen (thr g).
Proof.
  induction ls as [|l r IH]; intros g g' H; cbn [grun] in H; [inversion H; subst; reflexivity|].
  destruct (gstep g l) as [g1|] eqn:E; [|discriminate]. rewrite (IH _ _ H). eapply step_tlen; eauto.
Qed.

Lemma grun_app l1 : forall g g1 l2 g2, grun g l1 = Some g1 -> grun g1 l2 = Some g2 -> grun g (l1 ++ l2) = Some g2.
Proof.
  induction l1 as [|l r IH]; intros g g1 l2 g2 H1 H2; cbn [grun app] in *.
  - inversion H1; subst. exact H2.
  - destruct (gstep g l) as [g'|]; [|discriminate]. eapply IH; eauto.
Qed.

(* which threads are enabled *)
Lemma enabled_test g t c : 0 <= t < tlen (thr g) -> thr_get (thr g) t = (M_TEST, c) -> enabled_thread g t.
Proof. intros Ht G. exists (LTest t). split; [reflexivity|]. rewrite (gstep_test_intro g t c Ht G). discriminate. Qed.

Lemma enabled_ready g t c : 0 <= t < tlen (thr g) -> thr_get (thr g) t = (M_READY, c) -> enabled_thread g t.
Proof.
  intros Ht G. exists (LCall t). split; [reflexivity|]. destruct (sched (gs g) c) as [[s' j] b] eqn:Es.
  rewrite (gstep_call_intro g t c s' j b Ht G Es). discriminate.
Qed.

Lemma enabled_work g t c : 0 <= t < tlen (thr g) -> thr_get (thr g) t = (M_WORK, c) -> kids_done (gs g) c = true ->
  enabled_thread g t.
Proof. intros Ht G K. exists (LFinish t). split; [reflexivity|]. rewrite (gstep_fin_intro g t c Ht G K). discriminate. Qed.

(* ------------------------------------------------------------------------------------------ *)
(* counting threads                                                                            *)
Definition cnt (f : Z * Z -> bool) (th : list (Z * Z)) : Z := Z.of_nat (length (filter f th)).

Lemma cnt_nonneg f th : 0 <= cnt f th.
Proof. unfold cnt; lia. Qed.

Lemma cnt_upd_nat f : forall th (i : nat) v d, (i < length th)%nat ->
  cnt f (thr_upd_nat th i v) = cnt f th - Z.b2z (f (nth i th d)) + Z.b2z (f v).
Proof.
  unfold cnt. induction th as [|h r IH]; intros [|i] v d Hi; cbn [length] in Hi; try lia.
  - cbn [thr_upd_nat filter nth]. destruct (f h), (f v); cbn [length Z.b2z]; lia.
  - cbn [thr_upd_nat filter nth]. specialize (IH i v d ltac:(lia)).
    destruct (f h); cbn [length]; lia.
Qed.

Lemma cnt_upd f th t v : 0 <= t < tlen th ->
  cnt f (thr_upd th t v) = cnt f th - Z.b2z (f (thr_get th t)) + Z.b2z (f v).
Proof.
  unfold tlen, thr_upd, thr_get. intros Ht. destruct (t <? 0) eqn:E; [lia|].
  apply cnt_upd_nat. lia.
Qed.

(* a decidable property of threads either has a witness or fails everywhere *)
Lemma thr_dec (f : Z * Z -> bool) th :
  (exists t, 0 <= t < tlen th /\ f (thr_get th t) = true) \/ (forall t, 0 <= t < tlen th -> f (thr_get th t) = false).
Proof.
  destruct (existsb f th) eqn:E.
  - left. apply existsb_exists in E. destruct E as (mc & Hin & Hf).
    destruct (In_nth _ _ (M_EXIT, c_EMPTY) Hin) as (k & Hk & Hn).
    exists (Z.of_nat k). unfold tlen, thr_get. split; [lia|].
    destruct (Z.of_nat k <? 0) eqn:E0; [lia|]. rewrite Nat2Z.id, Hn. exact Hf.
  - right. intros t Ht. unfold tlen in Ht. unfold thr_get. destruct (t <? 0) eqn:E0; [lia|].
    destruct (f (nth (Z.to_nat t) th (M_EXIT, c_EMPTY))) eqn:Ef; auto.
    assert (X : existsb f th = true).
    { apply existsb_exists. exists (nth (Z.to_nat t) th (M_EXIT, c_EMPTY)). split; [apply nth_In; lia | exact Ef]. }
    congruence.
Qed.

(* ------------------------------------------------------------------------------------------ *)
(* the potential                                                                               *)
Definition notdone (s : sstate) : Z := countb (fun p => lead s p && negb (st s p =? c_DONE)) (cols (sn s)).
Definition f_nonexit (mc : Z * Z) : bool := negb (fst mc =? M_EXIT).
Definition f_unrep (mc : Z * Z) : bool := ((fst mc =? M_TEST) || (fst mc =? M_READY)) && negb (snd mc =? c_EMPTY).
Definition Phi (g : gstate) : Z :=
  2 * notdone (gs g) + tasks (gs g) + cnt f_nonexit (thr g) + cnt f_unrep (thr g).

(* the steps that make progress; all others are iterations of the polling loop *)
Definition productive (g : gstate) (l : label) : Prop :=
  match l with
  | LFinish _ => True
  | LTest _ => tasks (gs g) <= 0
  | LCall t => snd (thr_get (thr g) t) <> c_EMPTY \/
               snd (fst (sched (gs g) (snd (thr_get (thr g) t)))) <> c_EMPTY
  end.

Lemma productive_dec g l : {productive g l} + {~ productive g l}.
Proof.
  destruct l as [t|t|t]; cbn [productive].
  - left; exact I.
  - apply Z_le_dec.
  - destruct (Z.eq_dec (snd (thr_get (thr g) t)) c_EMPTY) as [E1|E1]; [|left; now left].
    destruct (Z.eq_dec (snd (fst (sched (gs g) (snd (thr_get (thr g) t))))) c_EMPTY) as [E2|E2]; [|left; now right].
    right. tauto.
Qed.

Lemma countb_dec1 f g l x :
  (forall y, g y = true -> f y = true) -> In x l -> f x = true -> g x = false -> countb g l <= countb f l - 1.
Proof.
  intros Hgf. unfold countb. induction l as [|a r IH]; intros Hin Fx Gx; [inversion Hin|].
  cbn [filter]. destruct Hin as [->|Hin].
  - rewrite Fx, Gx. cbn [length]. pose proof (countb_le f g r Hgf) as X. unfold countb in X. lia.
  - specialize (IH Hin Fx Gx). destruct (g a) eqn:Ga.
    + rewrite (Hgf a Ga). cbn [length]. lia.
    + destruct (f a); cbn [length]; lia.
Qed.

Lemma notdone_nonneg s : 0 <= notdone s.
Proof. apply countb_nonneg. Qed.

Lemma Phi_nonneg g : Inv g -> 0 <= Phi g.
Proof.
  intros HI. unfold Phi. pose proof (inv_tasks _ HI) as T. unfold I_tasks in T. rewrite T.
  pose proof (notdone_nonneg (gs g)). pose proof (countb_nonneg (untaken (gs g)) (cols (sn (gs g)))).
  unfold tasks_spec. pose proof (cnt_nonneg f_nonexit (thr g)). pose proof (cnt_nonneg f_unrep (thr g)). lia.
Qed.

Lemma notdone_mono s s' : same_static s s' -> (forall p, st s p = c_DONE -> st s' p = c_DONE) -> notdone s' <= notdone s.
Proof.
  intros FS Hd. unfold notdone. rewrite (fr_sn _ _ FS). apply countb_le. intros p.
  rewrite (fr_lead _ _ FS). rewrite !andb_true_iff, !negb_true_iff, !Z.eqb_neq. intros [L N]. split; auto.
Qed.

Theorem phi_step g l g' : Inv g -> gstep g l = Some g' ->
  Phi g' <= Phi g /\ (productive g l -> Phi g' <= Phi g - 1).
Proof.
  intros HI Hs. pose proof (step_inv _ _ _ HI Hs) as HI'.
  pose proof (step_static _ _ _ HI Hs) as FS.
  pose proof (notdone_mono _ _ FS (fun p => step_done_mono g l g' p HI Hs)) as ND.
  pose proof (step_tasks_mono _ _ _ HI Hs) as TM.
  unfold Phi. destruct l as [t|t|t]; cbn [productive].
  - (* Finish *)
    destruct (gstep_fin_inv _ _ _ Hs) as (c & Ht & G & K & E).
    assert (ND1 : notdone (gs g') <= notdone (gs g) - 1).
    { destruct g as [s th]. cbn [gs thr] in *. destruct (fin_cur s th t c HI Ht G) as [Lc Bc].
      unfold notdone. rewrite (fr_sn _ _ FS). apply countb_dec1 with (x := c).
      - intros p. rewrite (fr_lead _ _ FS). rewrite !andb_true_iff, !negb_true_iff, !Z.eqb_neq. intros [L N]. split; auto.
        intros Hd. apply N. exact (step_done_mono _ _ _ p HI Hs Hd).
      - apply in_cols. now apply lead_range in Lc.
      - rewrite Lc, Bc. reflexivity.
      - subst g'. cbn [gs]. rewrite (fin_st s th t c HI Ht G), Z.eqb_refl. cbn. now rewrite andb_false_r. }
    subst g'. cbn [gs thr tasks set_pstate] in *. rewrite !cnt_upd by exact Ht. rewrite G.
    unfold f_nonexit, f_unrep. cbn [fst snd]. cs. cbn [Z.eqb Pos.eqb negb orb andb Z.b2z].
    destruct (negb (c =? -1)); cbn [Z.b2z]; lia.
  - (* Test *)
    destruct (gstep_test_inv _ _ _ Hs) as (c & Ht & G & E).
    subst g'. cbn [gs thr] in *. rewrite !cnt_upd by exact Ht. rewrite G.
    unfold f_nonexit, f_unrep. cbn [fst snd]. destruct (0 <? tasks (gs g)) eqn:Et.
    + cs. cbn [Z.eqb Pos.eqb negb orb andb Z.b2z]. split; [lia|]. intros. lia.
    + cs. cbn [Z.eqb Pos.eqb negb orb andb Z.b2z]. destruct (negb (c =? -1)); cbn [Z.b2z]; lia.
  - (* Call *)
    destruct (gstep_call_inv _ _ _ Hs) as (c & s' & j & b & Ht & G & Es & E).
    destruct g as [s th]. cbn [gs thr] in *.
    destruct (inv_call s th t c HI Ht G s' j b Es) as (_ & _ & _ & A & B).
    rewrite G. cbn [fst snd]. rewrite Es. cbn [fst snd].
    assert (TM1 : j <> c_EMPTY -> tasks (gs g') <= tasks s - 1).
    { intros Hj. destruct (B Hj) as (Lj & Uj & _ & U).
      rewrite (inv_tasks _ HI'), (inv_tasks _ HI). cbn [gs]. unfold tasks_spec. rewrite (fr_sn _ _ FS). subst g'. cbn [gs] in *.
      apply countb_dec1 with (x := j).
      - intros p. rewrite (U p). destruct (p =? j); [discriminate | auto].
      - apply in_cols. now apply lead_range in Lj.
      - exact Uj.
      - now rewrite (U j), Z.eqb_refl. }
    subst g'. cbn [gs thr] in *. rewrite !cnt_upd by exact Ht. rewrite G.
    unfold f_nonexit, f_unrep. cbn [fst snd].
    destruct (j =? c_EMPTY) eqn:Ej.
    + apply Z.eqb_eq in Ej. subst j. cs. cbn [Z.eqb Pos.eqb negb orb andb Z.b2z].
      destruct (c =? -1) eqn:Ec; cbn [negb Z.b2z]; split; lia.
    + apply Z.eqb_neq in Ej. specialize (TM1 Ej). cs. cbn [Z.eqb Pos.eqb negb orb andb Z.b2z].
      destruct (negb (c =? -1)); cbn [Z.b2z]; lia.
Qed.

(* ------------------------------------------------------------------------------------------ *)
(* facts about single steps used by both termination proofs                                    *)
Lemma step_kids_done g l g' c : Inv g -> gstep g l = Some g' -> kids_done (gs g) c = true -> kids_done (gs g') c = true.
Proof.
  intros HI Hs K. pose proof (step_static _ _ _ HI Hs) as FS.
  unfold kids_done in *. rewrite forallb_forall in *. rewrite (fr_sn _ _ FS). intros p Hp. specialize (K p Hp).
  rewrite (fr_lead _ _ FS), (fr_dad _ _ FS).
  apply orb_true_iff in K. apply orb_true_iff. destruct K as [K|K]; [now left | right].
  apply Z.eqb_eq in K. apply Z.eqb_eq. exact (step_done_mono g l g' p HI Hs K).
Qed.

Lemma ginit_exitok s P : ExitOK (ginit s P).
Proof.
  intros t Ht M. cbn [ginit thr] in *. unfold tlen in Ht. rewrite repeat_length in Ht.
  rewrite thr_get_repeat in M by lia. cbn in M. cs. lia.
Qed.

Lemma reachable_exitok s0 P g : reachable s0 P g -> ExitOK g.
Proof.
  intros [Hc (ls & Hr)]. eapply run_exitok; [apply init_inv; exact Hc | apply ginit_exitok | exact Hr].
Qed.

(* the queue invariant the progress argument needs: when panels remain and no thread holds a panel (none BUSY, no
   finished panel unreported), some panel is CANGO or CANPIPE -- hence queued -- and the scheduler hands one out *)
Lemma untaken_has_ready s th : Inv (mkG s th) ->
  (forall t, 0 <= t < tlen th -> snd (thr_get th t) = c_EMPTY) ->
  forall (n : nat) p, (Z.to_nat p < n)%nat -> lead s p = true -> c_BUSY < st s p ->
  exists p', lead s p' = true /\ (st s p' = c_CANGO \/ st s p' = c_CANPIPE).
Proof.
  intros HI Hall. use_inv HI. induction n as [|n IH]; intros p Hn Lp Sp; [lia|].
  destruct ISTATES as (_ & IS). destruct (IS p Lp) as [S1 S2].
  destruct (wf_types _ IWF p Lp) as [T|T].
  - destruct (S1 T) as [U|[U|[U|U]]]; try (cs; lia).
    + (* UNREADY: an unreported child exists; nobody holds it, so it is untaken and smaller *)
      pose proof (IREADY p Lp T Sp) as R1. rewrite (IUKIDS p (or_introl Lp)) in R1. unfold ukspec in R1.
      apply countb_pos_exists in R1. destruct R1 as (c & _ & KU). apply andb_true_iff in KU. destruct KU as [K U1].
      pose proof (proj1 (kid_iff _ _ _) K) as [Lc _]. pose proof (kid_lt _ _ _ IWF K) as Hlt.
      pose proof (lead_range _ _ Lc) as [Rc _].
      unfold unrep in U1. apply orb_true_iff in U1. destruct U1 as [U1|U1].
      * apply Z.ltb_lt in U1. apply (IH c); auto. lia.
      * apply heldb_iff in U1. destruct U1 as (t & Ht & Et). rewrite (Hall t Ht) in Et. cs. lia.
    + exists p. auto.
  - destruct (S2 T) as [U|[U|U]]; try (cs; lia). exists p. auto.
Qed.

Lemma sched_empty_gives s th : Inv (mkG s th) -> 0 < tasks s ->
  (forall t, 0 <= t < tlen th -> snd (thr_get th t) = c_EMPTY) ->
  snd (fst (sched s c_EMPTY)) <> c_EMPTY.
Proof.
  intros HI Hpos Hall. use_inv HI.
  assert (Hex : exists p, lead s p = true /\ (st s p = c_CANGO \/ st s p = c_CANPIPE)).
  { rewrite ITASKS in Hpos. unfold tasks_spec in Hpos.
    destruct (countb_pos_exists (untaken s) (cols (sn s)) ltac:(lia)) as (p & _ & U).
    unfold untaken in U. apply andb_true_iff in U. destruct U as [L U]. apply Z.ltb_lt in U.
    apply (untaken_has_ready s th HI Hall (S (Z.to_nat p)) p); auto. }
  destruct Hex as (p & Lp & Sp).
  destruct IQUEUE as (Q1 & Q2 & Q3 & Q4 & Q5 & Q6).
  destruct (Q6 p Lp Sp) as (i & Hi & Ei).
  assert (HQ : Qok s) by (unfold Qok; lia).
  assert (HF : (Z.to_nat (qcount s) < fuel_of s)%nat) by (unfold fuel_of; lia).
  destruct (deq_spec (fuel_of s) s HQ HF) as (h' & j0 & D & R & A & B).
  assert (Hj0 : j0 <> c_EMPTY).
  { intros He. destruct (A He) as [A1 A2]. specialize (A2 i ltac:(lia)). rewrite Ei in A2. destruct Sp as [Sp|Sp]; rewrite Sp in A2; cs; lia. }
  unfold sched, sched_choose. rewrite Z.eqb_refl, D.
  destruct ((j0 =? c_EMPTY) || (j0 =? ERR)); cbn [fst snd]; exact Hj0.   (* sched_take reduces to a pair *)
Qed.

Lemma classic_False (P : Prop) : (P -> False) -> (~ P -> False) -> False.
Proof. tauto. Qed.

(* ------------------------------------------------------------------------------------------ *)
(* infinite runs                                                                               *)
Section FAIR.
Variable G : nat -> gstate.
Variable sigma : nat -> label.
Hypothesis Hstep : forall i, gstep (G i) (sigma i) = Some (G (S i)).
Hypothesis HI0 : Inv (G 0%nat).
Hypothesis HE0 : ExitOK (G 0%nat).
Hypothesis Hfair : wfair G sigma.

Let N := tlen (thr (G 0%nat)).

Lemma f_inv i : Inv (G i).
Proof. induction i as [|i IH]; [exact HI0|]. exact (step_inv _ _ _ IH (Hstep i)). Qed.

Lemma f_exitok i : ExitOK (G i).
Proof. induction i as [|i IH]; [exact HE0|]. exact (step_exitok _ _ _ (f_inv i) IH (Hstep i)). Qed.

Lemma f_tlen i : tlen (thr (G i)) = N.
Proof. induction i as [|i IH]; [reflexivity|]. rewrite (step_tlen _ _ _ (Hstep i)). exact IH. Qed.

Lemma f_phi_mono i j : (i <= j)%nat -> Phi (G j) <= Phi (G i).
Proof.
  induction 1 as [|j Hle IH]; [lia|].
  pose proof (proj1 (phi_step _ _ _ (f_inv j) (Hstep j))). lia.
Qed.

Lemma f_tasks_mono i j : (i <= j)%nat -> tasks (gs (G j)) <= tasks (gs (G i)).
Proof.
  induction 1 as [|j Hle IH]; [lia|].
  pose proof (step_tasks_mono _ _ _ (f_inv j) (Hstep j)). lia.
Qed.

(* a thread that stays enabled as long as it does not move, and whose move is impossible, contradicts fairness *)
Lemma stuck_thread (t : Z) (S : nat -> Prop) (i : nat) :
  S i ->
  (forall k, (i <= k)%nat -> S k -> enabled_thread (G k) t) ->
  (forall k, (i <= k)%nat -> S k -> lab_thread (sigma k) <> t -> S (Datatypes.S k)) ->
  (forall k, (i <= k)%nat -> S k -> lab_thread (sigma k) = t -> False) -> False.
Proof.
  intros H0 Hen Hoth Hown.
  assert (Hall : forall k, (i <= k)%nat -> S k).
  { induction 1 as [|k Hle IH]; [exact H0|].
    destruct (Z.eq_dec (lab_thread (sigma k)) t) as [E|E]; [exfalso; eapply Hown; eauto | eapply Hoth; eauto]. }
  destruct (Hfair t i) as (j & Hj & Ej); [intros j Hj; apply Hen; auto|].
  eapply Hown; eauto.
Qed.

(* no productive step from i on *)
Definition NP (i : nat) : Prop := forall j, (i <= j)%nat -> ~ productive (G j) (sigma j).

Lemma NP_mono i j : (i <= j)%nat -> NP i -> NP j.
Proof. intros Hij H k Hk. apply H. lia. Qed.

(* the step of thread t at time k, by the mode of t *)
Lemma own_step_work k t c : thr_get (thr (G k)) t = (M_WORK, c) -> lab_thread (sigma k) = t -> sigma k = LFinish t.
Proof.
  intros A He. pose proof (Hstep k) as Hs. destruct (sigma k) as [t0|t0|t0]; cbn [lab_thread] in He; subst t0.
  - reflexivity.
  - destruct (gstep_test_inv _ _ _ Hs) as (c0 & _ & G0 & _). rewrite A in G0. cs. discriminate G0.
  - destruct (gstep_call_inv _ _ _ Hs) as (c0 & s' & j & b & _ & G0 & _). rewrite A in G0. cs. discriminate G0.
Qed.

Lemma own_step_test k t c : thr_get (thr (G k)) t = (M_TEST, c) -> lab_thread (sigma k) = t ->
  sigma k = LTest t /\
  thr_get (thr (G (S k))) t = (if 0 <? tasks (gs (G k)) then M_READY else M_EXIT, c).
Proof.
  intros A He. pose proof (Hstep k) as Hs. destruct (sigma k) as [t0|t0|t0]; cbn [lab_thread] in He; subst t0.
  - destruct (gstep_fin_inv _ _ _ Hs) as (c0 & _ & G0 & _). rewrite A in G0. cs. discriminate G0.
  - split; [reflexivity|]. destruct (gstep_test_inv _ _ _ Hs) as (c0 & Ht & G0 & E). rewrite A in G0. inversion G0; subst c0.
    rewrite E. cbn [thr]. rewrite thr_get_upd by exact Ht. now rewrite Z.eqb_refl.
  - destruct (gstep_call_inv _ _ _ Hs) as (c0 & s' & j & b & _ & G0 & _). rewrite A in G0. cs. discriminate G0.
Qed.

Lemma own_step_ready k t c : thr_get (thr (G k)) t = (M_READY, c) -> lab_thread (sigma k) = t ->
  sigma k = LCall t /\
  let j := snd (fst (sched (gs (G k)) c)) in
  thr_get (thr (G (S k))) t = (if j =? c_EMPTY then M_TEST else M_WORK, j).
Proof.
  intros A He. pose proof (Hstep k) as Hs. destruct (sigma k) as [t0|t0|t0]; cbn [lab_thread] in He; subst t0.
  - destruct (gstep_fin_inv _ _ _ Hs) as (c0 & _ & G0 & _). rewrite A in G0. cs. discriminate G0.
  - destruct (gstep_test_inv _ _ _ Hs) as (c0 & _ & G0 & _). rewrite A in G0. cs. discriminate G0.
  - split; [reflexivity|]. destruct (gstep_call_inv _ _ _ Hs) as (c0 & s' & j & b & Ht & G0 & Es & E).
    rewrite A in G0. inversion G0; subst c0. rewrite Es. cbn [fst snd].
    rewrite E. cbn [thr]. rewrite thr_get_upd by exact Ht. now rewrite Z.eqb_refl.
Qed.

(* (A) under NP nobody is working: the worker with the smallest panel could finish, stays able to, and must move *)
Lemma np_no_work i : NP i -> forall j t, (i <= j)%nat -> 0 <= t < N -> fst (thr_get (thr (G j)) t) = M_WORK -> False.
Proof.
  intros Hnp j t Hj Ht Hm.
  destruct (some_worker_can_finish (G j) (f_inv j)) as (t' & Ht' & En).
  { exists t. rewrite f_tlen. auto. }
  destruct (gstep (G j) (LFinish t')) as [g'|] eqn:Es; [|congruence].
  destruct (gstep_fin_inv _ _ _ Es) as (c & _ & Gt & K & _).
  rewrite f_tlen in Ht'.
  apply (stuck_thread t' (fun k => thr_get (thr (G k)) t' = (M_WORK, c) /\ kids_done (gs (G k)) c = true) j).
  - auto.
  - intros k Hk [A B]. apply (enabled_work _ _ c); auto. now rewrite f_tlen.
  - intros k Hk [A B] Hne. split.
    + rewrite (step_other _ _ _ t' (Hstep k)); auto.
    + exact (step_kids_done _ _ _ c (f_inv k) (Hstep k) B).
  - intros k Hk [A B] He. apply (Hnp k ltac:(lia)). rewrite (own_step_work k t' c A He). exact I.
Qed.

(* (C) under NP no thread at the loop holds a finished panel: its next call would report it *)
Lemma np_no_unrep_ready i : NP i -> forall j t c, (i <= j)%nat -> 0 <= t < N ->
  thr_get (thr (G j)) t = (M_READY, c) -> c <> c_EMPTY -> False.
Proof.
  intros Hnp j t c Hj Ht Gt Hc.
  apply (stuck_thread t (fun k => thr_get (thr (G k)) t = (M_READY, c)) j).
  - exact Gt.
  - intros k Hk A. apply (enabled_ready _ _ c); auto. now rewrite f_tlen.
  - intros k Hk A Hne. rewrite (step_other _ _ _ t (Hstep k)); auto.
  - intros k Hk A He. apply (Hnp k ltac:(lia)). destruct (own_step_ready k t c A He) as [El _].
    rewrite El. cbn [productive]. left. rewrite A. exact Hc.
Qed.

Lemma np_no_unrep_test i : NP i -> forall j t c, (i <= j)%nat -> 0 <= t < N ->
  thr_get (thr (G j)) t = (M_TEST, c) -> c <> c_EMPTY -> False.
Proof.
  intros Hnp j t c Hj Ht Gt Hc.
  apply (stuck_thread t (fun k => thr_get (thr (G k)) t = (M_TEST, c)) j).
  - exact Gt.
  - intros k Hk A. apply (enabled_test _ _ c); auto. now rewrite f_tlen.
  - intros k Hk A Hne. rewrite (step_other _ _ _ t (Hstep k)); auto.
  - intros k Hk A He. destruct (own_step_test k t c A He) as [El Gn].
    destruct (0 <? tasks (gs (G k))) eqn:Et.
    + apply (np_no_unrep_ready i Hnp (S k) t c ltac:(lia) Ht Gn Hc).
    + apply (Hnp k ltac:(lia)). rewrite El. cbn [productive]. lia.
Qed.

(* (D) under NP, tasks_remain <= 0 is impossible: the thread that moves now is back at the test after at most one
   empty call, and its test then reads tasks_remain <= 0 *)
Lemma np_tasks_le0 i : NP i -> tasks (gs (G i)) <= 0 -> False.
Proof.
  intros Hnp Hz. pose proof (Hstep i) as Hs. pose proof (Hnp i ltac:(lia)) as Hn.
  destruct (sigma i) as [t|t|t] eqn:El; cbn [productive] in Hn.
  - apply Hn. exact I.
  - apply Hn. exact Hz.
  - destruct (gstep_call_inv _ _ _ Hs) as (c & s' & j & b & Ht & Gt & Es & E).
    rewrite Gt in Hn. cbn [snd] in Hn. rewrite Es in Hn. cbn [fst snd] in Hn.
    destruct (Z.eq_dec j c_EMPTY) as [Ej|Ej]; [|apply Hn; now right].
    rewrite f_tlen in Ht.
    assert (Gn : thr_get (thr (G (S i))) t = (M_TEST, c_EMPTY)).
    { rewrite E. cbn [thr]. rewrite thr_get_upd by (rewrite f_tlen; exact Ht). rewrite Z.eqb_refl. subst j. now rewrite Z.eqb_refl. }
    apply (stuck_thread t (fun k => thr_get (thr (G k)) t = (M_TEST, c_EMPTY)) (S i)).
    + exact Gn.
    + intros k Hk A. apply (enabled_test _ _ c_EMPTY); auto. now rewrite f_tlen.
    + intros k Hk A Hne. rewrite (step_other _ _ _ t (Hstep k)); auto.
    + intros k Hk A He. destruct (own_step_test k t c_EMPTY A He) as [Elk _].
      apply (Hnp k ltac:(lia)). rewrite Elk. cbn [productive].
      pose proof (f_tasks_mono i k ltac:(lia)). lia.
Qed.

(* (E) under NP, tasks_remain > 0 forever is impossible: nobody works, nobody has left, nobody holds a panel, so the
   queue holds a panel that the next call receives *)
Lemma np_tasks_pos i : NP i -> (forall k, (i <= k)%nat -> 0 < tasks (gs (G k))) -> False.
Proof.
  intros Hnp Hpos.
  assert (Hall : forall k t, (i <= k)%nat -> 0 <= t < N -> snd (thr_get (thr (G k)) t) = c_EMPTY).
  { intros k t Hk Ht. pose proof (inv_threads _ (f_inv k)) as (A & _).
    specialize (A t ltac:(rewrite f_tlen; exact Ht)).
    destruct (thr_get (thr (G k)) t) as [m c] eqn:Gt. cbn [snd]. destruct A as (Am & _).
    destruct (Z.eq_dec c c_EMPTY) as [|Hc]; auto. exfalso.
    destruct Am as [-> | [-> | [-> | ->]]].
    - apply (np_no_work i Hnp k t Hk Ht). now rewrite Gt.
    - exact (np_no_unrep_test i Hnp k t c Hk Ht Gt Hc).
    - exact (np_no_unrep_ready i Hnp k t c Hk Ht Gt Hc).
    - pose proof (f_exitok k t ltac:(rewrite f_tlen; exact Ht)) as X. rewrite Gt in X. specialize (X eq_refl).
      specialize (Hpos k Hk). lia. }
  assert (Hgive : forall k, (i <= k)%nat -> snd (fst (sched (gs (G k)) c_EMPTY)) <> c_EMPTY).
  { intros k Hk. pose proof (f_inv k) as HIk. destruct (G k) as [s th] eqn:Egk. cbn [gs].
    apply (sched_empty_gives s th HIk).
    - specialize (Hpos k Hk). rewrite Egk in Hpos. exact Hpos.
    - intros t Ht. specialize (Hall k t Hk). rewrite Egk in Hall. cbn [thr] in Hall. apply Hall.
      pose proof (f_tlen k) as X. rewrite Egk in X. cbn [thr] in X. lia. }
  pose proof (Hstep i) as Hs. pose proof (Hnp i ltac:(lia)) as Hn.
  destruct (sigma i) as [t|t|t] eqn:El; cbn [productive] in Hn.
  - apply Hn. exact I.
  - destruct (gstep_test_inv _ _ _ Hs) as (c & Ht & Gt & E). rewrite f_tlen in Ht.
    assert (Hc : c = c_EMPTY) by (pose proof (Hall i t ltac:(lia) Ht) as X; rewrite Gt in X; exact X). subst c.
    assert (Gn : thr_get (thr (G (S i))) t = (M_READY, c_EMPTY)).
    { rewrite E. cbn [thr]. rewrite thr_get_upd by (rewrite f_tlen; exact Ht). rewrite Z.eqb_refl.
      assert (Et : 0 <? tasks (gs (G i)) = true) by (apply Z.ltb_lt; apply Hpos; lia). now rewrite Et. }
    apply (stuck_thread t (fun k => thr_get (thr (G k)) t = (M_READY, c_EMPTY)) (S i)).
    + exact Gn.
    + intros k Hk A. apply (enabled_ready _ _ c_EMPTY); auto. now rewrite f_tlen.
    + intros k Hk A Hne. rewrite (step_other _ _ _ t (Hstep k)); auto.
    + intros k Hk A He. destruct (own_step_ready k t c_EMPTY A He) as [Elk _].
      apply (Hnp k ltac:(lia)). rewrite Elk. cbn [productive]. right. rewrite A. cbn [snd]. apply Hgive. lia.
  - destruct (gstep_call_inv _ _ _ Hs) as (c & s' & j & b & Ht & Gt & Es & E). rewrite f_tlen in Ht.
    apply Hn. right. rewrite Gt. cbn [snd].
    assert (Hc : c = c_EMPTY) by (pose proof (Hall i t ltac:(lia) Ht) as X; rewrite Gt in X; exact X). subst c.
    apply Hgive. lia.
Qed.

(* weak fairness excludes an infinite tail of polling-loop steps *)
Theorem no_quiet_tail i : NP i -> False.
Proof.
  intros Hnp. apply (classic_False (exists k, (i <= k)%nat /\ tasks (gs (G k)) <= 0)).
  - intros (k & Hk & Hz). exact (np_tasks_le0 k (NP_mono i k Hk Hnp) Hz).
  - intros Hno. apply (np_tasks_pos i Hnp). intros k Hk.
    destruct (Z_lt_dec 0 (tasks (gs (G k)))) as [|Hn]; auto. exfalso. apply Hno. exists k. split; [exact Hk | lia].
Qed.

Lemma fair_no_run_aux : forall (n : nat) i, Phi (G i) < Z.of_nat n -> False.
Proof.
  induction n as [|n IH]; intros i Hn.
  - pose proof (Phi_nonneg _ (f_inv i)). lia.
  - apply (classic_False (exists j, (i <= j)%nat /\ productive (G j) (sigma j))).
    + intros (j & Hj & Hp). apply (IH (S j)).
      pose proof (proj2 (phi_step _ _ _ (f_inv j) (Hstep j)) Hp). pose proof (f_phi_mono i j Hj). lia.
    + intros Hno. apply (no_quiet_tail i). intros j Hj Hp. apply Hno. eauto.
Qed.

Theorem fair_no_run : False.
Proof. apply (fair_no_run_aux (S (Z.to_nat (Phi (G 0%nat)))) 0%nat). pose proof (Phi_nonneg _ HI0). lia. Qed.
End FAIR.

(* ------------------------------------------------------------------------------------------ *)
(* FAIR TERMINATION                                                                            *)
Theorem fair_termination_from : forall (G : nat -> gstate) (sigma : nat -> label),
  Inv (G 0%nat) -> ExitOK (G 0%nat) ->
  ~ ((forall i, gstep (G i) (sigma i) = Some (G (S i))) /\ wfair G sigma).
Proof. intros G sigma HI HE [Hs Hf]. exact (fair_no_run G sigma Hs HI HE Hf). Qed.

Theorem fair_termination : forall s0 P G sigma, check_init s0 = true -> ~ (irun s0 P G sigma /\ wfair G sigma).
Proof.
  intros s0 P G sigma Hc [[H0 Hs] Hf].
  apply (fair_termination_from G sigma).
  - rewrite H0. now apply init_inv.
  - rewrite H0. apply ginit_exitok.
  - split; assumption.
Qed.

(* ------------------------------------------------------------------------------------------ *)
(* terminal states                                                                             *)
Theorem terminal_all_exit s0 P g : reachable s0 P g -> (forall l, gstep g l = None) -> all_exited g.
Proof.
  intros R Hno t Ht. destruct (Z.eq_dec (fst (thr_get (thr g) t)) M_EXIT) as [|Hne]; auto. exfalso.
  destruct (no_stuck_state g (reachable_inv _ _ _ R)) as (l & Hl); [exists t; auto|]. apply Hl. apply Hno.
Qed.

(* conversely (no hypothesis needed): once every thread has left the loop nothing is enabled *)
Theorem all_exit_terminal g : all_exited g -> forall l, gstep g l = None.
Proof.
  intros Hall l. destruct (gstep g l) as [g'|] eqn:Hs; [exfalso | reflexivity].
  destruct l as [t|t|t].
  - destruct (gstep_fin_inv _ _ _ Hs) as (c & Ht & G0 & _). specialize (Hall t Ht). rewrite G0 in Hall. cbn in Hall. cs. lia.
  - destruct (gstep_test_inv _ _ _ Hs) as (c & Ht & G0 & _). specialize (Hall t Ht). rewrite G0 in Hall. cbn in Hall. cs. lia.
  - destruct (gstep_call_inv _ _ _ Hs) as (c & s' & j & b & Ht & G0 & _). specialize (Hall t Ht). rewrite G0 in Hall. cbn in Hall. cs. lia.
Qed.

(* ------------------------------------------------------------------------------------------ *)
(* a terminating run exists from every state satisfying the invariants (constructively)        *)
Lemma prog_ready g t c : Inv g -> 0 <= t < tlen (thr g) -> thr_get (thr g) t = (M_READY, c) ->
  (c <> c_EMPTY \/ snd (fst (sched (gs g) c)) <> c_EMPTY) ->
  exists g1, gstep g (LCall t) = Some g1 /\ Phi g1 <= Phi g - 1.
Proof.
  intros HI Ht G0 Hp. destruct (sched (gs g) c) as [[s' j] b] eqn:Es.
  pose proof (gstep_call_intro g t c s' j b Ht G0 Es) as Hs.
  eexists. split; [exact Hs|]. apply (proj2 (phi_step _ _ _ HI Hs)).
  cbn [productive]. rewrite G0. cbn [snd]. rewrite Es. exact Hp.
Qed.

Lemma prog_test_ready g t c : Inv g -> 0 <= t < tlen (thr g) -> thr_get (thr g) t = (M_TEST, c) -> 0 < tasks (gs g) ->
  (c <> c_EMPTY \/ snd (fst (sched (gs g) c)) <> c_EMPTY) ->
  exists g2, grun g [LTest t; LCall t] = Some g2 /\ Phi g2 <= Phi g - 1.
Proof.
  intros HI Ht G0 Hpos Hp.
  pose proof (gstep_test_intro g t c Ht G0) as Hs.
  assert (Et : 0 <? tasks (gs g) = true) by (apply Z.ltb_lt; exact Hpos). rewrite Et in Hs.
  set (g1 := mkG (gs g) (thr_upd (thr g) t (M_READY, c))) in *.
  pose proof (step_inv _ _ _ HI Hs) as HI1. pose proof (proj1 (phi_step _ _ _ HI Hs)) as P1.
  assert (Ht1 : 0 <= t < tlen (thr g1)) by (unfold g1; cbn [thr]; now rewrite tlen_upd).
  assert (G1 : thr_get (thr g1) t = (M_READY, c)) by (unfold g1; cbn [thr]; rewrite thr_get_upd by exact Ht; now rewrite Z.eqb_refl).
  destruct (prog_ready g1 t c HI1 Ht1 G1 Hp) as (g2 & Hs2 & P2).
  exists g2. split; [|lia]. cbn [grun]. rewrite Hs, Hs2. reflexivity.
Qed.

Lemma progress g : Inv g -> ExitOK g -> (exists t, 0 <= t < tlen (thr g) /\ fst (thr_get (thr g) t) <> M_EXIT) ->
  exists ls g1, grun g ls = Some g1 /\ Phi g1 <= Phi g - 1 /\ (length ls <= 2)%nat.
Proof.
  intros HI HE (t0 & Ht0 & Hm0).
  destruct (thr_dec (fun mc => fst mc =? M_WORK) (thr g)) as [(t & Ht & Ew)|Hnw].
  - (* somebody works: the worker with the smallest panel finishes *)
    apply Z.eqb_eq in Ew.
    destruct (some_worker_can_finish g HI) as (t' & Ht' & En); [exists t; auto|].
    destruct (gstep g (LFinish t')) as [g1|] eqn:Hs; [|congruence].
    exists [LFinish t'], g1. split; [cbn [grun]; now rewrite Hs|]. split; [|cbn; lia].
    apply (proj2 (phi_step _ _ _ HI Hs)). exact I.
  - pose proof (inv_threads _ HI) as (A & _).
    assert (Hmode : forall t, 0 <= t < tlen (thr g) -> fst (thr_get (thr g) t) <> M_EXIT ->
              fst (thr_get (thr g) t) = M_TEST \/ fst (thr_get (thr g) t) = M_READY).
    { intros t Ht Hm. specialize (A t Ht). specialize (Hnw t Ht). destruct (thr_get (thr g) t) as [m c].
      cbn [fst] in *. destruct A as (Am & _). apply Z.eqb_neq in Hnw. tauto. }
    destruct (Z_lt_dec 0 (tasks (gs g))) as [Hpos|Hz].
    + (* panels remain: nobody has left the loop *)
      assert (Hne : forall t, 0 <= t < tlen (thr g) -> fst (thr_get (thr g) t) <> M_EXIT).
      { intros t Ht E. specialize (HE t Ht E). lia. }
      assert (Hgo : forall t c, 0 <= t < tlen (thr g) -> thr_get (thr g) t = (fst (thr_get (thr g) t), c) ->
                (c <> c_EMPTY \/ snd (fst (sched (gs g) c)) <> c_EMPTY) ->
                exists ls g1, grun g ls = Some g1 /\ Phi g1 <= Phi g - 1 /\ (length ls <= 2)%nat).
      { intros t c Ht G0 Hp. destruct (Hmode t Ht (Hne t Ht)) as [Em|Em]; rewrite Em in G0.
        - destruct (prog_test_ready g t c HI Ht G0 Hpos Hp) as (g2 & Hr & P2).
          exists [LTest t; LCall t], g2. split; [exact Hr|]. split; [exact P2 | cbn; lia].
        - destruct (prog_ready g t c HI Ht G0 Hp) as (g1 & Hs & P1).
          exists [LCall t], g1. split; [cbn [grun]; now rewrite Hs|]. split; [exact P1 | cbn; lia]. }
      destruct (thr_dec (fun mc => negb (snd mc =? c_EMPTY)) (thr g)) as [(t & Ht & Ec)|Hemp].
      * (* a finished panel is unreported: its holder reports it *)
        apply negb_true_iff in Ec. apply Z.eqb_neq in Ec.
        apply (Hgo t (snd (thr_get (thr g) t)) Ht); [destruct (thr_get (thr g) t); reflexivity | now left].
      * (* nobody holds anything: the queue hands a panel to whoever calls *)
        assert (Hall : forall t, 0 <= t < tlen (thr g) -> snd (thr_get (thr g) t) = c_EMPTY).
        { intros t Ht. specialize (Hemp t Ht). apply negb_false_iff in Hemp. now apply Z.eqb_eq. }
        assert (Hgive : snd (fst (sched (gs g) c_EMPTY)) <> c_EMPTY).
        { destruct g as [s th]. cbn [gs thr] in *. apply (sched_empty_gives s th HI Hpos Hall). }
        apply (Hgo t0 c_EMPTY Ht0); [|now right].
        rewrite <- (Hall t0 Ht0). destruct (thr_get (thr g) t0); reflexivity.
    + (* no panel remains: a non-exited thread leaves after at most one (empty) call *)
      destruct (thr_get (thr g) t0) as [m c] eqn:G0. cbn [fst] in *.
      destruct (Hmode t0 Ht0) as [Em|Em]; [rewrite G0; exact Hm0 | |]; rewrite G0 in Em; cbn [fst] in Em; subst m.
      * pose proof (gstep_test_intro g t0 c Ht0 G0) as Hs.
        eexists [LTest t0], _. split; [cbn [grun]; rewrite Hs; reflexivity|]. split; [|cbn; lia].
        apply (proj2 (phi_step _ _ _ HI Hs)). cbn [productive]. lia.
      * destruct (sched (gs g) c) as [[s' j] b] eqn:Es.
        pose proof (gstep_call_intro g t0 c s' j b Ht0 G0 Es) as Hs.
        set (g1 := mkG s' (thr_upd (thr g) t0 (if j =? c_EMPTY then M_TEST else M_WORK, j))) in *.
        pose proof (step_inv _ _ _ HI Hs) as HI1. pose proof (proj1 (phi_step _ _ _ HI Hs)) as P1.
        pose proof (step_tasks_mono _ _ _ HI Hs) as T1.
        destruct (Z.eq_dec j c_EMPTY) as [Ej|Ej].
        { assert (Ht1 : 0 <= t0 < tlen (thr g1)) by (unfold g1; cbn [thr]; now rewrite tlen_upd).
          assert (G1 : thr_get (thr g1) t0 = (M_TEST, c_EMPTY)).
          { unfold g1; cbn [thr]. rewrite thr_get_upd by exact Ht0. rewrite Z.eqb_refl. subst j. now rewrite Z.eqb_refl. }
          pose proof (gstep_test_intro g1 t0 c_EMPTY Ht1 G1) as Hs2.
          eexists [LCall t0; LTest t0], _. split; [cbn [grun]; rewrite Hs, Hs2; reflexivity|]. split; [|cbn; lia].
          pose proof (proj2 (phi_step _ _ _ HI1 Hs2)) as P2. cbn [productive] in P2. specialize (P2 ltac:(lia)). lia. }
        { exists [LCall t0], g1. split; [cbn [grun]; now rewrite Hs|]. split; [|cbn; lia].
          apply (proj2 (phi_step _ _ _ HI Hs)). cbn [productive]. right. rewrite G0. cbn [snd]. rewrite Es. exact Ej. }
Qed.

Lemma can_terminate_aux : forall (n : nat) g, Inv g -> ExitOK g -> Phi g < Z.of_nat n ->
  exists ls g', grun g ls = Some g' /\ all_exited g' /\ Z.of_nat (length ls) <= 2 * Phi g.
Proof.
  induction n as [|n IH]; intros g HI HE Hn; pose proof (Phi_nonneg _ HI) as P0; [lia|].
  destruct (thr_dec f_nonexit (thr g)) as [(t & Ht & Et)|Hall].
  - unfold f_nonexit in Et. apply negb_true_iff in Et. apply Z.eqb_neq in Et.
    destruct (progress g HI HE) as (ls1 & g1 & R1 & P1 & L1); [exists t; auto|].
    pose proof (run_inv _ _ _ HI R1) as HI1. pose proof (run_exitok _ _ _ HI HE R1) as HE1.
    destruct (IH g1 HI1 HE1 ltac:(lia)) as (ls2 & g' & R2 & A2 & L2).
    exists (ls1 ++ ls2), g'. split; [exact (grun_app _ _ _ _ _ R1 R2)|]. split; [exact A2|].
    rewrite app_length. lia.
  - exists [], g. split; [reflexivity|]. split; [|cbn [length]; lia].
    intros t Ht. specialize (Hall t Ht). unfold f_nonexit in Hall. apply negb_false_iff in Hall. now apply Z.eqb_eq.
Qed.

(* from any state satisfying the invariants some run of at most 2 * Phi steps ends with all threads in M_EXIT *)
Theorem can_terminate_from g : Inv g -> ExitOK g ->
  exists ls g', grun g ls = Some g' /\ all_exited g' /\ Z.of_nat (length ls) <= 2 * Phi g.
Proof.
  intros HI HE. apply (can_terminate_aux (S (Z.to_nat (Phi g)))); auto. pose proof (Phi_nonneg _ HI). lia.
Qed.

Theorem can_always_terminate : forall s0 P g, reachable s0 P g ->
  exists ls g', grun g ls = Some g' /\ all_exited g'.
Proof.
  intros s0 P g R. destruct (can_terminate_from g (reachable_inv _ _ _ R) (reachable_exitok _ _ _ R)) as (ls & g' & A & B & _).
  eauto.
Qed.

(* ------------------------------------------------------------------------------------------ *)
(* fair termination restated for runs from an arbitrary reachable state, and in the positive form "every weakly fair
   maximal run is finite and ends with all threads in M_EXIT" (a finite maximal run ends in a state without enabled
   label: terminal_all_exit; an infinite one cannot be fair: fair_termination) *)
Theorem fair_termination_reachable : forall s0 P g0 G sigma, reachable s0 P g0 ->
  ~ (G 0%nat = g0 /\ (forall i, gstep (G i) (sigma i) = Some (G (S i))) /\ wfair G sigma).
Proof.
  intros s0 P g0 G sigma R (H0 & Hs & Hf). apply (fair_termination_from G sigma).
  - rewrite H0. exact (reachable_inv _ _ _ R).
  - rewrite H0. exact (reachable_exitok _ _ _ R).
  - split; assumption.
Qed.

(* ------------------------------------------------------------------------------------------ *)
(* the fairness hypothesis cannot be dropped: a concrete infinite (unfair) run.  Forest 0 -> 2 <- 1, 2 -> root, three
   threads: threads 0 and 1 take the two leaves and never finish them (although LFinish is enabled for both, forever),
   thread 2 spins in the polling loop (tasks_remain = 1, queue empty): LTest 2, LCall 2 (returns EMPTY), ... *)
Definition uf_init : sstate := parallel_init 3 [2; 2; 3] 1 1.
Definition uf_prefix : list label := [LTest 0; LCall 0; LTest 1; LCall 1; LTest 2; LCall 2].
Definition uf_sigma (i : nat) : label :=
  if (i <? 6)%nat then nth i uf_prefix (LTest 0) else if Nat.even i then LTest 2 else LCall 2.
Fixpoint uf_G (i : nat) : gstate :=
  match i with
  | O => ginit uf_init 3
  | S k => match gstep (uf_G k) (uf_sigma k) with Some g => g | None => uf_G k end
  end.

Lemma uf_G_S k : uf_G (S k) = match gstep (uf_G k) (uf_sigma k) with Some g => g | None => uf_G k end.
Proof. reflexivity. Qed.

Lemma uf_sigma_tail m : uf_sigma (6 + 2 * m) = LTest 2 /\ uf_sigma (S (6 + 2 * m)) = LCall 2.
Proof.
  unfold uf_sigma.
  assert (E1 : (6 + 2 * m <? 6)%nat = false) by (apply Nat.ltb_ge; lia).
  assert (E2 : (S (6 + 2 * m) <? 6)%nat = false) by (apply Nat.ltb_ge; lia).
  rewrite E1, E2. rewrite Nat.even_succ. unfold Nat.odd. rewrite Nat.even_add_mul_2. split; reflexivity.
Qed.

Lemma uf_cycle : gstep (uf_G 6) (LTest 2) = Some (uf_G 7) /\ gstep (uf_G 7) (LCall 2) = Some (uf_G 6).
Proof. vm_compute. split; reflexivity. Qed.

Lemma uf_G_tail m : uf_G (6 + 2 * m) = uf_G 6 /\ uf_G (S (6 + 2 * m)) = uf_G 7.
Proof.
  destruct uf_cycle as [C1 C2].
  induction m as [|m IH].
  - split; reflexivity.
  - destruct IH as [IH1 IH2]. destruct (uf_sigma_tail m) as [S1 S2]. destruct (uf_sigma_tail (S m)) as [S3 _].
    replace (6 + 2 * S m)%nat with (S (S (6 + 2 * m))) in * by lia.
    assert (A : uf_G (S (S (6 + 2 * m))) = uf_G 6) by (rewrite uf_G_S, IH2, S2, C2; reflexivity).
    split; [exact A|]. rewrite uf_G_S, A, S3, C1. reflexivity.
Qed.

Example unfair_run_exists : check_init uf_init = true /\ irun uf_init 3 uf_G uf_sigma /\ ~ wfair uf_G uf_sigma.
Proof.
  assert (Hc : check_init uf_init = true) by (vm_compute; reflexivity).
  assert (Hrun : irun uf_init 3 uf_G uf_sigma).
  { split; [reflexivity|]. intros i.
    destruct (Nat.lt_ge_cases i 6) as [Hlt|Hge].
    - do 6 (destruct i as [|i]; [vm_compute; reflexivity|]). lia.
    - destruct uf_cycle as [C1 C2].
      destruct (Nat.Even_or_Odd (i - 6)) as [[m Hm]|[m Hm]].
      + replace i with (6 + 2 * m)%nat by lia.
        destruct (uf_G_tail m) as [A B]. destruct (uf_sigma_tail m) as [S1 _]. rewrite A, B, S1. exact C1.
      + replace i with (S (6 + 2 * m))%nat by lia.
        destruct (uf_G_tail m) as [_ B]. destruct (uf_sigma_tail m) as [_ S2].
        destruct (uf_G_tail (S m)) as [A' _]. replace (6 + 2 * S m)%nat with (S (S (6 + 2 * m))) in A' by lia.
        rewrite A', B, S2. exact C2. }
  split; [exact Hc|]. split; [exact Hrun|].
  intros Hf. exact (fair_termination uf_init 3 uf_G uf_sigma Hc (conj Hrun Hf)).
Qed.

(* putting things together: a run that cannot be extended has all threads out of the loop and has handed out every panel
   exactly once; by fair_termination every weakly fair run is such a (finite) run *)
Theorem maximal_run_complete s0 P ls g :
  check_init s0 = true -> (0 < P)%nat -> grun (ginit s0 P) ls = Some g -> (forall l, gstep g l = None) ->
  all_exited g /\ tasks (gs g) <= 0 /\ NoDup (gtaken (ginit s0 P) ls) /\
  forall p, lead s0 p = true <-> In p (gtaken (ginit s0 P) ls).
Proof.
  intros Hc HP Hr Hno.
  assert (R : reachable s0 P g) by (split; [exact Hc | eauto]).
  pose proof (terminal_all_exit s0 P g R Hno) as Hall.
  split; [exact Hall|]. split.
  - pose proof (reachable_exitok _ _ _ R) as HE.
    assert (Hl : tlen (thr g) = Z.of_nat P).
    { rewrite (run_tlen _ _ _ Hr). cbn [ginit thr]. unfold tlen. now rewrite repeat_length. }
    apply (HE 0); [lia | apply Hall; lia].
  - exact (complete_run_each_panel_exactly_once s0 P ls g Hc Hr HP Hall).
Qed.

Print Assumptions fair_termination.
Print Assumptions fair_termination_from.
Print Assumptions fair_termination_reachable.
Print Assumptions terminal_all_exit.
Print Assumptions all_exit_terminal.
Print Assumptions can_always_terminate.
Print Assumptions can_terminate_from.
Print Assumptions phi_step.
Print Assumptions unfair_run_exists.
Print Assumptions maximal_run_complete.
