From SLU Require Import Consts EquilModel EquilProofs EquilRealProofs.
Require Import Reals ZArith List Bool.
Import ListNotations.

Theorem laqgs_rule :
  forall (ar : arith) th sfmin prec A r c rowcnd colcnd amax A' eq,
    laqgs ar th sfmin prec A r c rowcnd colcnd amax = Some (A', eq) ->
    (0 < sm_nrow ar A)%nat -> (0 < sm_ncol ar A)%nat ->
    let small := div ar sfmin prec in
    let large := div ar (one ar) small in
    eq = flag_of (row_needed ar th small large rowcnd amax) (col_needed ar th colcnd) /\
    sm_nrow ar A' = sm_nrow ar A /\ sm_ncol ar A' = sm_ncol ar A /\
    (eq = c_NOEQUIL -> A' = A) /\
    (eq <> c_NOEQUIL -> Forall2 (scaled_entry ar eq r c) (sm_ents ar A) (sm_ents ar A')).
Proof. exact laqgs_rule_proof. Qed.
Print Assumptions laqgs_rule.

Theorem gssvx_equed_wiring :
  forall (ar : arith) th sfmin prec stype fact trans equed0 AA R0 C0 B s0 o,
    gssvx_equil ar th sfmin prec stype fact trans equed0 AA R0 C0 B s0 = Some o ->
    B_relation ar (eff_notran stype trans) (x_equed ar o) (x_R ar o) (x_C ar o) (sm_ncol ar AA) B (x_B ar o) /\
    (fact = c_DOFACT -> x_equed ar o = c_NOEQUIL /\ x_A ar o = AA /\ x_R ar o = R0 /\ x_C ar o = C0 /\ x_B ar o = B) /\
    (fact <> c_DOFACT -> fact <> c_EQUILIBRATE ->
       x_equed ar o = equed0 /\ x_A ar o = AA /\ x_R ar o = R0 /\ x_C ar o = C0) /\
    (fact = c_EQUILIBRATE ->
       exists g, gsequ ar sfmin AA R0 C0 s0 s0 s0 = Some g /\ x_R ar o = g_r ar g /\ x_C ar o = g_c ar g /\
                 x_info1 ar o = g_info ar g /\
                 (g_info ar g = 0%Z ->
                    laqgs ar th sfmin prec AA (g_r ar g) (g_c ar g) (g_rowcnd ar g) (g_colcnd ar g) (g_amax ar g)
                    = Some (x_A ar o, x_equed ar o)) /\
                 (g_info ar g <> 0%Z -> x_A ar o = AA /\ x_equed ar o = c_NOEQUIL)).
Proof. exact gssvx_equed_wiring_proof. Qed.
Print Assumptions gssvx_equed_wiring.

Theorem gssvx_flag_none_identity :
  forall (ar : arith) th sfmin prec stype fact trans equed0 AA R0 C0 B s0 o,
    gssvx_equil ar th sfmin prec stype fact trans equed0 AA R0 C0 B s0 = Some o ->
    (0 < sm_nrow ar AA)%nat -> (0 < sm_ncol ar AA)%nat ->
    x_equed ar o = c_NOEQUIL -> x_A ar o = AA /\ x_B ar o = B.
Proof. exact gssvx_noequil_identity. Qed.
Print Assumptions gssvx_flag_none_identity.

Local Open Scope R_scope.

Theorem gsequ_zero_index :
  forall sml A r0 c0 rc0 cc0 am0,
    (0 < sml)%R -> (sml <= 1)%R -> wfR A -> (0 < sm_nrow ar_R A)%nat -> (0 < sm_ncol ar_R A)%nat ->
    exists g, gsequ ar_R sml A r0 c0 rc0 cc0 am0 = Some g /\
      (forall i, (i < sm_nrow ar_R A)%nat -> row_is_zero A i -> (forall k, (k < i)%nat -> ~ row_is_zero A k) ->
                 g_info ar_R g = (Z.of_nat i + 1)%Z) /\
      ((forall i, (i < sm_nrow ar_R A)%nat -> ~ row_is_zero A i) ->
       forall j, (j < sm_ncol ar_R A)%nat -> col_is_zero A j -> (forall k, (k < j)%nat -> ~ col_is_zero A k) ->
                 g_info ar_R g = (Z.of_nat (sm_nrow ar_R A) + Z.of_nat j + 1)%Z) /\
      ((forall i, (i < sm_nrow ar_R A)%nat -> ~ row_is_zero A i) ->
       (forall j, (j < sm_ncol ar_R A)%nat -> ~ col_is_zero A j) -> g_info ar_R g = 0%Z).
Proof. exact gsequ_zero_index_proof. Qed.
Print Assumptions gsequ_zero_index.

Theorem gsequ_scale_range :
  forall sml A r0 c0 rc0 cc0 am0 g,
    (0 < sml)%R -> (sml <= 1)%R -> wfR A -> (0 < sm_nrow ar_R A)%nat -> (0 < sm_ncol ar_R A)%nat ->
    gsequ ar_R sml A r0 c0 rc0 cc0 am0 = Some g -> g_info ar_R g = 0%Z ->
    length (g_r ar_R g) = sm_nrow ar_R A /\ length (g_c ar_R g) = sm_ncol ar_R A /\
    (forall i, (i < sm_nrow ar_R A)%nat -> (0 < nth i (g_r ar_R g) 0 /\ sml <= nth i (g_r ar_R g) 0 <= 1 / sml)%R) /\
    (forall j, (j < sm_ncol ar_R A)%nat -> (0 < nth j (g_c ar_R g) 0 /\ sml <= nth j (g_c ar_R g) 0 <= 1 / sml)%R).
Proof. exact gsequ_scale_range_proof. Qed.
Print Assumptions gsequ_scale_range.

Theorem gsequ_unit_max_exact_partial :
  forall sml A r0 c0 rc0 cc0 am0 g,
    (0 < sml)%R -> (sml <= 1)%R -> wfR A -> (0 < sm_nrow ar_R A)%nat -> (0 < sm_ncol ar_R A)%nat ->
    gsequ ar_R sml A r0 c0 rc0 cc0 am0 = Some g -> g_info ar_R g = 0%Z ->
    (forall i m, (i < sm_nrow ar_R A)%nat ->
       is_largest (e_row ar_R) (fun e => Rabs (e_val ar_R e)) (sm_ents ar_R A) i m -> (sml <= m <= 1 / sml)%R ->
       is_largest (e_row ar_R) (fun e => Rabs (nth i (g_r ar_R g) 0 * e_val ar_R e)) (sm_ents ar_R A) i 1) /\
    (forall j m, (j < sm_ncol ar_R A)%nat ->
       is_largest (e_col ar_R) (fun e => Rabs (nth (e_row ar_R e) (g_r ar_R g) 0 * e_val ar_R e)) (sm_ents ar_R A) j m ->
       (sml <= m <= 1 / sml)%R ->
       is_largest (e_col ar_R) (fun e => Rabs (nth (e_row ar_R e) (g_r ar_R g) 0 * e_val ar_R e * nth j (g_c ar_R g) 0))
                  (sm_ents ar_R A) j 1).
Proof. exact gsequ_unit_max_exact_proof. Qed.
Print Assumptions gsequ_unit_max_exact_partial.

Theorem gsequ_reports_amax_partial :
  forall sml A r0 c0 rc0 cc0 am0,
    (0 < sml)%R -> wfR A -> (0 < sm_nrow ar_R A)%nat -> (0 < sm_ncol ar_R A)%nat ->
    exists g, gsequ ar_R sml A r0 c0 rc0 cc0 am0 = Some g /\
      (forall e, In e (sm_ents ar_R A) -> (Rabs (e_val ar_R e) <= g_amax ar_R g)%R) /\
      (g_amax ar_R g = 0%R \/ exists e, In e (sm_ents ar_R A) /\ Rabs (e_val ar_R e) = g_amax ar_R g).
Proof. exact gsequ_amax_true_proof. Qed.
Print Assumptions gsequ_reports_amax_partial.

From SLU Require Import EquilRoundedProofs.

(* "equal to 1 UP TO ROUNDING": for every rounding function obeying the standard model (rnd x = x(1+d), |d| <= u; no
   monotonicity assumed), unless clipped the computed row factor is (1/max)(1+d) and the largest magnitude of every row of the
   ROUNDED scaled matrix lies in [(1-u)^2,(1+u)^2]; likewise the column factors and columns, with [(1-u)^3/(1+u),(1+u)^3/(1-u)]
   for the operation order ?laqgs uses when both scalings are applied.  The no-clipping hypothesis is m <= rnd(1/sml) (the code
   clips at the ROUNDED bignum): with m <= 1/sml the statement is false (gsequ_unit_max_rounded_full_refuted) *)
Local Open Scope nat_scope.
Theorem gsequ_unit_max_rounded :
  forall (rnd : R -> R) (u : R),
  rnd_model rnd u ->
  forall (sml : R) (A : smatrix (ar_rnd rnd)) (r0 c0 : list R) (rc0 cc0 am0 : R) (g : gsequ_out (ar_rnd rnd)),
  (0 < sml)%R ->
  wf_rnd rnd A ->
  0 < sm_nrow (ar_rnd rnd) A ->
  0 < sm_ncol (ar_rnd rnd) A ->
  gsequ (ar_rnd rnd) sml A r0 c0 rc0 cc0 am0 = Some g ->
  g_info (ar_rnd rnd) g = 0%Z ->
  (forall (i : nat) (m : R),
   i < sm_nrow (ar_rnd rnd) A ->
   largest_of (fun e : entry (ar_rnd rnd) => e_row (ar_rnd rnd) e = i)
     (fun e : entry (ar_rnd rnd) => Rabs (e_val (ar_rnd rnd) e)) (sm_ents (ar_rnd rnd) A) m ->
   (sml <= m <= rnd (1 / sml))%R ->
   (exists d : R, (- u <= d <= u)%R /\ nth i (g_r (ar_rnd rnd) g) 0%R = (1 / m * (1 + d))%R) /\
   (exists m' : R,
      largest_of (fun e : entry (ar_rnd rnd) => e_row (ar_rnd rnd) e = i)
        (fun e : entry (ar_rnd rnd) => Rabs (rnd (e_val (ar_rnd rnd) e * nth i (g_r (ar_rnd rnd) g) 0)%R))
        (sm_ents (ar_rnd rnd) A) m' /\ ((1 - u) ^ 2 <= m' <= (1 + u) ^ 2)%R)) /\
  (forall (j : nat) (m : R),
   j < sm_ncol (ar_rnd rnd) A ->
   largest_of (fun e : entry (ar_rnd rnd) => e_col (ar_rnd rnd) e = j)
     (fun e : entry (ar_rnd rnd) =>
      rnd (Rabs (e_val (ar_rnd rnd) e) * nth (e_row (ar_rnd rnd) e) (g_r (ar_rnd rnd) g) 0)%R)
     (sm_ents (ar_rnd rnd) A) m ->
   (sml <= m <= rnd (1 / sml))%R ->
   (exists d : R, (- u <= d <= u)%R /\ nth j (g_c (ar_rnd rnd) g) 0%R = (1 / m * (1 + d))%R) /\
   (exists m' : R,
      largest_of (fun e : entry (ar_rnd rnd) => e_col (ar_rnd rnd) e = j)
        (fun e : entry (ar_rnd rnd) =>
         rnd
           (rnd (Rabs (e_val (ar_rnd rnd) e) * nth (e_row (ar_rnd rnd) e) (g_r (ar_rnd rnd) g) 0) *
            nth j (g_c (ar_rnd rnd) g) 0)%R) (sm_ents (ar_rnd rnd) A) m' /\ ((1 - u) ^ 2 <= m' <= (1 + u) ^ 2)%R) /\
   (exists m' : R,
      largest_of (fun e : entry (ar_rnd rnd) => e_col (ar_rnd rnd) e = j)
        (fun e : entry (ar_rnd rnd) =>
         Rabs
           (rnd
              (e_val (ar_rnd rnd) e *
               rnd (nth j (g_c (ar_rnd rnd) g) 0 * nth (e_row (ar_rnd rnd) e) (g_r (ar_rnd rnd) g) 0))%R))
        (sm_ents (ar_rnd rnd) A) m' /\ ((1 - u) ^ 3 / (1 + u) <= m' <= (1 + u) ^ 3 / (1 - u))%R)).
Proof. exact (@EquilRoundedProofs.gsequ_unit_max_rounded). Qed.
Print Assumptions gsequ_unit_max_rounded.

Theorem gsequ_unit_max_rounded_full_refuted : ~ gsequ_unit_max_rounded_full.
Proof. exact gsequ_unit_max_rounded_full_is_false. Qed.
Print Assumptions gsequ_unit_max_rounded_full_refuted.
