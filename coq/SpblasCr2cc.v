(* SpblasCr2cc.v -- proof of [cr2cc_preserves_full] (SpblasProofs.v): the counting-sort transpose
   dCompRow_to_CompCol preserves the matrix.

   Structure (mirrors the three loops of the code):
     (1) cr2cc_count : marker[c] = cnt c nnz            (number of stored entries with column index c)
     (2) cr2cc_ptr   : colptr[k] = psum k = sum_{c<k} cnt c nnz,  marker1[c] = colptr[c]
     (3) placement   : entry q goes to position  pos q = psum (colind q) + cnt (colind q) q ;
                       pos is injective on [0,nnz) and maps into [0,nnz)
   and finally a re-indexing of the column sum of [dense] along pos. *)
From SLU Require Import SpblasModel SpblasProofs.
Require Import List ZArith Bool Arith Lia Ring.
Import ListNotations.
Local Open Scope nat_scope.

(* ------------------------------------------------------------------------------------------------ *)
(* arrays of naturals                                                                               *)

Lemma nget_upd : forall v i j a,
  nget (upd v i a) j = if (i =? j) && (i <? length v) then a else nget v j.
Proof. intros. unfold nget. apply nth_upd. Qed.

Lemma nget_upd_same : forall v i a, i < length v -> nget (upd v i a) i = a.
Proof. intros. unfold nget. apply nth_upd_same; auto. Qed.

Lemma nget_upd_other : forall v i j a, i <> j -> nget (upd v i a) j = nget v j.
Proof. intros. unfold nget. apply nth_upd_other; auto. Qed.

Lemma nget_repeat0 : forall k i, nget (repeat 0 k) i = 0.
Proof. unfold nget. induction k as [|k IH]; intros [|i]; simpl; auto. Qed.

(* invariant rule for the doubly nested loop "for i < m, for j in row_range rowptr i": the invariant
   is indexed by the number of entries processed so far *)
Lemma nested_fold_inv : forall (B : Type) (P : nat -> B -> Prop) (f : B -> nat -> nat -> B) rowptr m x,
  nget rowptr 0 = 0 -> (forall i, i < m -> nget rowptr i <= nget rowptr (S i)) ->
  P 0 x ->
  (forall i j y, i < m -> nget rowptr i <= j < nget rowptr (S i) -> P j y -> P (S j) (f y i j)) ->
  P (nget rowptr m)
    (fold_left (fun st i => fold_left (fun st j => f st i j) (row_range rowptr i) st) (seq 0 m) x).
Proof.
  intros B P f rowptr m x H0 Hmono Hx Hstep.
  apply (fold_seq_inv B (fun i st => P (nget rowptr i) st)).
  - rewrite H0. exact Hx.
  - intros i y Hi Hy. simpl. unfold row_range.
    pose proof (Hmono i Hi) as Hle.
    set (lo := nget rowptr i) in *.
    set (len := nget rowptr (S i) - lo).
    assert (E : nget rowptr (S i) = lo + len) by (unfold len; lia).
    rewrite E.
    apply (fold_seq_inv B (fun k st => P (lo + k) st)).
    + rewrite Nat.add_0_r. exact Hy.
    + intros k z Hk Hz. replace (lo + S k) with (S (lo + k)) by lia.
      apply Hstep; auto. lia.
Qed.

(* ------------------------------------------------------------------------------------------------ *)
Section Cr2cc.
Variable Ar : arith.
Notation Tt := (T Ar).
Notation z0 := (zero Ar).
Infix "+!" := (add Ar) (at level 50, left associativity).
Hypothesis Rth : ring_theory (zero Ar) (one Ar) (add Ar) (mul Ar) (sub Ar) (opp Ar) eq.
Add Ring ArRingCr2cc : Rth.

Variables (m n nnz : nat) (a : list Tt) (colind rowptr : list nat).
Hypothesis H0 : nget rowptr 0 = 0.
Hypothesis Hm : nget rowptr m = nnz.
Hypothesis Hmono : forall i, i < m -> nget rowptr i <= nget rowptr (S i).
Hypothesis Hcol : forall p, p < nnz -> nget colind p < n.

(* number of entries q < p with column index c *)
Fixpoint cnt (c p : nat) : nat :=
  match p with
  | O => 0
  | S p' => cnt c p' + (if nget colind p' =? c then 1 else 0)
  end.

(* number of entries q < N with column index < c *)
Fixpoint psumN (N c : nat) : nat :=
  match c with
  | O => 0
  | S c' => psumN N c' + cnt c' N
  end.

Definition psum : nat -> nat := psumN nnz.
(* where entry q is placed *)
Definition pos (q : nat) : nat := psum (nget colind q) + cnt (nget colind q) q.

Lemma cnt_mono : forall c p p', p <= p' -> cnt c p <= cnt c p'.
Proof.
  intros c p p' H. induction H as [|p' H IH]; auto. simpl. lia.
Qed.

Lemma cnt_lt : forall c q N, q < N -> nget colind q = c -> cnt c q < cnt c N.
Proof.
  intros c q N Hq Hc.
  assert (H1 : cnt c (S q) <= cnt c N) by (apply cnt_mono; lia).
  simpl in H1. rewrite Hc, Nat.eqb_refl in H1. lia.
Qed.

Lemma psumN_mono : forall N c c', c <= c' -> psumN N c <= psumN N c'.
Proof.
  intros N c c' H. induction H as [|c' H IH]; auto. simpl. lia.
Qed.

Lemma psumN_S : forall N c,
  psumN (S N) c = psumN N c + (if nget colind N <? c then 1 else 0).
Proof.
  intros N c. induction c as [|c IH].
  - simpl. reflexivity.
  - cbn [psumN cnt]. rewrite IH.
    destruct (Nat.ltb_spec (nget colind N) c) as [H1|H1];
    destruct (Nat.ltb_spec (nget colind N) (S c)) as [H2|H2];
    destruct (Nat.eqb_spec (nget colind N) c) as [H3|H3]; lia.
Qed.

Lemma psumN_total : forall N, (forall q, q < N -> nget colind q < n) -> psumN N n = N.
Proof.
  induction N as [|N IH]; intros H.
  - clear. induction n as [|k IHk]; simpl; auto. rewrite IHk. reflexivity.
  - rewrite psumN_S, IH by (intros; apply H; lia).
    destruct (Nat.ltb_spec (nget colind N) n) as [H1|H1]; [lia|].
    specialize (H N). lia.
Qed.

Lemma psum_total : psum n = nnz.
Proof. unfold psum. apply psumN_total. exact Hcol. Qed.

Lemma psum_S : forall c, psum (S c) = psum c + cnt c nnz.
Proof. reflexivity. Qed.

Lemma psum_mono : forall c c', c <= c' -> psum c <= psum c'.
Proof. intros. unfold psum. apply psumN_mono; auto. Qed.

Lemma pos_lt_next : forall q, q < nnz -> pos q < psum (S (nget colind q)).
Proof.
  intros q Hq. unfold pos. rewrite psum_S.
  pose proof (cnt_lt (nget colind q) q nnz Hq eq_refl). lia.
Qed.

Lemma pos_lt : forall q, q < nnz -> pos q < nnz.
Proof.
  intros q Hq. pose proof (pos_lt_next q Hq) as H1.
  pose proof (psum_mono (S (nget colind q)) n (Hcol q Hq)) as H2.
  rewrite psum_total in H2. lia.
Qed.

Lemma pos_ge : forall q, psum (nget colind q) <= pos q.
Proof. intros q. unfold pos. lia. Qed.

Lemma pos_neq_lt : forall q1 q2, q1 < q2 -> q2 < nnz -> pos q1 <> pos q2.
Proof.
  intros q1 q2 H12 H2.
  assert (H1 : q1 < nnz) by lia.
  destruct (lt_eq_lt_dec (nget colind q1) (nget colind q2)) as [[Hc|Hc]|Hc].
  - pose proof (pos_lt_next q1 H1) as Ha.
    pose proof (psum_mono (S (nget colind q1)) (nget colind q2) Hc) as Hb.
    pose proof (pos_ge q2). lia.
  - unfold pos. rewrite <- Hc.
    pose proof (cnt_lt (nget colind q1) q1 q2 H12 eq_refl). lia.
  - pose proof (pos_lt_next q2 H2) as Ha.
    pose proof (psum_mono (S (nget colind q2)) (nget colind q1) Hc) as Hb.
    pose proof (pos_ge q1). lia.
Qed.

Lemma rowptr_le : forall i k, i <= k -> k <= m -> nget rowptr i <= nget rowptr k.
Proof.
  intros i k H. induction H as [|k H IH]; intros Hk; auto.
  pose proof (Hmono k). lia.
Qed.

(* every entry index lies in the range of some row *)
Lemma row_exists : forall q k, q < nget rowptr k ->
  exists i, i < k /\ nget rowptr i <= q < nget rowptr (S i).
Proof.
  intros q k. induction k as [|k IH]; intros Hq.
  - rewrite H0 in Hq. lia.
  - destruct (lt_dec q (nget rowptr k)) as [Hlt|Hge].
    + destruct (IH Hlt) as (i & Hi & Hr). exists i. split; [lia | exact Hr].
    + exists k. split; [lia | lia].
Qed.

(* ---- phase 1: counting *)
Lemma count_spec :
  let mk := cr2cc_count m n colind rowptr in
  length mk = n /\ forall c, c < n -> nget mk c = cnt c nnz.
Proof.
  cbv zeta. unfold cr2cc_count. rewrite <- Hm.
  apply (nested_fold_inv (list nat)
           (fun p mk => length mk = n /\ forall c, c < n -> nget mk c = cnt c p)
           (fun mk (_ : nat) j => let c := nget colind j in upd mk c (S (nget mk c)))
           rowptr m (repeat 0 n) H0 Hmono).
  - split. apply repeat_length. intros c _. rewrite nget_repeat0. reflexivity.
  - intros i j mk Hi Hj [Hl Hc]. cbv zeta. split.
    + rewrite upd_length. exact Hl.
    + intros c Hcn. rewrite nget_upd. cbn [cnt].
      destruct (Nat.eqb_spec (nget colind j) c) as [E|E].
      * subst c. assert (Hlt : (nget colind j <? length mk) = true) by (apply Nat.ltb_lt; lia).
        rewrite Hlt. simpl. rewrite Hc by auto. lia.
      * simpl. rewrite Hc by auto. lia.
Qed.

(* ---- phase 2: prefix sums *)
Lemma ptr_spec : forall marker,
  length marker = n -> (forall c, c < n -> nget marker c = cnt c nnz) ->
  let cm := cr2cc_ptr n marker in
  length (fst cm) = S n /\ length (snd cm) = n /\
  (forall k, k <= n -> nget (fst cm) k = psum k) /\
  (forall k, k < n -> nget (snd cm) k = psum k).
Proof.
  intros marker Hl Hmk. cbv zeta. unfold cr2cc_ptr.
  pose (Inv := fun j (cm : list nat * list nat) =>
       length (fst cm) = S n /\ length (snd cm) = n /\
       (forall k, k <= j -> nget (fst cm) k = psum k) /\
       (forall k, k < j -> nget (snd cm) k = psum k) /\
       (forall k, j <= k -> k < n -> nget (snd cm) k = cnt k nnz)).
  assert (HI : Inv n
    (fold_left (fun cm j => let '(cp, mk) := cm in
                            let cp' := upd cp (S j) (nget cp j + nget mk j) in
                            (cp', upd mk j (nget cp' j)))
               (seq 0 n) (repeat 0 (S n), marker))).
  { apply (fold_seq_inv _ Inv); unfold Inv.
    - cbn [fst snd]. split. apply (repeat_length 0 (S n)). split. exact Hl.
      split. { intros k Hk. assert (k = 0) by lia. subst k. reflexivity. }
      split. { intros k Hk. lia. }
      intros k _ Hk. apply Hmk; auto.
    - intros j [cp mk] Hj (Hlc & Hlm & Hcp & Hlo & Hhi). cbn [fst snd] in *.
      cbv zeta. cbn [fst snd].
      split. { rewrite upd_length. exact Hlc. }
      split. { rewrite upd_length. exact Hlm. }
      split.
      { intros k Hk. destruct (Nat.eq_dec k (S j)) as [E|E].
        - subst k. rewrite nget_upd_same by lia.
          rewrite Hcp by lia. rewrite Hhi by lia. rewrite psum_S. reflexivity.
        - rewrite nget_upd_other by lia. apply Hcp. lia. }
      split.
      { intros k Hk. destruct (Nat.eq_dec k j) as [E|E].
        - subst k. rewrite nget_upd_same by lia. rewrite nget_upd_other by lia. apply Hcp. lia.
        - rewrite nget_upd_other by lia. apply Hlo. lia. }
      intros k Hk1 Hk2. rewrite nget_upd_other by lia. apply Hhi; lia. }
  unfold Inv in HI. destruct HI as (A1 & A2 & A3 & A4 & _).
  split; [exact A1|]. split; [exact A2|]. split; [exact A3|exact A4].
Qed.

(* ---- phase 3: placement *)
Lemma place_spec : forall mk1,
  length mk1 = n -> (forall c, c < n -> nget mk1 c = psum c) ->
  let st := fold_left (fun st i =>
              fold_left (fun st j => let '(at_, ri, mk) := st in
                           let col := nget colind j in
                           let relpos := nget mk col in
                           (upd at_ relpos (getn Ar a j), upd ri relpos i, upd mk col (S relpos)))
                        (row_range rowptr i) st)
              (seq 0 m) (repeat z0 nnz, repeat 0 nnz, mk1) in
  (forall q, q < nnz -> getn Ar (fst (fst st)) (pos q) = getn Ar a q) /\
  (forall q i, i < m -> nget rowptr i <= q < nget rowptr (S i) -> nget (snd (fst st)) (pos q) = i).
Proof.
  intros mk1 Hl Hmk. cbv zeta.
  pose (Inv := fun p (st : list Tt * list nat * list nat) =>
       length (fst (fst st)) = nnz /\ length (snd (fst st)) = nnz /\ length (snd st) = n /\
       (forall c, c < n -> nget (snd st) c = psum c + cnt c p) /\
       (forall q, q < p -> getn Ar (fst (fst st)) (pos q) = getn Ar a q) /\
       (forall q i, q < p -> i < m -> nget rowptr i <= q < nget rowptr (S i) ->
                    nget (snd (fst st)) (pos q) = i)).
  assert (HI : Inv (nget rowptr m)
    (fold_left (fun st i =>
              fold_left (fun st j =>
                 (fun st (i j : nat) => let '(at_, ri, mk) := st in
                           let col := nget colind j in
                           let relpos := nget mk col in
                           (upd at_ relpos (getn Ar a j), upd ri relpos i, upd mk col (S relpos))) st i j)
                        (row_range rowptr i) st)
              (seq 0 m) (repeat z0 nnz, repeat 0 nnz, mk1))).
  { apply (nested_fold_inv _ Inv); auto; unfold Inv.
    - cbn [fst snd]. split. apply repeat_length. split. apply repeat_length. split. exact Hl.
      split. { intros c Hc. simpl. rewrite Hmk by auto. lia. }
      split; intros; lia.
    - intros i j [[at_ ri] mk] Hi Hj (Hla & Hlr & Hlm & Hmkc & Hat & Hri).
      cbn [fst snd] in *. cbv zeta. cbn [fst snd].
      assert (Hjn : j < nnz).
      { rewrite <- Hm. pose proof (rowptr_le (S i) m). lia. }
      pose proof (Hcol j Hjn) as Hcj.
      assert (Hrel : nget mk (nget colind j) = pos j).
      { rewrite Hmkc by auto. reflexivity. }
      rewrite Hrel. pose proof (pos_lt j Hjn) as Hpj.
      split. { rewrite upd_length. exact Hla. }
      split. { rewrite upd_length. exact Hlr. }
      split. { rewrite upd_length. exact Hlm. }
      split.
      { intros c Hc. cbn [cnt]. destruct (Nat.eq_dec (nget colind j) c) as [E|E].
        - subst c. rewrite nget_upd_same by lia. rewrite Nat.eqb_refl. unfold pos. lia.
        - rewrite nget_upd_other by auto. rewrite Hmkc by auto.
          destruct (Nat.eqb_spec (nget colind j) c); [contradiction | lia]. }
      split.
      { intros q Hq. destruct (Nat.eq_dec q j) as [E|E].
        - subst q. apply getn_upd_same. lia.
        - assert (Hqj : q < j) by lia.
          rewrite getn_upd_other by (intro X; symmetry in X; revert X; apply pos_neq_lt; auto).
          apply Hat. lia. }
      intros q i' Hq Hi' Hr. destruct (Nat.eq_dec q j) as [E|E].
      + subst q. rewrite nget_upd_same by lia.
        (* rows are disjoint *)
        destruct (lt_eq_lt_dec i i') as [[Hlt|Heq]|Hgt]; auto.
        * pose proof (rowptr_le (S i) i'). lia.
        * pose proof (rowptr_le (S i') i). lia.
      + assert (Hqj : q < j) by lia.
        rewrite nget_upd_other by (intro X; symmetry in X; revert X; apply pos_neq_lt; auto).
        apply Hri; auto. }
  unfold Inv in HI. rewrite Hm in HI.
  destruct HI as (_ & _ & _ & _ & A1 & A2).
  split; [exact A1|]. intros q i Hi Hr. apply A2; auto.
  pose proof (rowptr_le (S i) m). lia.
Qed.

(* ---- sums *)

(* the positions of column c, in order, are the images under pos of the entries with column index c *)
Lemma bsum_col : forall (F : nat -> Tt) c p,
  bsum Ar (fun t => F (psum c + t)) (cnt c p)
  = bsum Ar (fun q => if nget colind q =? c then F (pos q) else z0) p.
Proof.
  intros F c p. induction p as [|p IH].
  - reflexivity.
  - cbn [cnt]. cbn [bsum]. rewrite <- IH.
    destruct (Nat.eqb_spec (nget colind p) c) as [E|E].
    + replace (cnt c p + 1) with (S (cnt c p)) by lia. cbn [bsum].
      unfold pos. rewrite E. reflexivity.
    + rewrite Nat.add_0_r. ring.
Qed.

Lemma bsum_window : forall (G : nat -> Tt) lo hi N, lo <= hi -> hi <= N ->
  (forall q, q < lo -> G q = z0) -> (forall q, hi <= q -> q < N -> G q = z0) ->
  bsum Ar G N = bsum Ar (fun t => G (lo + t)) (hi - lo).
Proof.
  intros G lo hi N H1 H2 Hlo Hhi.
  replace N with (lo + ((hi - lo) + (N - hi))) by lia.
  rewrite (bsum_app Ar Rth), (bsum_app Ar Rth).
  rewrite (bsum_zero Ar Rth G lo) by exact Hlo.
  rewrite (bsum_zero Ar Rth (fun k => G (lo + (hi - lo + k)))).
  - ring.
  - intros k Hk. apply Hhi; lia.
Qed.

Lemma cr2cc_correct :
  let '(at_, rowind, colptr) := cr2cc Ar m n nnz a colind rowptr in
  nget colptr 0 = 0 /\ nget colptr n = nnz /\ (forall j, j < n -> nget colptr j <= nget colptr (S j)) /\
  forall i c, i < m -> c < n ->
    bsum Ar (fun t => if nget colind (nget rowptr i + t) =? c then getn Ar a (nget rowptr i + t) else z0)
            (nget rowptr (S i) - nget rowptr i)
    = dense Ar (mkCsc Ar (Z.of_nat m) (Z.of_nat n) colptr rowind at_) i c.
Proof.
  unfold cr2cc.
  destruct count_spec as [Hcl Hcc].
  pose proof (ptr_spec (cr2cc_count m n colind rowptr) Hcl Hcc) as Hp. cbv zeta in Hp.
  destruct (cr2cc_ptr n (cr2cc_count m n colind rowptr)) as [colptr marker1].
  cbn [fst snd] in Hp. destruct Hp as (Hlc & Hlm & Hcp & Hm1).
  pose proof (place_spec marker1 Hlm Hm1) as Hs. cbv zeta in Hs.
  match goal with |- context [fold_left ?f ?l ?x] => destruct (fold_left f l x) as [[at_ ri] mk] end.
  cbn [fst snd] in Hs. destruct Hs as [Hat Hri].
  split. { rewrite Hcp by lia. reflexivity. }
  split. { rewrite Hcp by lia. apply psum_total. }
  split. { intros j Hj. rewrite !Hcp by lia. rewrite psum_S. lia. }
  intros i c Hi Hc.
  unfold dense, col_len, col_lo. cbn [a_colptr a_rowind a_val].
  rewrite !Hcp by lia. rewrite psum_S.
  replace (psum c + cnt c nnz - psum c) with (cnt c nnz) by lia.
  rewrite (bsum_col (fun k => if nget ri k =? i then getn Ar at_ k else z0) c nnz).
  pose proof (rowptr_le (S i) m) as Hle1. rewrite Hm in Hle1.
  pose proof (Hmono i Hi) as Hle2.
  rewrite (bsum_window _ (nget rowptr i) (nget rowptr (S i)) nnz); try lia.
  - apply bsum_ext. intros t Ht.
    destruct (nget colind (nget rowptr i + t) =? c); auto.
    rewrite (Hri (nget rowptr i + t) i) by (auto; lia). rewrite Nat.eqb_refl.
    rewrite Hat by lia. reflexivity.
  - intros q Hq. destruct (nget colind q =? c); auto.
    assert (Hqn : q < nget rowptr m) by lia.
    destruct (row_exists q m Hqn) as (i' & Hi' & Hr').
    rewrite (Hri q i') by auto.
    destruct (Nat.eqb_spec i' i) as [E|E]; auto. subst i'. lia.
  - intros q Hq1 Hq2. destruct (nget colind q =? c); auto.
    assert (Hqn : q < nget rowptr m) by lia.
    destruct (row_exists q m Hqn) as (i' & Hi' & Hr').
    rewrite (Hri q i') by auto.
    destruct (Nat.eqb_spec i' i) as [E|E]; auto. subst i'. lia.
Qed.

End Cr2cc.

Theorem cr2cc_preserves : cr2cc_preserves_full.
Proof.
  unfold cr2cc_preserves_full.
  intros Ar Rth m n nnz a colind rowptr H0 Hm Hmono Hcol _ _.
  exact (cr2cc_correct Ar Rth m n nnz a colind rowptr H0 Hm Hmono Hcol).
Qed.

Print Assumptions cr2cc_preserves.
