(* SpblasRun.v -- wrappers used by the generated vm_compute case files of check C19: run the
   binary64 instance of the model and encode every result as lists of Z (floats as their IEEE-754
   bit patterns), so that the Python side only parses integers. *)
From SLU Require Import SpblasModel.
Require Import Floats ZArith List Lia.
Import ListNotations.
Local Open Scope Z_scope.

(* IEEE-754 binary64 bit pattern of a primitive float (all NaNs map to the quiet NaN 0x7ff8...) *)
Definition fbits (f : float) : Z :=
  match Prim2SF f with
  | S754_zero s => if s then 2^63 else 0
  | S754_infinity s => (if s then 2^63 else 0) + 2047 * 2^52
  | S754_nan => 2047 * 2^52 + 2^51
  | S754_finite s m e => (if s then 2^63 else 0) + (e + 1074) * 2^52 + Z.pos m
  end.
Definition fl (l : list float) : list Z := map fbits l.
Definition nl (l : list nat) : list Z := map Z.of_nat l.

Definition run_gemv tr (alpha : float) (m n : Z) colptr rowind val x xo incx (beta : float) y yo incy : list (list Z) :=
  match sp_gemv ArF tr alpha (mkCsc ArF m n colptr rowind val) x xo incx beta y yo incy with
  | G_ok y => [[0; 0]; fl y]
  | G_xerbla i y => [[1; i]; fl y]
  | G_abort y => [[2; 0]; fl y]
  end.
Definition run_gemm tr (nn : nat) (alpha : float) (m n : Z) colptr rowind val b ldb (beta : float) c ldc : list (list Z) :=
  [[0; 0]; fl (sp_gemm ArF tr nn alpha (mkCsc ArF m n colptr rowind val) b ldb beta c ldc)].
Definition run_lsolve ldm ncol M mo rhs ro : list (list Z) := [[0; 0]; fl (lsolve ArF ldm ncol M mo rhs ro)].
Definition run_usolve ldm ncol M mo rhs ro : list (list Z) := [[0; 0]; fl (usolve ArF ldm ncol M mo rhs ro)].
Definition run_matvec ldm nrow ncol M mo vec vo Mx xo : list (list Z) :=
  [[0; 0]; fl (matvec ArF ldm nrow ncol M mo vec vo Mx xo)].
Definition run_langs norm (m n : Z) colptr rowind val : list (list Z) :=
  match langs ArF norm (mkCsc ArF m n colptr rowind val) with
  | N_val v => [[0; 0]; [fbits v]]
  | N_abort_notimpl => [[2; 0]; []]
  | N_abort_illegal => [[2; 1]; []]
  end.
Definition run_cr2cc m n nnz a colind rowptr : list (list Z) :=
  let '(at_, ri, cp) := cr2cc ArF m n nnz a colind rowptr in [[0; 0]; fl at_; nl ri; nl cp].
Definition run_copy nnz (m n : Z) colptr rowind val bcolptr browind bval : list (list Z) :=
  let B := copy_csc ArF nnz (mkCsc ArF m n colptr rowind val) (mkCsc ArF (-7) (-7) bcolptr browind bval) in
  [[0; 0]; [a_nrow _ B; a_ncol _ B]; fl (a_val _ B); nl (a_rowind _ B); nl (a_colptr _ B)].
Definition run_trsv uplo trans diag (n : Z) lval nzbeg nzend rowind ribeg riend col2sup supbeg supend
           uval urowind ucolbeg ucolend x : list (list Z) :=
  let L := create_scp ArF n n lval nzbeg nzend rowind ribeg riend col2sup supbeg supend in
  let U := create_ncp ArF n n uval urowind ucolbeg ucolend in
  match sp_trsv ArF L U uplo trans diag x with
  | S_ok x => [[0; 0; l_nsuper _ L]; fl x]
  | S_xerbla i x => [[1; i; l_nsuper _ L]; fl x]
  end.
