(* ArgCheckModel.v  (property C15)
   Executable model of the argument tests at the top of
     p?gssv, p?gssvx, ?gstrs, ?gsrfs, ?gscon, ?gsequ, sp_?trsv, sp_?gemv      (? = s,d,c,z)
   mirroring the C `if ... else if` chains statement by statement (SRC/pdgssv.c:150-165,
   SRC/pdgssvx.c:412-503, SRC/dgstrs.c:95-107, SRC/dgsrfs.c:168-192, SRC/dgscon.c:83-99,
   SRC/dgsequ.c:91-103, SRC/dsp_blas2.c:103-115 and 387-400, SRC/lsame.c), and, independently,
   the documented preconditions transcribed from each routine's header comment as tables
   (position, predicate).   Definitions only; proofs are in ArgCheckProofs.v. *)
Require Import ZArith List Bool QArith.
From SLU Require Import Consts.
Import ListNotations.
Local Open Scope Z_scope.

(* ------------------------------------------------------------------ precisions *)
Inductive prec := PS | PD | PC | PZ.

Definition dtype_of (p : prec) : Z :=
  match p with PS => c_SLU_S | PD => c_SLU_D | PC => c_SLU_C | PZ => c_SLU_Z end.

Definition is_complex (p : prec) : bool :=
  match p with PS | PD => false | PC | PZ => true end.

(* bignum = 1/?lamch("Safe minimum") as computed at SRC/pdgssvx.c:425-426 : 2^1022 (d,z: dlamch_),
   2^126 (s,c: slamch_).  Only its sign matters for the argument test. *)
Definition bignum_of (p : prec) : Q :=
  match p with
  | PD | PZ => inject_Z (2 ^ 1022)
  | PS | PC => inject_Z (2 ^ 126)
  end.

(* ------------------------------------------------------------------ abstract SuperMatrix header *)
(* the fields of SuperMatrix that the tests read, plus DNformat.lda (meaningful for dense B, X only) *)
Record mat := mkMat { m_st : Z; m_dt : Z; m_mt : Z; m_nr : Z; m_nc : Z; m_lda : Z }.

(* C operators *)
Definition neqb (x y : Z) : bool := negb (x =? y).
Definition c_max (a b : Z) : Z := if a >? b then a else b.       (* SUPERLU_MAX(a,b) ((a)>(b)?(a):(b)) *)
Definition Qltb (a b : Q) : bool := negb (Qle_bool b a).         (* a < b *)
Definition q_min (a b : Q) : Q := if Qltb a b then a else b.     (* SUPERLU_MIN(a,b) ((a)<(b)?(a):(b)) *)

(* lsame_(ca, cb) of SRC/lsame.c on ASCII codes (0..255): equal, or equal after folding a..z to A..Z *)
Definition upcase (c : Z) : Z := if (97 <=? c) && (c <=? 122) then c - 32 else c.
Definition lsame (ca cb : Z) : bool := (ca =? cb) || (upcase ca =? upcase cb).

Definition ch_1 : Z := 49.  Definition ch_C : Z := 67.  Definition ch_I : Z := 73.
Definition ch_L : Z := 76.  Definition ch_N : Z := 78.  Definition ch_O : Z := 79.
Definition ch_T : Z := 84.  Definition ch_U : Z := 85.

(* ------------------------------------------------------------------ outcome of the entry sequence *)
(* What the routine has done when it leaves its argument test:
   o_info     value stored in *info (0 = all tests passed, execution continues),
   o_xerbla   Some i  iff xerbla_(name, &i) was called,
   o_equed    value of *equed at that point (expert driver only; others: unchanged input / 0),
   o_optperm  true iff options->perm_c / perm_r were overwritten with the perm_c / perm_r arguments,
   o_allocs   number of SUPERLU_MALLOC requests issued so far,
   o_wrote    writes into A, B, X, L, U, perm_c, perm_r, R, C, x, y performed so far (region numbers). *)
Record outcome := mkOut { o_info : Z; o_xerbla : option Z; o_equed : Z; o_optperm : bool;
                          o_allocs : Z; o_wrote : list Z }.

(* the common tail  `if ( *info != 0 ) { i = -( *info ); xerbla_(name, &i); return; }` *)
Definition leave (info equed : Z) (optperm : bool) : outcome :=
  if neqb info 0 then mkOut info (Some (- info)) equed optperm 0 []
  else mkOut 0 None equed optperm 0 [].

(* ------------------------------------------------------------------ p?gssv   (SRC/pdgssv.c:150-165) *)
Record gssv_args := mkGssv { gv_nprocs : Z; gv_A : mat; gv_B : mat }.

Definition gssv_check (p : prec) (a : gssv_args) : Z :=
  let A := gv_A a in let B := gv_B a in
  if gv_nprocs a <=? 0 then -1
  else if neqb (m_nr A) (m_nc A) || (m_nr A <? 0) ||
          (neqb (m_st A) c_SLU_NC && neqb (m_st A) c_SLU_NR) ||
          neqb (m_dt A) (dtype_of p) || neqb (m_mt A) c_SLU_GE then -2
  else if (m_nc B <? 0) || (m_lda B <? c_max 1 (m_nr A)) then -7
  else 0.

Definition gssv_run (p : prec) (a : gssv_args) : outcome := leave (gssv_check p a) 0 false.

(* ------------------------------------------------------------------ p?gssvx  (SRC/pdgssvx.c:397-503) *)
Record gssvx_args := mkGssvx {
  gx_nprocs : Z; gx_fact : Z; gx_trans : Z; gx_refact : Z; gx_usepr : Z; gx_lwork : Z;
  gx_A : mat; gx_equed : Z; gx_R : list Q; gx_C : list Q; gx_B : mat; gx_X : mat }.

(* for (j = 0; j < n; ++j) rcmin = SUPERLU_MIN(rcmin, v[j]);   None = read past the end of v *)
Fixpoint rc_scan (n : nat) (v : list Q) (rcmin : Q) : option Q :=
  match n with
  | O => Some rcmin
  | S n' => match v with [] => None | x :: t => rc_scan n' t (q_min rcmin x) end
  end.

(* the else-branch at pdgssvx.c:462-498, starting with *info = 0 *)
Definition gssvx_tail (p : prec) (a : gssvx_args) (rowequ colequ : bool) : option Z :=
  let A := gx_A a in let B := gx_B a in let X := gx_X a in
  let n := Z.to_nat (m_nr A) in
  let info7 : option Z :=
    if rowequ then
      match rc_scan n (gx_R a) (bignum_of p) with
      | None => None
      | Some rcmin => Some (if Qle_bool rcmin 0 then -7 else 0)
      end
    else Some 0 in
  match info7 with
  | None => None
  | Some i7 =>
    let info8 : option Z :=
      if colequ && (i7 =? 0) then
        match rc_scan n (gx_C a) (bignum_of p) with      (* the C loop also runs to A->nrow *)
        | None => None
        | Some rcmin => Some (if Qle_bool rcmin 0 then -8 else i7)
        end
      else Some i7 in
    match info8 with
    | None => None
    | Some i8 =>
      if i8 =? 0 then
        if (m_nc B <? 0) || (m_lda B <? c_max 0 (m_nr A)) ||
           neqb (m_st B) c_SLU_DN || neqb (m_dt B) (dtype_of p) || neqb (m_mt B) c_SLU_GE
        then Some (-11)
        else if (m_nc X <? 0) || (m_lda X <? c_max 0 (m_nr A)) || neqb (m_nc B) (m_nc X) ||
                neqb (m_st X) c_SLU_DN || neqb (m_dt X) (dtype_of p) || neqb (m_mt X) c_SLU_GE
        then Some (-12)
        else Some 0
      else Some i8
    end
  end.

Definition gssvx_flags (a : gssvx_args) : bool * bool * bool * bool * bool :=
  let dofact := gx_fact a =? c_DOFACT in
  let equil := gx_fact a =? c_EQUILIBRATE in
  let notran := gx_trans a =? c_NOTRANS in
  let rowequ := if dofact || equil then false else (gx_equed a =? c_ROW) || (gx_equed a =? c_BOTH) in
  let colequ := if dofact || equil then false else (gx_equed a =? c_COL) || (gx_equed a =? c_BOTH) in
  (dofact, equil, notran, rowequ, colequ).

Definition gssvx_check (p : prec) (a : gssvx_args) : option Z :=
  let A := gx_A a in
  let '(dofact, equil, notran, rowequ, colequ) := gssvx_flags a in
  if gx_nprocs a <=? 0 then Some (-1)
  else if (negb dofact && negb equil && neqb (gx_fact a) c_FACTORED) ||
          (negb notran && neqb (gx_trans a) c_TRANS && neqb (gx_trans a) c_CONJ) ||
          (neqb (gx_refact a) c_YES && neqb (gx_refact a) c_NO) ||
          (neqb (gx_usepr a) c_YES && neqb (gx_usepr a) c_NO) ||
          (gx_lwork a <? -1) then Some (-2)
  else if neqb (m_nr A) (m_nc A) || (m_nr A <? 0) ||
          (neqb (m_st A) c_SLU_NC && neqb (m_st A) c_SLU_NR) ||
          neqb (m_dt A) (dtype_of p) || neqb (m_mt A) c_SLU_GE then Some (-3)
  else if (gx_fact a =? c_FACTORED) &&
          negb (rowequ || colequ || (gx_equed a =? c_NOEQUIL)) then Some (-6)
  else gssvx_tail p a rowequ colequ.

(* before the tests: options->perm_c = perm_c; options->perm_r = perm_r;
   if (dofact || equil) *equed = NOEQUIL;                       (pdgssvx.c:409-418) *)
Definition gssvx_run (p : prec) (a : gssvx_args) : option outcome :=
  let '(dofact, equil, _, _, _) := gssvx_flags a in
  let equed' := if dofact || equil then c_NOEQUIL else gx_equed a in
  match gssvx_check p a with
  | None => None
  | Some i => Some (leave i equed' true)
  end.

(* ------------------------------------------------------------------ ?gstrs   (SRC/dgstrs.c:95-107) *)
Record gstrs_args := mkGstrs { gt_trans : Z; gt_L : mat; gt_U : mat; gt_B : mat }.

Definition gstrs_check (p : prec) (a : gstrs_args) : Z :=
  let L := gt_L a in let U := gt_U a in let B := gt_B a in
  if neqb (gt_trans a) c_NOTRANS && neqb (gt_trans a) c_TRANS && neqb (gt_trans a) c_CONJ then -1
  else if neqb (m_nr L) (m_nc L) || (m_nr L <? 0) then -3
  else if neqb (m_nr U) (m_nc U) || (m_nr U <? 0) then -4
  else if m_lda B <? c_max 0 (m_nr L) then -6
  else 0.

Definition gstrs_run (p : prec) (a : gstrs_args) : outcome := leave (gstrs_check p a) 0 false.

(* ------------------------------------------------------------------ ?gsrfs   (SRC/dgsrfs.c:168-192) *)
Record gsrfs_args := mkGsrfs { gr_trans : Z; gr_A : mat; gr_L : mat; gr_U : mat; gr_equed : Z;
                               gr_B : mat; gr_X : mat }.

Definition gsrfs_check (p : prec) (a : gsrfs_args) : Z :=
  let A := gr_A a in let L := gr_L a in let U := gr_U a in let B := gr_B a in let X := gr_X a in
  let notran := gr_trans a =? c_NOTRANS in
  if negb notran && neqb (gr_trans a) c_TRANS && neqb (gr_trans a) c_CONJ then -1
  else if neqb (m_nr A) (m_nc A) || (m_nr A <? 0) ||
          neqb (m_st A) c_SLU_NC || neqb (m_dt A) (dtype_of p) || neqb (m_mt A) c_SLU_GE then -2
  else if neqb (m_nr L) (m_nc L) || (m_nr L <? 0) ||
          neqb (m_st L) c_SLU_SCP || neqb (m_dt L) (dtype_of p) || neqb (m_mt L) c_SLU_TRLU then -3
  else if neqb (m_nr U) (m_nc U) || (m_nr U <? 0) ||
          neqb (m_st U) c_SLU_NCP || neqb (m_dt U) (dtype_of p) || neqb (m_mt U) c_SLU_TRU then -4
  else if (m_lda B <? c_max 0 (m_nr A)) ||
          neqb (m_st B) c_SLU_DN || neqb (m_dt B) (dtype_of p) || neqb (m_mt B) c_SLU_GE then -10
  else if (m_lda X <? c_max 0 (m_nr A)) ||
          neqb (m_st X) c_SLU_DN || neqb (m_dt X) (dtype_of p) || neqb (m_mt X) c_SLU_GE then -11
  else 0.

Definition gsrfs_run (p : prec) (a : gsrfs_args) : outcome := leave (gsrfs_check p a) 0 false.

(* ------------------------------------------------------------------ ?gscon   (SRC/dgscon.c:83-99) *)
Record gscon_args := mkGscon { gc_norm : Z; gc_L : mat; gc_U : mat }.

Definition gscon_check (p : prec) (a : gscon_args) : Z :=
  let L := gc_L a in let U := gc_U a in
  let onenrm := (gc_norm a =? ch_1) || lsame (gc_norm a) ch_O in
  if negb onenrm && negb (lsame (gc_norm a) ch_I) then -1
  else if (m_nr L <? 0) || neqb (m_nr L) (m_nc L) ||
          neqb (m_st L) c_SLU_SCP || neqb (m_dt L) (dtype_of p) || neqb (m_mt L) c_SLU_TRLU then -2
  else if (m_nr U <? 0) || neqb (m_nr U) (m_nc U) ||
          neqb (m_st U) c_SLU_NCP || neqb (m_dt U) (dtype_of p) || neqb (m_mt U) c_SLU_TRU then -3
  else 0.

Definition gscon_run (p : prec) (a : gscon_args) : outcome := leave (gscon_check p a) 0 false.

(* ------------------------------------------------------------------ ?gsequ   (SRC/dgsequ.c:91-103) *)
Definition gsequ_check (p : prec) (A : mat) : Z :=
  if (m_nr A <? 0) || (m_nc A <? 0) ||
     neqb (m_st A) c_SLU_NC || neqb (m_dt A) (dtype_of p) || neqb (m_mt A) c_SLU_GE then -1
  else 0.

Definition gsequ_run (p : prec) (A : mat) : outcome := leave (gsequ_check p A) 0 false.

(* ------------------------------------------------------------------ sp_?trsv (SRC/dsp_blas2.c:103-115) *)
Record trsv_args := mkTrsv { tv_uplo : Z; tv_trans : Z; tv_diag : Z; tv_L : mat; tv_U : mat }.

Definition trsv_check (p : prec) (a : trsv_args) : Z :=
  let L := tv_L a in let U := tv_U a in
  if negb (lsame (tv_uplo a) ch_L) && negb (lsame (tv_uplo a) ch_U) then -1
  else if negb (lsame (tv_trans a) ch_N) && negb (lsame (tv_trans a) ch_T) then -2
  else if negb (lsame (tv_diag a) ch_U) && negb (lsame (tv_diag a) ch_N) then -3
  else if neqb (m_nr L) (m_nc L) || (m_nr L <? 0) then -4
  else if neqb (m_nr U) (m_nc U) || (m_nr U <? 0) then -5
  else 0.

Definition trsv_run (p : prec) (a : trsv_args) : outcome := leave (trsv_check p a) 0 false.

(* What ?gstrs leaves in *info when its own tests pass (SRC/zgstrs.c:290-312): for trans = TRANS and for
   trans = CONJ (complex: conj(inv(A**T) conj(b)); real: same as TRANS) it calls, for each right-hand side,
   sp_?trsv("U","T","N",L,U,..,info) and sp_?trsv("L","T","U",L,U,..,info); each call starts with *info = 0 and
   runs the test chain above, which "T" passes whenever ?gstrs' own dimension tests passed. *)
Definition gstrs_final_info (p : prec) (a : gstrs_args) : Z :=
  let i := gstrs_check p a in
  if neqb i 0 then i
  else if negb (gt_trans a =? c_NOTRANS) && (0 <? m_nc (gt_B a))
       then trsv_check p (mkTrsv ch_L ch_T ch_U (gt_L a) (gt_U a))
       else 0.

(* ------------------------------------------------------------------ sp_?gemv (SRC/dsp_blas2.c:387-400) *)
(* no info argument: the local `info` is the (positive) position handed to xerbla_; the model
   reports it negated so that all routines read alike *)
Record gemv_args := mkGemv { gm_trans : Z; gm_A : mat; gm_incx : Z; gm_incy : Z }.

Definition gemv_check (p : prec) (a : gemv_args) : Z :=
  let A := gm_A a in
  let notran := lsame (gm_trans a) ch_N in
  if negb notran && negb (lsame (gm_trans a) ch_T) && negb (lsame (gm_trans a) ch_C) then -1
  else if (m_nr A <? 0) || (m_nc A <? 0) then -3
  else if gm_incx a =? 0 then -5
  else if gm_incy a =? 0 then -8
  else 0.

Definition gemv_run (p : prec) (a : gemv_args) : outcome := leave (gemv_check p a) 0 false.

(* ================================================================== documented preconditions *)
(* A table lists, in argument order, (position, predicate "the documented condition holds"). *)
Fixpoint first_viol {A : Type} (tbl : list (Z * (A -> bool))) (a : A) : option Z :=
  match tbl with
  | [] => None
  | (i, ok) :: t => if ok a then first_viol t a else Some i
  end.

Definition spec_info {A : Type} (tbl : list (Z * (A -> bool))) (a : A) : Z :=
  match first_viol tbl a with Some i => - i | None => 0 end.

Definition memZ (x : Z) (l : list Z) : bool := existsb (Z.eqb x) l.
Definition square_nonneg (M : mat) : bool := (m_nr M =? m_nc M) && (0 <=? m_nr M).
Definition has_types (M : mat) (st dt mt : Z) : bool := (m_st M =? st) && (m_dt M =? dt) && (m_mt M =? mt).
Definition dn_types (p : prec) (M : mat) : bool := has_types M c_SLU_DN (dtype_of p) c_SLU_GE.
Definition l_types (p : prec) (M : mat) : bool := has_types M c_SLU_SCP (dtype_of p) c_SLU_TRLU.
Definition u_types (p : prec) (M : mat) : bool := has_types M c_SLU_NCP (dtype_of p) c_SLU_TRU.
Definition all_pos (v : list Q) : bool := forallb (fun x => Qltb 0 x) v.
Definition is_letter (c : Z) (l : Z) : bool := (c =? l) || (c =? l + 32).     (* 'X' or 'x' *)

(* p?gssv(nprocs, A, perm_c, perm_r, L, U, B, info)     header of SRC/pdgssv.c:
   nprocs = number of threads (>= 1, property text); A: nrow = ncol, Stype NC or NR, Dtype _D,
   Mtype GE; B: "has types Stype = DN, Dtype = _D, Mtype = GE"; a dense nrow x ncol array stored
   with leading dimension lda needs ncol >= 0 and lda >= nrow (supermatrix.h DNformat). *)
Definition doc_gssv (p : prec) : list (Z * (gssv_args -> bool)) :=
  [ (1, fun a => 1 <=? gv_nprocs a);
    (2, fun a => square_nonneg (gv_A a) && memZ (m_st (gv_A a)) [c_SLU_NC; c_SLU_NR] &&
                 (m_dt (gv_A a) =? dtype_of p) && (m_mt (gv_A a) =? c_SLU_GE));
    (7, fun a => dn_types p (gv_B a) && (0 <=? m_nc (gv_B a)) && (m_nr (gv_A a) <=? m_lda (gv_B a))) ].

(* p?gssvx(nprocs, options, A, perm_c, perm_r, equed, R, C, L, U, B, X, rpg, rcond, ferr, berr,
           memusage, info)     header of SRC/pdgssvx.c *)
Definition doc_gssvx (p : prec) : list (Z * (gssvx_args -> bool)) :=
  [ (1, fun a => 1 <=? gx_nprocs a);
    (2, fun a => memZ (gx_fact a) [c_DOFACT; c_EQUILIBRATE; c_FACTORED] &&
                 memZ (gx_trans a) [c_NOTRANS; c_TRANS; c_CONJ] &&
                 memZ (gx_refact a) [c_NO; c_YES] && memZ (gx_usepr a) [c_NO; c_YES] &&
                 (-1 <=? gx_lwork a));
    (3, fun a => square_nonneg (gx_A a) && memZ (m_st (gx_A a)) [c_SLU_NC; c_SLU_NR] &&
                 (m_dt (gx_A a) =? dtype_of p) && (m_mt (gx_A a) =? c_SLU_GE));
    (6, fun a => implb (gx_fact a =? c_FACTORED)
                       (memZ (gx_equed a) [c_NOEQUIL; c_ROW; c_COL; c_BOTH]));
    (7, fun a => implb ((gx_fact a =? c_FACTORED) && memZ (gx_equed a) [c_ROW; c_BOTH])
                       (all_pos (firstn (Z.to_nat (m_nr (gx_A a))) (gx_R a))));
    (8, fun a => implb ((gx_fact a =? c_FACTORED) && memZ (gx_equed a) [c_COL; c_BOTH])
                       (all_pos (firstn (Z.to_nat (m_nc (gx_A a))) (gx_C a))));
    (11, fun a => dn_types p (gx_B a) && (0 <=? m_nc (gx_B a)) && (m_nr (gx_A a) <=? m_lda (gx_B a)));
    (12, fun a => dn_types p (gx_X a) && (0 <=? m_nc (gx_X a)) && (m_nc (gx_X a) =? m_nc (gx_B a)) &&
                  (m_nr (gx_A a) <=? m_lda (gx_X a))) ].

(* "R dimension (A->nrow), C dimension (A->ncol)" *)
Definition gssvx_wf (a : gssvx_args) : Prop :=
  m_nr (gx_A a) <= Z.of_nat (length (gx_R a)) /\ m_nc (gx_A a) <= Z.of_nat (length (gx_C a)).

(* ?gstrs(trans, L, U, perm_r, perm_c, B, Gstat, info)   header of SRC/dgstrs.c.
   trans: NOTRANS, TRANS or CONJ (A^H; for real matrices the same as TRANS), as the drivers' documentation relies on.
   L "has types Stype = SCP, Dtype = _D, Mtype = TRLU", U "Stype = NCP, Dtype = _D, Mtype = TRU",
   B "Stype = DN, Dtype = _D, Mtype = GE". *)
Definition doc_gstrs (p : prec) : list (Z * (gstrs_args -> bool)) :=
  [ (1, fun a => memZ (gt_trans a) [c_NOTRANS; c_TRANS; c_CONJ]);
    (2, fun a => square_nonneg (gt_L a) && l_types p (gt_L a));
    (3, fun a => square_nonneg (gt_U a) && u_types p (gt_U a));
    (6, fun a => dn_types p (gt_B a) && (0 <=? m_nc (gt_B a)) && (m_nr (gt_L a) <=? m_lda (gt_B a))) ].

(* ?gsrfs(trans, A, L, U, perm_r, perm_c, equed, R, C, B, X, ferr, berr, Gstat, info) *)
Definition doc_gsrfs (p : prec) : list (Z * (gsrfs_args -> bool)) :=
  [ (1, fun a => memZ (gr_trans a) [c_NOTRANS; c_TRANS; c_CONJ]);
    (2, fun a => square_nonneg (gr_A a) && has_types (gr_A a) c_SLU_NC (dtype_of p) c_SLU_GE);
    (3, fun a => square_nonneg (gr_L a) && l_types p (gr_L a));
    (4, fun a => square_nonneg (gr_U a) && u_types p (gr_U a));
    (10, fun a => dn_types p (gr_B a) && (0 <=? m_nc (gr_B a)) && (m_nr (gr_A a) <=? m_lda (gr_B a)));
    (11, fun a => dn_types p (gr_X a) && (m_nc (gr_X a) =? m_nc (gr_B a)) &&
                  (m_nr (gr_A a) <=? m_lda (gr_X a))) ].

(* ?gscon(norm, L, U, anorm, rcond, info): norm = '1' or 'O' or 'I' (letters in either case, the
   LAPACK convention implemented by lsame_) *)
Definition doc_gscon (p : prec) : list (Z * (gscon_args -> bool)) :=
  [ (1, fun a => (gc_norm a =? ch_1) || is_letter (gc_norm a) ch_O || is_letter (gc_norm a) ch_I);
    (2, fun a => square_nonneg (gc_L a) && l_types p (gc_L a));
    (3, fun a => square_nonneg (gc_U a) && u_types p (gc_U a)) ].

(* ?gsequ(A, r, c, rowcnd, colcnd, amax, info): A is M-by-N, Stype = SLU_NC, Dtype, Mtype = SLU_GE *)
Definition doc_gsequ (p : prec) : list (Z * (mat -> bool)) :=
  [ (1, fun A => (0 <=? m_nr A) && (0 <=? m_nc A) && has_types A c_SLU_NC (dtype_of p) c_SLU_GE) ].

(* sp_?trsv(uplo, trans, diag, L, U, x, info): uplo 'U','u','L','l'; trans 'N','n','T','t','C','c';
   diag 'U','u','N','n'; L, U the factors (types as above; the header's "SC" for L is the SCP
   format that the body casts L->Store to) *)
Definition doc_trsv (p : prec) : list (Z * (trsv_args -> bool)) :=
  [ (1, fun a => is_letter (tv_uplo a) ch_U || is_letter (tv_uplo a) ch_L);
    (2, fun a => is_letter (tv_trans a) ch_N || is_letter (tv_trans a) ch_T || is_letter (tv_trans a) ch_C);
    (3, fun a => is_letter (tv_diag a) ch_U || is_letter (tv_diag a) ch_N);
    (4, fun a => square_nonneg (tv_L a) && l_types p (tv_L a));
    (5, fun a => square_nonneg (tv_U a) && u_types p (tv_U a)) ].

(* sp_?gemv(trans, alpha, A, x, incx, beta, y, incy): trans 'N','T','C' either case; A of dimension
   (nrow, ncol), "Stype = NC or NCP; Dtype = SLU_D; Mtype = GE"; incx, incy must not be zero *)
Definition doc_gemv (p : prec) : list (Z * (gemv_args -> bool)) :=
  [ (1, fun a => is_letter (gm_trans a) ch_N || is_letter (gm_trans a) ch_T || is_letter (gm_trans a) ch_C);
    (3, fun a => (0 <=? m_nr (gm_A a)) && (0 <=? m_nc (gm_A a)) &&
                 memZ (m_st (gm_A a)) [c_SLU_NC; c_SLU_NCP] &&
                 (m_dt (gm_A a) =? dtype_of p) && (m_mt (gm_A a) =? c_SLU_GE));
    (5, fun a => negb (gm_incx a =? 0));
    (8, fun a => negb (gm_incy a =? 0)) ].

(* ?gstrs numbers L and U one position too high (SRC/dgstrs.c:100-101): the map from the documented
   position to the one the code reports *)
Definition gstrs_renumber (i : Z) : Z :=
  if i =? -2 then -3 else if i =? -3 then -4 else i.
