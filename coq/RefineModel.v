(* RefineModel.v -- executable model (no proofs) of SRC/dgsrfs.c (iterative refinement, componentwise
   backward error, forward error bound) with the pieces it calls:
     sp_dgemv (SRC/dsp_blas2.c:317-, unit increments)   residual  R = B - op(A) X
     the hand loops  abs(op(A))*abs(X) + abs(B)          (two orientations)
     the berr formula with the safe1/safe2 guards, the stop rule (eps, halving, ITMAX from Consts.v)
     CBLAS daxpy_ with da = 1 (element-wise, no reassociation)
     the (nz_i+1)*eps weights and the dlacon_ loop with the KASE=1/2 operators, equilibration factors,
     normalisation by max |x_i| (scaled)
   dgstrs is NOT modelled beyond its trans argument check (gstrs_info: NOTRANS, TRANS and - since the fix of
   finding F3 - CONJ are accepted, CONJ meaning TRANS for real data): it is an abstract solve carried by a state S
   (pure function in the theorems, a tape of recorded outputs of the real dgstrs in the correspondence check).
   Complex twins at HEAD (not modelled, oracle only): c/zgsrfs use transc = 'C' for CONJ and transt = CONJ /
   NOTRANS (conjugate-transpose operator for ?lacon_), c/zgstrs solve CONJ as conj(inv(A**T) conj(b)).
   Same abstract arithmetic as LaconModel.v (Q for theorems, PrimFloat for bit-exact comparison). *)
Require Import ZArith List Bool QArith Floats.
From SLU Require Import Consts LaconModel.
Import ListNotations.
Local Open Scope Z_scope.

Section RefineGeneric.
Context {T : Type} (A : Arith T).
Local Notation z0 := (a0 A). Local Notation o1 := (a1 A).
Local Notation colsT := (list (list (nat * T))).

(* ---------------------------------------------------------------- sp_dgemv, incx = incy = 1 *)
(* y := alpha*A*x + y, one pass over the columns, columns with x[j] == 0 skipped *)
Definition gemvN (alpha : T) (cols : colsT) (x y : list T) : list T :=
  fold_left (fun y (p : T * list (nat * T)) =>
               let (xj, col) := p in
               if aeqb A xj z0 then y
               else let temp := amul A alpha xj in
                    fold_left (fun y e => upd y (fst e) (aadd A (nth (fst e) y z0) (amul A temp (snd e)))) col y)
            (combine x cols) y.

(* y := alpha*A'*x + y *)
Definition gemvT (alpha : T) (cols : colsT) (x y : list T) : list T :=
  map (fun (p : T * list (nat * T)) =>
         let (yj, col) := p in
         aadd A yj (amul A alpha (fold_left (fun t e => aadd A t (amul A (snd e) (nth (fst e) x z0))) col z0)))
      (combine y cols).

Definition sp_gemv (notran : bool) (alpha beta : T) (cols : colsT) (x y : list T) : list T :=
  if (aeqb A alpha z0) && (aeqb A beta o1) then y
  else
    let y1 := if aeqb A beta o1 then y
              else if aeqb A beta z0 then map (fun _ => z0) y else map (amul A beta) y in
    if aeqb A alpha z0 then y1
    else if notran then gemvN alpha cols x y1 else gemvT alpha cols x y1.

(* R = B - op(A)*X :  dcopy_(B -> work); sp_dgemv(transc, -1, A, X, 1, 1, work, 1) *)
Definition residual (notran : bool) (cols : colsT) (x b : list T) : list T :=
  sp_gemv notran (aopp A o1) o1 cols x b.

(* abs(op(A))*abs(X) + abs(B) *)
Definition denomN (cols : colsT) (x b : list T) : list T :=
  fold_left (fun rw (p : T * list (nat * T)) =>
               let (xk0, col) := p in
               let xk := afabs A xk0 in
               fold_left (fun rw e => upd rw (fst e) (aadd A (nth (fst e) rw z0) (amul A (afabs A (snd e)) xk))) col rw)
            (combine x cols) (map (afabs A) b).
Definition denomT (cols : colsT) (x b : list T) : list T :=
  map (fun (p : T * list (nat * T)) =>
         let (bk, col) := p in
         aadd A (afabs A bk)
              (fold_left (fun s e => aadd A s (amul A (afabs A (snd e)) (afabs A (nth (fst e) x z0)))) col z0))
      (combine b cols).
Definition denom (notran : bool) cols x b := if notran then denomN cols x b else denomT cols x b.

(* s = max_i ( rwork[i] > safe2 ? |work[i]|/rwork[i] : rwork[i] != 0 ? (|work[i]|+safe1)/rwork[i] : skip ) *)
Definition berr_term (safe1 safe2 : T) (w rw : T) : option T :=
  if altb A safe2 rw then Some (adiv A (afabs A w) rw)
  else if negb (aeqb A rw z0) then Some (adiv A (aadd A (afabs A w) safe1) rw)
  else None.
Definition berr_of (safe1 safe2 : T) (work rwork : list T) : T :=
  fold_left (fun s (p : T * T) => match berr_term safe1 safe2 (fst p) (snd p) with
                                  | Some t => smax A s t | None => s end)
            (combine work rwork) z0.

(* daxpy_(n, 1.0, work, 1, X, 1) *)
Definition daxpy1 (dx y : list T) : list T := map (fun p : T * T => aadd A (snd p) (amul A o1 (fst p))) (combine dx y).

Record refine_out (S : Type) := mkRout {
  ro_s : S; ro_x : list T; ro_work : list T; ro_berr : T; ro_count : Z; ro_berrs : list T }.
Arguments mkRout {S}. Arguments ro_s {S}. Arguments ro_x {S}. Arguments ro_work {S}.
Arguments ro_berr {S}. Arguments ro_count {S}. Arguments ro_berrs {S}.

(* while (1) { residual; berr; if (berr > eps && berr*2 <= lstres && count < ITMAX) { dgstrs; daxpy; lstres = berr; ++count } else break } *)
Fixpoint refine_loop {S} (fuel : nat) (notran : bool) (cols : colsT) (b : list T) (eps safe1 safe2 : T)
         (solve : S -> list T -> S * list T) (s : S) (x : list T) (count : Z) (lstres : T) (berrs : list T)
  : option (refine_out S) :=
  match fuel with
  | O => None
  | Datatypes.S f =>
      let work := residual notran cols x b in
      let rw := denom notran cols x b in
      let be := berr_of safe1 safe2 work rw in
      if altb A eps be && aleb A (amul A be (aofZ A 2)) lstres && (count <? c_ITMAX) then
        let (s', dx) := solve s work in
        refine_loop f notran cols b eps safe1 safe2 solve s' (daxpy1 dx x) (count + 1) be (berrs ++ [be])
      else Some (mkRout s x work be count (berrs ++ [be]))
  end.

Definition refine_fuel : nat := Z.to_nat c_ITMAX + 1.

(* ---------------------------------------------------------------- forward error bound *)
(* number of stored entries in each row of op(A) *)
Definition row_counts (notran : bool) (nrow : nat) (cols : colsT) : list Z :=
  if notran then
    fold_left (fun cnt col => fold_left (fun cnt (e : nat * T) => upd cnt (fst e) (nth (fst e) cnt 0 + 1)) col cnt)
              cols (repeat 0 nrow)
  else map (fun col => Z.of_nat (length col)) cols.

(* rwork[i] = |work[i]| + (iwork[i]+1)*eps*rwork[i]  (+ safe1 when rwork[i] <= safe2) *)
Definition ferr_weights (eps safe1 safe2 : T) (work rw : list T) (cnt : list Z) : list T :=
  map (fun p : (T * T) * Z =>
         let w := fst (fst p) in let r := snd (fst p) in let c := snd p in
         let base := aadd A (afabs A w) (amul A (amul A (aofZ A (c + 1)) eps) r) in
         if altb A safe2 r then base else aadd A base safe1)
      (combine (combine work rw) cnt).

Definition vmul (a b : list T) : list T := map (fun p : T * T => amul A (fst p) (snd p)) (combine a b).

(* the operator of the dlacon_ loop in dgsrfs:  solveT = dgstrs(transt,...), solveN = dgstrs(trans,...);
   sc = Some C (notran && colequ) | Some R (!notran && rowequ) | None *)
Definition ferr_op {S} (solveN solveT : S -> list T -> S * list T) (sc : option (list T)) (w : list T)
           (s : S) (io : lacon_io (T:=T)) : S * list T :=
  if kase io =? 1 then
    let x1 := match sc with Some c => vmul (xx io) c | None => xx io end in
    let (s', y) := solveT s x1 in (s', vmul y w)
  else
    let x1 := vmul (xx io) w in
    let (s', y) := solveN s x1 in
    (s', match sc with Some c => vmul y c | None => y end).

(* lstres = max_i sc_i*|x_i| ; note C[i]*fabs(X[i]) *)
Definition xnorm (sc : option (list T)) (x : list T) : T :=
  match sc with
  | Some c => fold_left (fun m (p : T * T) => smax A m (amul A (fst p) (afabs A (snd p)))) (combine c x) z0
  | None => fold_left (fun m xi => smax A m (afabs A xi)) x z0
  end.

Record ferr_out (S : Type) := mkFout { fo_s : S; fo_ferr : T; fo_raw : T; fo_napp : nat; fo_ok : bool; fo_w : list T }.
Arguments mkFout {S}. Arguments fo_s {S}. Arguments fo_ferr {S}. Arguments fo_raw {S}. Arguments fo_napp {S}.
Arguments fo_ok {S}. Arguments fo_w {S}.

Definition ferr_bound {S} (notran : bool) (nrow : nat) (cols : colsT) (b : list T) (eps safe1 safe2 : T)
           (solveN solveT : S -> list T -> S * list T) (sc : option (list T)) (s : S) (st : lacon_st (T:=T))
           (x work : list T) : ferr_out S * lacon_st (T:=T) :=
  let rw := denom notran cols x b in
  let w := ferr_weights eps safe1 safe2 work rw (row_counts notran nrow cols) in
  (* dlacon_(&n, &work[n], work, &iwork[n], &ferr[j], &kase): x = work (overwritten), v, isgn workspace *)
  let io0 := mkIo (repeat z0 nrow) work (repeat 0 nrow) z0 0 in
  match lacon_drive A lacon_fuel nrow (ferr_op solveN solveT sc w) s st io0 O with
  | None => (mkFout s z0 z0 O false w, st)
  | Some r =>
      let raw := est (r_io r) in
      let ls := xnorm sc x in
      let fe := if negb (aeqb A ls z0) then adiv A raw ls else raw in
      (mkFout (r_s r) fe raw (r_napp r) true w, r_st r)
  end.

(* ---------------------------------------------------------------- one right-hand side of dgsrfs *)
Record col_out := mkCout { co_x : list T; co_berr : T; co_ferr : T; co_count : Z; co_berrs : list T;
                           co_ferr_raw : T; co_napp : nat; co_ok : bool }.

(* safe1 = nz*safmin, safe2 = safe1/eps with nz = ncol+1 *)
Definition safe1_of (ncol : nat) (safmin : T) : T := amul A (aofZ A (Z.of_nat ncol + 1)) safmin.
Definition safe2_of (ncol : nat) (eps safmin : T) : T := adiv A (safe1_of ncol safmin) eps.

Definition gsrfs_col {S} (trans : Z) (equed : Z) (R C : list T) (nrow : nat) (cols : colsT) (eps safmin : T)
           (solve : S -> Z -> list T -> S * list T) (s : S) (st : lacon_st (T:=T)) (b x : list T)
  : S * lacon_st (T:=T) * col_out :=
  let notran := trans =? c_NOTRANS in
  let transt := if notran then c_TRANS else c_NOTRANS in
  let rowequ := (equed =? c_ROW) || (equed =? c_BOTH) in
  let colequ := (equed =? c_COL) || (equed =? c_BOTH) in
  let sc := if notran && colequ then Some C else if negb notran && rowequ then Some R else None in
  let safe1 := safe1_of nrow safmin in
  let safe2 := safe2_of nrow eps safmin in
  match refine_loop refine_fuel notran cols b eps safe1 safe2 (fun s v => solve s trans v) s x 0 (aofZ A 3) [] with
  | None => (s, st, mkCout x z0 z0 0 [] z0 O false)
  | Some ro =>
      let '(fo, st') := ferr_bound notran nrow cols b eps safe1 safe2
                                   (fun s v => solve s trans v) (fun s v => solve s transt v) sc (ro_s ro) st
                                   (ro_x ro) (ro_work ro) in
      (fo_s fo, st', mkCout (ro_x ro) (ro_berr ro) (fo_ferr fo) (ro_count ro) (ro_berrs ro) (fo_raw fo)
                            (fo_napp fo) (fo_ok fo))
  end.

Fixpoint gsrfs_cols {S} (trans equed : Z) (R C : list T) (nrow : nat) (cols : colsT) (eps safmin : T)
         (solve : S -> Z -> list T -> S * list T) (s : S) (st : lacon_st (T:=T)) (bs xs : list (list T))
  : S * list col_out :=
  match bs, xs with
  | b :: bs', x :: xs' =>
      let '(s1, st1, o) := gsrfs_col trans equed R C nrow cols eps safmin solve s st b x in
      let (s2, os) := gsrfs_cols trans equed R C nrow cols eps safmin solve s1 st1 bs' xs' in
      (s2, o :: os)
  | _, _ => (s, [])
  end.

(* dgstrs: "if ( trans != NOTRANS && trans != TRANS && trans != CONJ ) *info = -1;" *)
Definition gstrs_info (trans : Z) : Z :=
  if (trans =? c_NOTRANS) || (trans =? c_TRANS) || (trans =? c_CONJ) then 0 else -1.

(* dgsrfs argument checks that matter here: info = -1 for an unknown trans; quick return for n = 0 / nrhs = 0 *)
Definition gsrfs_info (trans : Z) : Z :=
  if (trans =? c_NOTRANS) || (trans =? c_TRANS) || (trans =? c_CONJ) then 0 else -1.

End RefineGeneric.
Arguments mkRout {T S}. Arguments ro_s {T S}. Arguments ro_x {T S}. Arguments ro_work {T S}.
Arguments ro_berr {T S}. Arguments ro_count {T S}. Arguments ro_berrs {T S}.
Arguments mkFout {T S}. Arguments fo_s {T S}. Arguments fo_ferr {T S}. Arguments fo_raw {T S}.
Arguments fo_napp {T S}. Arguments fo_ok {T S}. Arguments fo_w {T S}.

(* ---------------------------------------------------------------- replay against recorded dgstrs calls *)
Section RTape.
Context {T : Type}.
Record rtape := mkRtape { rt_rest : list (list T); rt_asked : list (Z * list T) }.
Definition rtape_solve (s : rtape) (trans : Z) (x : list T) : rtape * list T :=
  match rt_rest s with
  | [] => (mkRtape [] (rt_asked s ++ [(trans, x)]), x)
  | y :: r => (mkRtape r (rt_asked s ++ [(trans, x)]), y)
  end.
End RTape.

Section REntry.
Context {T : Type} (A : Arith T).
Definition cout_tuple (o : col_out (T:=T)) :=
  (co_x o, co_berr o, co_ferr o, co_count o, co_berrs o, co_ferr_raw o, co_napp o, co_ok o).
Definition gsrfs_replay (trans equed : Z) (R C : list T) (nrow : nat) (cols : list (list (nat * T)))
           (eps safmin : T) (tape : list (list T)) (bs xs : list (list T)) :=
  let '(s, os) := gsrfs_cols A trans equed R C nrow cols eps safmin rtape_solve (mkRtape tape [])
                             (st_init A) bs xs in
  (map cout_tuple os, rt_asked s, length (rt_rest s), map (fun a : Z * list T => gstrs_info (fst a)) (rt_asked s)).
End REntry.
