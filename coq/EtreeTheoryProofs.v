(* EtreeTheoryProofs.v -- elimination tree theory used by the correctness proof of Liu's algorithm,
   abstract over a "filled graph" F of a graph E on 0..n-1:
     F symmetric, E <= F, closure (k<i, k<j, F k i, F k j -> F i j),
     origin (F i j -> E i j \/ exists k < min i j, F k i /\ F k j),
   and P j = least i > j with F j i (n if none).
   Fact A: F j i (j < i) -> i is an ancestor of j.
   Fact C: F t c (t < c) -> some descendant-or-self r of t has E r c.
   The ancestors of a vertex form a chain. *)
From Coq Require Import ZArith List Bool Lia.
Import ListNotations.
Local Open Scope Z_scope.

Section Theory.
  Variable n : Z.
  Variables E F : Z -> Z -> Prop.
  Variable P : Z -> Z.
  Hypothesis Fsym : forall i j, 0 <= i < n -> 0 <= j < n -> F i j -> F j i.
  Hypothesis EF : forall i j, 0 <= i < n -> 0 <= j < n -> E i j -> F i j.
  Hypothesis Fclos : forall k i j, 0 <= k -> k < i < n -> k < j < n -> F k i -> F k j -> F i j.
  Hypothesis Forig : forall i j, 0 <= i < n -> 0 <= j < n -> F i j ->
    E i j \/ exists k, 0 <= k /\ k < i /\ k < j /\ F k i /\ F k j.
  Hypothesis Pspec : forall j, 0 <= j < n ->
    j < P j <= n /\ (forall i, j < i < P j -> ~ F j i) /\ (P j < n -> F j (P j)).

  (* b is an ancestor-or-self of a in the tree given by P *)
  Inductive ancP : Z -> Z -> Prop :=
  | ancP_refl : forall a, ancP a a
  | ancP_step : forall a b, 0 <= a < n -> ancP (P a) b -> ancP a b.

  Lemma ancP_le : forall a b, ancP a b -> a <= b.
  Proof. induction 1 as [a|a b Ha H IH]; [lia|]. destruct (Pspec a Ha) as [Hp _]. lia. Qed.

  Lemma ancP_trans : forall a b c, ancP a b -> ancP b c -> ancP a c.
  Proof. induction 1; intros; auto. apply ancP_step; auto. Qed.

  Lemma ancP_parent : forall a, 0 <= a < n -> ancP a (P a).
  Proof. intros a Ha. apply ancP_step; auto. apply ancP_refl. Qed.

  (* Fact A *)
  Lemma factA : forall (m : nat) j i, (Z.to_nat (i - j) <= m)%nat -> 0 <= j -> j < i < n -> F j i -> ancP j i.
  Proof.
    induction m as [|m IH]; intros j i Hm Hj Hi HF; [lia|].
    destruct (Pspec j ltac:(lia)) as [Hp [Hmin Hhit]].
    assert (Hpi : P j <= i).
    { destruct (Z_le_gt_dec (P j) i); auto. exfalso. apply (Hmin i); auto. lia. }
    destruct (Z.eq_dec (P j) i) as [E1|E1].
    - rewrite <- E1. apply ancP_parent. lia.
    - apply ancP_step; [lia|]. apply IH; try lia.
      apply (Fclos j (P j) i); try lia; auto. apply Hhit. lia.
  Qed.

  Lemma fact_A : forall j i, 0 <= j -> j < i < n -> F j i -> ancP j i.
  Proof. intros j i. apply (factA (Z.to_nat (i - j))). lia. Qed.

  (* Fact C *)
  Lemma factC : forall (m : nat) t c, (Z.to_nat t < m)%nat -> 0 <= t -> t < c < n -> F t c ->
    exists r, 0 <= r <= t /\ ancP r t /\ E r c.
  Proof.
    induction m as [|m IH]; intros t c Hm Ht Hc HF; [lia|].
    destruct (Forig t c ltac:(lia) ltac:(lia) HF) as [HE|[k [Hk0 [Hkt [Hkc [Fkt Fkc]]]]]].
    - exists t. split; [lia|]. split; [apply ancP_refl|auto].
    - destruct (IH k c) as [r [Hr [Hanc HE]]]; try lia; auto.
      exists r. split; [lia|]. split; auto.
      apply (ancP_trans r k t); auto. apply fact_A; auto; lia.
  Qed.

  Lemma fact_C : forall t c, 0 <= t -> t < c < n -> F t c -> exists r, 0 <= r <= t /\ ancP r t /\ E r c.
  Proof. intros t c. apply (factC (S (Z.to_nat t))). lia. Qed.

  (* the ancestors of x form a chain *)
  Lemma anc_chain : forall x a b, ancP x a -> ancP x b -> a <= b -> ancP a b.
  Proof.
    intros x a b Ha. revert b. induction Ha as [y|y a Hy Ha IH]; intros b Hb Hab; auto.
    inversion Hb as [z|z w Hz Hb']; subst.
    - (* b = y: then P y <= a <= y, impossible *)
      apply ancP_le in Ha. destruct (Pspec b Hy) as [Hp _]. lia.
    - apply IH; auto.
  Qed.

  (* t is the highest ancestor of x below c, c an ancestor of x: then P t = c *)
  Lemma top_parent : forall x t c, ancP x t -> ancP x c -> 0 <= t < n -> t < c -> c <= P t -> P t = c.
  Proof.
    intros x t c Ht Hc Htn Htc Hpc.
    assert (Htc' : ancP t c) by (apply (anc_chain x); auto; lia).
    inversion Htc' as [|? ? _ Hpt]; subst; [lia|].
    apply ancP_le in Hpt. lia.
  Qed.
End Theory.
