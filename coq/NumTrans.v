(* NumTrans.v -- the transposed solve (trans = TRANS / CONJ on real data): with the factors B ~ L U of lu_rel the library
   solves B^T x = c by a forward substitution with U^T (lower triangular, division by the diagonal) followed by a back
   substitution with L^T (unit upper triangular).  Both are backward stable for any summation order, and the whole solve
   satisfies  |c - B^T x| <= gamma(3n) |U^T||L^T||x|  componentwise. *)
From Coq Require Import Reals Lra Lia List.
From SLU Require Import NumBase NumSum NumLU NumSolve.
Import ListNotations.
Local Open Scope R_scope.

Section TRANS.
Variable u : R.
Hypothesis Hu0 : 0 <= u.
Hypothesis Hu1 : u < 1.

(* forward substitution with a lower triangular T and division:  y_i = fl( fl-any( b_i - sum_{k<i} t_ik y_k ) / t_ii ) *)
Definition lsolved_rel (n : nat) (T : mat) (b y : vec) : Prop :=
  forall i, (i < n)%nat -> exists ps s, (forall k, (k < i)%nat -> fl_eq u (T i k * y k) (ps k)) /\
                                     fl_sum_any u (b i :: map (fun k => - ps k) (seq 0 i)) s /\
                                     T i i <> 0 /\ fl_eq u (s / T i i) (y i).

(* back substitution with a unit upper triangular T:  x_i = fl-any( y_i - sum_{k>i} t_ik x_k ) *)
Definition uusolve_rel (n : nat) (T : mat) (y x : vec) : Prop :=
  forall i, (i < n)%nat -> exists ps, (forall k, (k < n - 1 - i)%nat -> fl_eq u (T i (i + 1 + k)%nat * x (i + 1 + k)%nat) (ps k)) /\
                                   fl_sum_any u (y i :: map (fun k => - ps k) (seq 0 (n - 1 - i))) (x i).

Lemma nth_map_seq (d : nat -> R) n k : (k < n)%nat -> nth k (map d (seq 0 n)) 0 = d k.
Proof.
  intros Hk. rewrite (nth_indep _ 0 (d 0%nat)) by (rewrite map_length, seq_length; lia).
  rewrite map_nth, seq_nth by lia. reflexivity.
Qed.

Theorem lsolved_backward n T b y : lsolved_rel n T b y -> (forall i j, (i < j)%nat -> T i j = 0) -> INR n * u < 1 ->
  exists dT : mat, (forall i j, (i < n)%nat -> (j < n)%nat -> Rabs (dT i j) <= gamma u n * Rabs (T i j)) /\
                   forall i, (i < n)%nat -> b i = bigsum (fun k => (T i k + dT i k) * y k) n.
Proof.
  intros H Hz Hn.
  assert (Gn : 0 <= gamma u n) by (apply gamma_nonneg; auto).
  assert (Hrow : forall i, (i < n)%nat -> exists row : list R, length row = n /\
            (forall j, (j < n)%nat -> Rabs (nth j row 0) <= gamma u n * Rabs (T i j)) /\
            b i = bigsum (fun k => (T i k + nth k row 0) * y k) n).
  { intros i Hi. destruct (H i Hi) as (ps & s & Hp & Hs & Hnz & Hy).
    destruct (dot_any u Hu0 Hu1 (b i) i (fun k => T i k) y ps s Hp Hs) as (f & eta & Tf & Te & Es).
    destruct (Theta_of_fl u _ _ Hy) as (t & Tt & Ey).
    pose proof (Theta_pos u Hu0 Hu1 _ _ Tf) as Pf. pose proof (Theta_pos u Hu0 Hu1 _ _ Tt) as Pt.
    set (g := (1 + f) * (1 + t) - 1).
    assert (Tg : Theta u (i + 1) g) by (unfold g; now apply Theta_mul).
    pose proof (Theta_pos u Hu0 Hu1 _ _ Tg) as Pg.
    set (d := fun k => if Nat.ltb k i then T i k * eta k else if Nat.eqb k i then T i i * (/ (1 + g) - 1) else 0).
    exists (map d (seq 0 n)). split; [now rewrite map_length, seq_length|].
    split.
    - intros j Hj. rewrite (nth_map_seq d n j Hj). unfold d.
      destruct (Nat.ltb_spec j i) as [Hlt|Hge].
      + apply (abs_scale _ _ (gamma u i)); [|apply gamma_mono; auto; lia].
        apply (Theta_gamma u Hu0 Hu1 _ _ (Te j Hlt) (le_n_u u Hu0 i n ltac:(lia) Hn)).
      + destruct (Nat.eqb_spec j i) as [->|Hne].
        * apply (abs_scale _ _ (gamma u (i + 1))); [|apply gamma_mono; auto; lia].
          apply (Theta_gamma u Hu0 Hu1 _ _ (Theta_inv u Hu0 Hu1 _ _ Tg) (le_n_u u Hu0 (i + 1) n ltac:(lia) Hn)).
        * rewrite Rabs_R0. pose proof (Rabs_pos (T i j)). nra.
    - rewrite (bigsum_ext _ (fun k => (T i k + d k) * y k)) by (intros k Hk; now rewrite (nth_map_seq d n k Hk)).
      rewrite (bigsum_trunc (fun k => (T i k + d k) * y k) n i Hi).
      2:{ intros k Hk. unfold d. destruct (Nat.ltb_spec k i); [lia|]. destruct (Nat.eqb_spec k i); [lia|].
          rewrite (Hz i k) by lia. ring. }
      rewrite (bigsum_ext (fun k => (T i k + d k) * y k) (fun k => T i k * y k * (1 + eta k)) i).
      2:{ intros k Hk. unfold d. destruct (Nat.ltb_spec k i); [ring | lia]. }
      unfold d. destruct (Nat.ltb_spec i i); [lia|]. rewrite Nat.eqb_refl.
      assert (Eyi : T i i * y i = (1 + g) * (b i - bigsum (fun k => T i k * y k * (1 + eta k)) i)).
      { rewrite Ey, Es. unfold g. field. exact Hnz. }
      assert (Hb : b i = T i i * y i / (1 + g) + bigsum (fun k => T i k * y k * (1 + eta k)) i) by (rewrite Eyi; field; lra).
      etransitivity; [exact Hb|]. unfold Rdiv. ring. }
  destruct (rows_choice _ n Hrow) as (rows & Lr & Hr).
  exists (fun i k => nth k (nth i rows []) 0). split.
  - intros i j Hi Hj. now apply (Hr i Hi).
  - intros i Hi. now apply (Hr i Hi).
Qed.

Theorem uusolve_backward n T y x : uusolve_rel n T y x -> (forall i, (i < n)%nat -> T i i = 1) ->
  (forall i j, (j < i)%nat -> T i j = 0) -> INR n * u < 1 ->
  exists dT : mat, (forall i j, (i < n)%nat -> (j < n)%nat -> Rabs (dT i j) <= gamma u n * Rabs (T i j)) /\
                   forall i, (i < n)%nat -> y i = bigsum (fun k => (T i k + dT i k) * x k) n.
Proof.
  intros H Hd Hz Hn.
  assert (Gn : 0 <= gamma u n) by (apply gamma_nonneg; auto).
  assert (Hrow : forall i, (i < n)%nat -> exists row : list R, length row = n /\
            (forall j, (j < n)%nat -> Rabs (nth j row 0) <= gamma u n * Rabs (T i j)) /\
            y i = bigsum (fun k => (T i k + nth k row 0) * x k) n).
  { intros i Hi. destruct (H i Hi) as (ps & Hp & Hs).
    set (m := (n - 1 - i)%nat) in *.
    destruct (dot_any u Hu0 Hu1 (y i) m (fun k => T i (i + 1 + k)%nat) (fun k => x (i + 1 + k)%nat) ps (x i) Hp Hs) as (f & eta & Tf & Te & Es).
    pose proof (Theta_pos u Hu0 Hu1 _ _ Tf) as Pf.
    set (d := fun k => if Nat.ltb i k then T i k * eta (k - (i + 1))%nat else if Nat.eqb k i then (/ (1 + f) - 1) else 0).
    exists (map d (seq 0 n)). split; [now rewrite map_length, seq_length|].
    split.
    - intros j Hj. rewrite (nth_map_seq d n j Hj). unfold d.
      destruct (Nat.ltb_spec i j) as [Hlt|Hge].
      + assert (Hk : (j - (i + 1) < m)%nat) by (unfold m; lia).
        apply (abs_scale _ _ (gamma u m)); [|apply gamma_mono; auto; unfold m; lia].
        apply (Theta_gamma u Hu0 Hu1 _ _ (Te _ Hk) (le_n_u u Hu0 m n ltac:(unfold m; lia) Hn)).
      + destruct (Nat.eqb_spec j i) as [->|Hne].
        * rewrite (Hd i Hi), Rabs_R1, Rmult_1_r.
          assert (Gm : gamma u m <= gamma u n) by (apply gamma_mono; auto; unfold m; lia).
          pose proof (Theta_gamma u Hu0 Hu1 _ _ (Theta_inv u Hu0 Hu1 _ _ Tf) (le_n_u u Hu0 m n ltac:(unfold m; lia) Hn)). lra.
        * rewrite Rabs_R0. pose proof (Rabs_pos (T i j)). nra.
    - rewrite (bigsum_ext _ (fun k => (T i k + d k) * x k)) by (intros k Hk; now rewrite (nth_map_seq d n k Hk)).
      rewrite (bigsum_shift (fun k => (T i k + d k) * x k) n i) by (first [lia | intros k Hk; unfold d;
        destruct (Nat.ltb_spec i k); [lia|]; destruct (Nat.eqb_spec k i); [lia|]; rewrite (Hz i k) by lia; ring]).
      replace (n - i)%nat with (S m) by (unfold m; lia).
      assert (Hsplit : forall (h : nat -> R) q, bigsum h (S q) = h 0%nat + bigsum (fun k => h (S k)) q).
      { intros h q. induction q as [|q IHq]; [unfold bigsum; simpl; lra|]. rewrite bigsum_S, IHq, bigsum_S. lra. }
      rewrite Hsplit. rewrite Nat.add_0_r.
      rewrite (bigsum_ext (fun k => (T i (i + S k)%nat + d (i + S k)%nat) * x (i + S k)%nat)
                          (fun k => T i (i + 1 + k)%nat * x (i + 1 + k)%nat * (1 + eta k)) m).
      2:{ intros k Hk. unfold d. replace (i + S k)%nat with (i + 1 + k)%nat by lia.
          destruct (Nat.ltb_spec i (i + 1 + k)%nat); [|lia]. replace (i + 1 + k - (i + 1))%nat with k by lia. ring. }
      unfold d. destruct (Nat.ltb_spec i i); [lia|]. rewrite Nat.eqb_refl, (Hd i Hi).
      rewrite Es. field. lra. }
  destruct (rows_choice _ n Hrow) as (rows & Lr & Hr).
  exists (fun i k => nth k (nth i rows []) 0). split.
  - intros i j Hi Hj. now apply (Hr i Hi).
  - intros i Hi. now apply (Hr i Hi).
Qed.

(* composition of two backward-stable triangular solves with an approximate product *)
Lemma compose_backward n (M1 M2 B d1 d2 : mat) (c x : vec) :
  INR (3 * n) * u < 1 ->
  (forall i j, (i < n)%nat -> (j < n)%nat -> Rabs (d1 i j) <= gamma u n * Rabs (M1 i j)) ->
  (forall i j, (i < n)%nat -> (j < n)%nat -> Rabs (d2 i j) <= gamma u n * Rabs (M2 i j)) ->
  (forall i j, (i < n)%nat -> (j < n)%nat ->
     Rabs (B i j - bigsum (fun k => M1 i k * M2 k j) n) <= gamma u n * bigsum (fun k => Rabs (M1 i k) * Rabs (M2 k j)) n) ->
  forall i, (i < n)%nat ->
    c i = bigsum (fun j => bigsum (fun k => (M1 i k + d1 i k) * (M2 k j + d2 k j)) n * x j) n ->
    Rabs (c i - bigsum (fun j => B i j * x j) n)
    <= gamma u (3 * n) * bigsum (fun j => bigsum (fun k => Rabs (M1 i k) * Rabs (M2 k j)) n * Rabs (x j)) n.
Proof.
  intros H3 Bd1 Bd2 BE i Hi Ec.
  assert (Hn : INR n * u < 1) by (apply (le_n_u u Hu0 n (3 * n)); [lia | exact H3]).
  pose proof (gamma_nonneg u Hu0 n Hn) as Gn. set (g := gamma u n) in *.
  set (S := fun i j => bigsum (fun k => Rabs (M1 i k) * Rabs (M2 k j)) n).
  rewrite Ec, <- bigsum_minus.
  eapply Rle_trans; [apply bigsum_abs|].
  rewrite <- bigsum_scal. apply bigsum_le. intros j Hj. cbn beta.
  replace (bigsum (fun k => (M1 i k + d1 i k) * (M2 k j + d2 k j)) n * x j - B i j * x j)
    with ((bigsum (fun k => M1 i k * d2 k j + d1 i k * M2 k j + d1 i k * d2 k j) n
           + (bigsum (fun k => M1 i k * M2 k j) n - B i j)) * x j).
  2:{ rewrite <- (bigsum_ext (fun k => (M1 i k * d2 k j + d1 i k * M2 k j + d1 i k * d2 k j) + M1 i k * M2 k j)
                             (fun k => (M1 i k + d1 i k) * (M2 k j + d2 k j))) by (intros; ring).
      rewrite !bigsum_plus. ring. }
  rewrite Rabs_mult.
  assert (T1 : Rabs (bigsum (fun k => M1 i k * d2 k j + d1 i k * M2 k j + d1 i k * d2 k j) n) <= (2 * g + g * g) * S i j).
  { eapply Rle_trans; [apply bigsum_abs|]. unfold S. rewrite <- bigsum_scal. apply bigsum_le. intros k Hk.
    pose proof (Bd1 i k Hi Hk) as B1. pose proof (Bd2 k j Hk Hj) as B2. fold g in B1, B2.
    pose proof (Rabs_pos (M1 i k)). pose proof (Rabs_pos (M2 k j)). pose proof (Rabs_pos (d1 i k)). pose proof (Rabs_pos (d2 k j)).
    eapply Rle_trans; [apply Rabs_triang|]. eapply Rle_trans; [apply Rplus_le_compat_r; apply Rabs_triang|].
    rewrite !Rabs_mult.
    assert (Rabs (M1 i k) * Rabs (d2 k j) <= g * (Rabs (M1 i k) * Rabs (M2 k j))) by nra.
    assert (Rabs (d1 i k) * Rabs (M2 k j) <= g * (Rabs (M1 i k) * Rabs (M2 k j))) by nra.
    assert (Rabs (d1 i k) * Rabs (d2 k j) <= g * g * (Rabs (M1 i k) * Rabs (M2 k j))).
    { assert (Rabs (d1 i k) * Rabs (d2 k j) <= (g * Rabs (M1 i k)) * (g * Rabs (M2 k j))) by (apply Rmult_le_compat; lra). nra. }
    lra. }
  assert (T2 : Rabs (bigsum (fun k => M1 i k * M2 k j) n - B i j) <= g * S i j).
  { rewrite Rabs_minus_sym. unfold g, S. apply (BE i j Hi Hj). }
  assert (S0 : 0 <= S i j).
  { unfold S. apply bigsum_nonneg. intros k Hk. apply Rmult_le_pos; apply Rabs_pos. }
  pose proof (gamma_3n u Hu0 n H3) as G3. fold g in G3. pose proof (Rabs_pos (x j)).
  eapply Rle_trans; [apply Rmult_le_compat_r; [lra|]; eapply Rle_trans; [apply Rabs_triang | apply Rplus_le_compat; [exact T1 | exact T2]]|].
  fold (S i j). assert (0 <= S i j * Rabs (x j)) by (apply Rmult_le_pos; lra). nra.
Qed.

(* the transposed solve with the factors of lu_rel *)
Theorem solve_backward_trans n B L U c z x :
  lu_rel u n B L U ->
  lsolved_rel n (fun i k => U k i) c z -> uusolve_rel n (fun i k => L k i) z x -> INR (3 * n) * u < 1 ->
  forall i, (i < n)%nat ->
    Rabs (c i - bigsum (fun j => B j i * x j) n)
    <= gamma u (3 * n) * bigsum (fun j => bigsum (fun k => Rabs (U k i) * Rabs (L j k)) n * Rabs (x j)) n.
Proof.
  intros HLU H1 H2 H3 i Hi.
  assert (Hn : INR n * u < 1) by (apply (le_n_u u Hu0 n (3 * n)); [lia | exact H3]).
  destruct (lsolved_backward n (fun i k => U k i) c z H1) as (d1 & Bd1 & E1);
    [intros a b Hab; cbn; apply (lr_Uzero _ _ _ _ _ HLU); exact Hab | exact Hn |].
  destruct (uusolve_backward n (fun i k => L k i) z x H2) as (d2 & Bd2 & E2);
    [intros a Ha; cbn; apply (lr_unit _ _ _ _ _ HLU); exact Ha
    | intros a b Hab; cbn; apply (lr_Lzero _ _ _ _ _ HLU); exact Hab | exact Hn |].
  pose proof (lu_backward u Hu0 Hu1 n B L U HLU Hn) as BE.
  apply (compose_backward n (fun i k => U k i) (fun k j => L j k) (fun i j => B j i) d1 d2 c x H3 Bd1 Bd2); [|exact Hi|].
  - intros a b Ha Hb. cbn beta.
    rewrite (bigsum_ext (fun k => U k a * L b k) (fun k => L b k * U k a)) by (intros; ring).
    rewrite (bigsum_ext (fun k => Rabs (U k a) * Rabs (L b k)) (fun k => Rabs (L b k) * Rabs (U k a))) by (intros; ring).
    apply (BE b a Hb Ha).
  - rewrite (E1 i Hi).
    rewrite (bigsum_ext _ (fun k => bigsum (fun j => (U k i + d1 i k) * ((L j k + d2 k j) * x j)) n)).
    2:{ intros k Hk. rewrite (E2 k Hk). now rewrite bigsum_scal. }
    rewrite bigsum_swap. apply bigsum_ext. intros j Hj.
    rewrite <- bigsum_scal_r. apply bigsum_ext. intros k Hk. ring.
Qed.

End TRANS.
