(* C2GalLib.v -- hand-written helpers shared by the definitions that tools/c2gal.py generates (coq/*Gen.v) and by the tie files.

   Pointers.  The translator tracks ONE base pointer per translated function (cfg "base_ptr", e.g. stack.array of p?memory.c).
   A C pointer value is a [cptr]:  None = NULL,  Some off = (char * ) base + off  (offset in bytes relative to the base object).
   The ADDRESS held in the base pointer is a parameter (a Z) of the generated function; it is only needed when the C code casts
   a pointer to an integer ((long long) p  ==>  paddr base_address p).  Pointer arithmetic is only translated on `char *`
   (element size 1).  Arithmetic on NULL is undefined in C; here it gives NULL again.

   Bit operators.  & | ^ ~ << >> of C are Z.land Z.lor Z.lxor Z.lnot Z.shiftl Z.shiftr on Z (two's complement of unbounded width:
   the same bits as the C operation on any width that holds the operands).  The lemmas below turn the masks of the alignment
   macros of p?memory.c
       NotDoubleAlign(a) = (long long) a & 7          DoubleAlign(a) = ((long long) a + 7) & ~7L
   into  mod 8  arithmetic that lia understands. *)
Require Import ZArith Bool Lia ZifyBool.
Local Open Scope Z_scope.

Definition cptr := option Z.
Definition pnull : cptr := None.
Definition pbase : cptr := Some 0.
Definition padd (p : cptr) (k : Z) : cptr := match p with Some o => Some (o + k) | None => None end.
Definition paddr (base : Z) (p : cptr) : Z := match p with Some o => base + o | None => 0 end.
Definition peqb (p q : cptr) : bool :=
  match p, q with
  | None, None => true
  | Some a, Some b => a =? b
  | _, _ => false
  end.

Lemma padd_pbase : forall k, padd pbase k = Some k.
Proof. intros k; reflexivity. Qed.
Lemma padd_some : forall o k, padd (Some o) k = Some (o + k).
Proof. intros o k; reflexivity. Qed.
Lemma padd_null : forall k, padd pnull k = pnull.
Proof. intros k; reflexivity. Qed.
Lemma paddr_some : forall b o, paddr b (Some o) = b + o.
Proof. intros b o; reflexivity. Qed.
Lemma peqb_null_some : forall o, peqb (Some o) pnull = false.
Proof. intros o; reflexivity. Qed.
Lemma peqb_refl : forall p, peqb p p = true.
Proof. intros [o|]; simpl; [apply Z.eqb_refl | reflexivity]. Qed.
Lemma peqb_eq : forall p q, peqb p q = true <-> p = q.
Proof.
  intros [a|] [b|]; simpl; split; intros Heq; try discriminate; try reflexivity.
  - apply Z.eqb_eq in Heq; subst; reflexivity.
  - injection Heq as Hab; subst; apply Z.eqb_refl.
Qed.

(* x & 7  =  x mod 8   (every x, negative ones included: two's complement) *)
Lemma land_7_mod8 : forall x, Z.land x 7 = x mod 8.
Proof. intros x. change 7 with (Z.ones 3). rewrite Z.land_ones by lia. reflexivity. Qed.

(* x & (2^n - 1) = x mod 2^n *)
Lemma land_mask : forall x n, 0 <= n -> Z.land x (2 ^ n - 1) = x mod 2 ^ n.
Proof.
  intros x n Hn. replace (2 ^ n - 1) with (Z.ones n) by (rewrite Z.ones_equiv; symmetry; apply Z.sub_1_r).
  apply Z.land_ones; exact Hn.
Qed.

(* x & ~7  =  x - x mod 8 *)
Lemma land_lnot7 : forall x, Z.land x (Z.lnot 7) = x - x mod 8.
Proof.
  intros x. rewrite <- Z.ldiff_land. change 7 with (Z.ones 3).
  rewrite Z.ldiff_ones_r by lia. rewrite Z.shiftr_div_pow2, Z.shiftl_mul_pow2 by lia.
  change (2 ^ 3) with 8. pose proof (Z.div_mod x 8) as Hdm. lia.
Qed.

(* DoubleAlign: (x + 7) & ~7  =  x + (8 - x mod 8) mod 8 *)
Lemma double_align : forall x, Z.land (x + 7) (Z.lnot 7) = x + (8 - x mod 8) mod 8.
Proof. intros x. rewrite land_lnot7. Z.to_euclidean_division_equations. lia. Qed.

(* the alignment of base + off only depends on base mod 8 *)
Lemma mod8_base : forall b off, (b + off) mod 8 = (b mod 8 + off) mod 8.
Proof. intros b off. rewrite Zplus_mod_idemp_l. reflexivity. Qed.

(* ---- tactics shared by the tie files ---- *)
(* pointer helpers applied to explicit offsets, masks of the alignment macros *)
Ltac c2g_norm :=
  cbv beta delta [pbase pnull padd paddr peqb] iota zeta;
  rewrite ?land_7_mod8, ?double_align, ?land_lnot7.

(* a leaf of a decision-tree walk: both sides are values (tuples); equal componentwise by linear arithmetic, or the path is
   contradictory.  Fails when the two sides decide differently on a satisfiable path. *)
Ltac c2g_lia := Z.to_euclidean_division_equations; lia.      (* lia that knows  / and mod  by constants *)
(* split an equation between tuples / Some _ into its components (never inside arithmetic) *)
Ltac c2g_split :=
  repeat match goal with
         | |- (_, _) = (_, _) => apply (f_equal2 (@pair _ _))
         | |- Some _ = Some _ => apply f_equal
         end.
Ltac c2g_leaf :=
  first [ reflexivity
        | solve [ c2g_split; first [ reflexivity | c2g_lia ] ]
        | solve [ exfalso; c2g_lia ] ].

(* ---- loops: zrange a b is the list of the values the C loop `for (i = a; i < b; ++i)` gives its variable ---- *)
Require Import List.
Import ListNotations.
Definition zrange (a b : Z) : list Z := map (fun k => a + Z.of_nat k) (seq 0 (Z.to_nat (b - a))).

Lemma zrange_nil a b : b <= a -> zrange a b = [].
Proof. intros H. unfold zrange. replace (Z.to_nat (b - a)) with 0%nat by lia. reflexivity. Qed.

Lemma zrange_cons a b : a < b -> zrange a b = a :: zrange (a + 1) b.
Proof.
  intros H. unfold zrange. replace (Z.to_nat (b - a)) with (S (Z.to_nat (b - (a + 1)))) by lia.
  cbn [seq map]. f_equal; [lia|]. rewrite <- seq_shift, map_map. apply map_ext. intros k. lia.
Qed.

Lemma zrange_length a b : length (zrange a b) = Z.to_nat (b - a).
Proof. unfold zrange. now rewrite map_length, seq_length. Qed.

Lemma zrange_In a b x : In x (zrange a b) <-> a <= x < b.
Proof.
  unfold zrange. rewrite in_map_iff. split.
  - intros (k & <- & Hk). apply in_seq in Hk. lia.
  - intros H. exists (Z.to_nat (x - a)). split; [lia|]. apply in_seq. lia.
Qed.

Lemma zrange_snoc a b : a <= b -> zrange a (b + 1) = zrange a b ++ [b].
Proof.
  intros H. unfold zrange. replace (Z.to_nat (b + 1 - a)) with (Z.to_nat (b - a) + 1)%nat by lia.
  rewrite seq_app, map_app. cbn [seq map Nat.add]. do 2 f_equal. lia.
Qed.

(* the loop over a range of n values starting at a, one value at a time *)
Lemma zrange_of_nat a n : zrange a (a + Z.of_nat (S n)) = a :: zrange (a + 1) (a + 1 + Z.of_nat n).
Proof. rewrite zrange_cons by lia. do 2 f_equal. lia. Qed.

(* a loop invariant rule for the translated for-loops: P holds before, every iteration with a <= i < b keeps it *)
Lemma fold_zrange_inv (S : Type) (P : Z -> S -> Prop) (B : S -> Z -> S) a b s :
  a <= b -> P a s -> (forall i st, a <= i < b -> P i st -> P (i + 1) (B st i)) -> P b (fold_left B (zrange a b) s).
Proof.
  intros Hab. remember (Z.to_nat (b - a)) as n eqn:En. revert a s Hab En.
  induction n as [|n IH]; intros a s Hab En H0 Hstep.
  - assert (a = b) by lia. subst b. rewrite zrange_nil by lia. exact H0.
  - rewrite zrange_cons by lia. cbn [fold_left]. apply IH; [lia | lia | |].
    + apply Hstep; [lia | exact H0].
    + intros i st Hi. apply Hstep. lia.
Qed.

(* ---- functions that may end the process (added for Glu_alloc / DynamicSetMap of pmemory.c) ----
   A path of the C function that ends in a call that never returns (cfg "abort_calls": superlu_abort_and_exit, exit, abort) has
   the distinguished result [Aborted]; every other path ends in [Returned v]. *)
Inductive outcome (A : Type) : Type := Returned (a : A) | Aborted.
Arguments Returned {A} a.
Arguments Aborted {A}.

Lemma Returned_inj (A : Type) (a b : A) : Returned a = Returned b -> a = b.
Proof. intros Heq. injection Heq as Hab. exact Hab. Qed.

(* ---- mutable integer arrays reached through a pointer (cfg "parrays"): the value is a function Z -> Z, a store is zupd ---- *)
Definition zupd (m : Z -> Z) (i v : Z) : Z -> Z := fun j => if j =? i then v else m j.

Lemma zupd_same m i v : zupd m i v i = v.
Proof. unfold zupd. now rewrite Z.eqb_refl. Qed.
Lemma zupd_other m i v j : j <> i -> zupd m i v j = m j.
Proof. intros Hne. unfold zupd. destruct (j =? i) eqn:E; [apply Z.eqb_eq in E; contradiction | reflexivity]. Qed.
Lemma zupd_eq m m' i i' v v' : m = m' -> i = i' -> v = v' -> zupd m i v = zupd m' i' v'.
Proof. intros -> -> ->. reflexivity. Qed.

(* ---- a generic decision-tree walk for tie proofs (the shape of UstackTie.tree_walk, with the leaf tactic as a parameter) ----
   the outermost test of the LEFT side, then any test left anywhere, is split on its first atom (negb, ||, && are looked
   through); one destruct per atom, the equation is kept (and the test is rewritten everywhere by destruct). *)
Ltac c2g_cond_split c :=
  lazymatch c with
  | negb ?a => c2g_cond_split a
  | (?a || ?b)%bool => c2g_cond_split a
  | (?a && ?b)%bool => c2g_cond_split a
  | _ => let H := fresh "Hcond" in destruct c eqn:H
  end.

Ltac c2g_walk leaf :=
  cbv beta iota zeta; cbn [negb andb orb];
  lazymatch goal with
  | |- (if ?c then _ else _) = _ => c2g_cond_split c; c2g_walk leaf
  | |- ?L = ?R =>
      lazymatch L with
      | context [if ?c then _ else _] => c2g_cond_split c; c2g_walk leaf
      | _ => lazymatch R with
             | context [if ?c then _ else _] => c2g_cond_split c; c2g_walk leaf
             | _ => leaf
             end
      end
  end.

(* equality of two integer terms up to linear arithmetic under applications of uninterpreted functions (m (a + b) = m (b + a)):
   two applications f a, f b of a VARIABLE f whose arguments are equal by lia are made syntactically equal first (innermost
   applications get their turn through backtracking), then lia sees each f a as one atom *)
Ltac c2g_congr :=
  repeat match goal with
         | |- context [?f ?a] =>
             is_var f;
             match goal with
             | |- context [f ?b] => tryif constr_eq a b then fail else (replace (f a) with (f b) by (apply f_equal; lia))
             end
         end.
Ltac c2g_arith := solve [ c2g_congr; first [ reflexivity | lia ] ].
(* componentwise equality of result tuples; array components are compared store by store *)
Ltac c2g_tuple :=
  repeat match goal with
         | |- (_, _) = (_, _) => apply (f_equal2 (@pair _ _))
         | |- Some _ = Some _ => apply f_equal
         | |- Returned _ = Returned _ => apply f_equal
         | |- zupd _ _ _ = zupd _ _ _ => apply zupd_eq
         end.
